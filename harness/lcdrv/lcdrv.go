package lcdrv

// Package lcdrv: the history interpreter shared by the correspondence drivers of C10 (lifecycle phase machine,
// launch schedule), C11 and C19 (stopped consumers:
// no updates, removal after the unbonding period).  A case is a history of small-integer actions; it is
// executed on the REAL provider keeper / message server / module Begin- and EndBlock over the fake World of
// harness/common.  The driver returns (1) the input of the model component `lifecycle`
// (coq/theories/Model/Lifecycle.v): the actions plus the oracle values read from the world before each block
// operation, and (2) the observations after every action.
//
// Times are integers: x <-> base + x ns with base = common.T0 - 1000 ns; 0 = the zero time.

import (
	"bytes"
	"encoding/base64"
	"encoding/json"
	"errors"
	"fmt"
	"hash/fnv"
	"sort"
	"strconv"
	"testing"
	"time"

	clienttypes "github.com/cosmos/ibc-go/v10/modules/core/02-client/types"
	channeltypes "github.com/cosmos/ibc-go/v10/modules/core/04-channel/types"

	"cosmossdk.io/math"
	storetypes "cosmossdk.io/store/types"

	sdk "github.com/cosmos/cosmos-sdk/types"

	"verifharness/common"

	providertypes "github.com/cosmos/interchain-security/v7/x/ccv/provider/types"
	ccvtypes "github.com/cosmos/interchain-security/v7/x/ccv/types"
)

type Kase struct {
	ID      int64             `json:"id"`
	U       int64             `json:"U"`       // provider unbonding period in ns
	NVals   int               `json:"nvals"`   // staking validators (power i+1)
	MaxProv int64             `json:"maxprov"` // MaxProviderConsensusValidators
	Epoch   int64             `json:"epoch"`   // BlocksPerEpoch
	Ops     []json.RawMessage `json:"ops"`
	// NumberOfEpochsToStartReceivingRewards (0: the default of the provider parameters)
	RewardEpochs int64 `json:"reward_epochs"`
}

var base = common.T0.Add(-1000 * time.Nanosecond)

func ToTime(x int64) time.Time {
	if x == 0 {
		return time.Time{}
	}
	return base.Add(time.Duration(x))
}

func FromTime(t time.Time) int64 {
	if t.IsZero() {
		return 0
	}
	return int64(t.Sub(base))
}

func ownerAddr(i int64) string {
	b := make([]byte, 20)
	b[0] = 0xa0
	b[19] = byte(i)
	b[18] = byte(i >> 8)
	return sdk.AccAddress(b).String()
}

func chainID(name, rev int64) string {
	if rev == 0 {
		return fmt.Sprintf("cn%d", name)
	}
	return fmt.Sprintf("cn%d-%d", name, rev)
}

func CID(c int64) string { return strconv.FormatInt(c, 10) }

func ChanID(c int64) string { return fmt.Sprintf("channel-%d", c) }

type ini struct{ spawn, hrev, conn int64 }

func decIni(x []int64) *ini {
	if len(x) < 3 {
		return nil
	}
	return &ini{x[0], x[1], x[2]}
}

func (i *ini) params() *providertypes.ConsumerInitializationParameters {
	if i == nil {
		return nil
	}
	conn := ""
	if i.conn != 0 {
		conn = fmt.Sprintf("connection-%d", 900+i.conn) // never registered in the world
	}
	return &providertypes.ConsumerInitializationParameters{
		InitialHeight:                     clienttypes.NewHeight(uint64(i.hrev), 5),
		GenesisHash:                       []byte("gen_hash"),
		BinaryHash:                        []byte("bin_hash"),
		SpawnTime:                         ToTime(i.spawn),
		ConsumerRedistributionFraction:    ccvtypes.DefaultConsumerRedistributeFrac,
		BlocksPerDistributionTransmission: ccvtypes.DefaultBlocksPerDistributionTransmission,
		DistributionTransmissionChannel:   "",
		HistoricalEntries:                 ccvtypes.DefaultHistoricalEntries,
		CcvTimeoutPeriod:                  ccvtypes.DefaultCCVTimeoutPeriod,
		TransferTimeoutPeriod:             ccvtypes.DefaultTransferTimeoutPeriod,
		UnbondingPeriod:                   ccvtypes.DefaultConsumerUnbondingPeriod,
		ConnectionId:                      conn,
	}
}

func encIni(i *ini) common.T {
	if i == nil {
		return common.L()
	}
	return common.L(i.spawn, i.hrev, i.conn)
}

// classify maps a result to the result codes of Model/Lifecycle.v.
func classify(r common.Result) int64 {
	switch {
	case r.Panic != nil:
		return 100
	case r.Err == nil:
		return 0
	case errors.Is(r.Err, providertypes.ErrInvalidPhase):
		return 2
	case errors.Is(r.Err, providertypes.ErrUnauthorized):
		return 3
	case errors.Is(r.Err, providertypes.ErrInvalidConsumerInitializationParameters):
		return 5
	case errors.Is(r.Err, providertypes.ErrInvalidMsgUpdateConsumer):
		return 4
	case errors.Is(r.Err, ccvtypes.ErrInvalidConsumerState):
		return 6
	case errors.Is(r.Err, providertypes.ErrNoOwnerAddress):
		return 7
	}
	return 1
}

type Drv struct {
	Env   *common.ProviderEnv
	W     *common.World
	K     Kase
	keyNo int
}

func (d *Drv) store() storetypes.KVStore { return d.Env.Ctx.KVStore(d.Env.StoreKey) }

func (d *Drv) NextID() int64 {
	n, _ := d.Env.K.GetConsumerId(d.Env.Ctx)
	return int64(n)
}

// key prefixes (taken once from the exported key constructors: they rebuild the prefix table on every call)
var (
	pChannel    = providertypes.ConsumerIdToChannelIdKey("")[0]
	pChanToCons = providertypes.ChannelIdToConsumerIdKeyPrefix()[0]
	pClient     = providertypes.ConsumerIdToClientIdKeyPrefix()[0]
	pGenesis    = providertypes.ConsumerGenesisKey("")[0]
	pSlashAcks  = providertypes.SlashAcksKey("")[0]
	pInitHeight = providertypes.InitChainHeightKey("")[0]
	pPending    = providertypes.PendingVSCsKey("")[0]
	pEvMin      = providertypes.EquivocationEvidenceMinHeightKey("")[0]
	pValset     = providertypes.ConsumerValidatorKeyPrefix()
	pOptedIn    = providertypes.OptedInKeyPrefix()
	pClientRev  = providertypes.ClientIdToConsumerIdKey("")[0]
	pSpawnQ     = providertypes.SpawnTimeToConsumerIdsKeyPrefix()
	pRemovalQ   = providertypes.RemovalTimeToConsumerIdsKeyPrefix()
	// keys of the form prefix | consumer id (no length field)
	legacyPrefixes = map[byte]bool{pChannel: true, pClient: true, pGenesis: true, pSlashAcks: true, pInitHeight: true,
		pPending: true, pEvMin: true}
	// prefixes that are not per consumer (parameters, port, vsc id, slash meter, vsc heights, slash log, reward denoms,
	// provider consensus set, consumer id counter, infraction schedule)
	globalPrefixes = map[byte]bool{0xFF: true, 0: true, 2: true, 3: true, 4: true, 13: true, 26: true, 27: true, 42: true,
		43: true, 59: true}
	// the per-consumer records written by other sub-protocols
	extraPrefixes = []int64{15, 22, 23, 36, 37, 39, 40, 41, 56}
)

// scan is one pass over the raw provider store.
type Scan struct {
	Keys    []map[int64]int // per consumer: prefix byte -> number of keys attributed to the consumer
	Optin   [][]int64       // per consumer: opted-in validators
	SpawnQ  []common.T
	RemQ    []common.T
	Unknown bool // a key that cannot be attributed to a consumer or to the global state
}

func decQueueEntry(prefix byte, key, val []byte) common.T {
	ts, err := providertypes.ParseTime(prefix, key)
	if err != nil {
		panic(err)
	}
	var ids providertypes.ConsumerIds
	if err := ids.Unmarshal(val); err != nil {
		panic(err)
	}
	l := make([]int64, len(ids.Ids))
	for i, s := range ids.Ids {
		l[i], _ = strconv.ParseInt(s, 10, 64)
	}
	return common.L(FromTime(ts), common.Ints(l))
}

func (d *Drv) ScanStore() *Scan {
	n := d.NextID()
	sc := &Scan{Keys: make([]map[int64]int, n), Optin: make([][]int64, n), SpawnQ: []common.T{}, RemQ: []common.T{}}
	for c := range sc.Keys {
		sc.Keys[c] = map[int64]int{}
		sc.Optin[c] = []int64{}
	}
	attribute := func(idStr string, p byte) int64 {
		c, err := strconv.ParseInt(idStr, 10, 64)
		if err != nil || c < 0 || c >= n || CID(c) != idStr {
			sc.Unknown = true
			return -1
		}
		sc.Keys[c][int64(p)]++
		return c
	}
	it := d.store().Iterator(nil, nil)
	defer it.Close()
	for ; it.Valid(); it.Next() {
		kb, val := it.Key(), it.Value()
		p := kb[0]
		switch {
		case p == pSpawnQ:
			sc.SpawnQ = append(sc.SpawnQ, decQueueEntry(p, kb, val))
		case p == pRemovalQ:
			sc.RemQ = append(sc.RemQ, decQueueEntry(p, kb, val))
		case globalPrefixes[p]:
		case p == pChanToCons, p == pClientRev:
			attribute(string(val), p) // reverse indexes: the value is the consumer id
		case legacyPrefixes[p]:
			attribute(string(kb[1:]), p)
		case len(kb) >= 9:
			id, err := providertypes.ParseStringIdWithLenKey(p, kb)
			if err != nil {
				sc.Unknown = true
				break
			}
			c := attribute(id, p)
			if c >= 0 && p == pOptedIn {
				if _, addr, err := providertypes.ParseStringIdAndConsAddrKey(p, kb); err == nil {
					sc.Optin[c] = append(sc.Optin[c], d.valIndex(addr))
				}
			}
		default:
			sc.Unknown = true
		}
	}
	return sc
}

func (d *Drv) SentOn(ch string) int64 {
	n := int64(0)
	for _, p := range d.W.Sent {
		if p.Channel == ch {
			n++
		}
	}
	return n
}

// ChannelClosed: the IBC channel object of consumer c exists in the world and is CLOSED (not modelled; monitor clause 13)
func (d *Drv) ChannelClosed(c int64) bool {
	ch, ok := d.W.Channels[ccvtypes.ProviderPortID+"/"+ChanID(c)]
	return ok && ch.State == channeltypes.CLOSED
}

func (d *Drv) valIndex(consAddr []byte) int64 {
	for _, v := range d.W.Vals {
		if bytes.Equal(v.ConsAddr(), consAddr) {
			return int64(v.Idx)
		}
	}
	return -1
}

// Observe: phase, spawn time, removal time, client, channel and pending packets through the keeper's getters;
// genesis / evidence height / validator set / opt-ins / other records and both time queues from one raw store scan.
func (d *Drv) Observe(code int64) common.T {
	ctx, k := d.Env.Ctx, d.Env.K
	n := d.NextID()
	sc := d.ScanStore()
	cons := make([]common.T, 0, n)
	for c := int64(0); c < n; c++ {
		id := CID(c)
		spawn := int64(-1)
		if ip, err := k.GetConsumerInitializationParameters(ctx, id); err == nil {
			spawn = FromTime(ip.SpawnTime)
		}
		removal := int64(0)
		if t, err := k.GetConsumerRemovalTime(ctx, id); err == nil {
			removal = FromTime(t)
		}
		_, client := k.GetConsumerClientId(ctx, id)
		_, channel := k.GetConsumerIdToChannelId(ctx, id)
		keys := sc.Keys[c]
		optin := sc.Optin[c]
		sort.Slice(optin, func(i, j int) bool { return optin[i] < optin[j] })
		extra := []int64{}
		for _, p := range extraPrefixes {
			if keys[p] > 0 {
				extra = append(extra, p)
			}
		}
		cons = append(cons, common.L(c, int64(k.GetConsumerPhase(ctx, id)), spawn, removal,
			common.B(client), common.B(keys[int64(pGenesis)] > 0), common.B(keys[int64(pEvMin)] > 0), common.B(channel),
			int64(keys[int64(pValset)]), int64(len(k.GetPendingVSCPackets(ctx, id))), d.SentOn(ChanID(c)),
			common.Ints(optin), common.Ints(extra), common.B(d.ChannelClosed(c))))
	}
	return common.L(code, n, cons, sc.SpawnQ, sc.RemQ)
}

// Residual: for each consumer the sorted set of key prefixes under which something attributable to it exists in
// the raw provider store (999 is added when some key could not be attributed at all).
func (d *Drv) Residual() common.T {
	sc := d.ScanStore()
	out := make([]common.T, len(sc.Keys))
	for c, keys := range sc.Keys {
		l := []int64{}
		for p := range keys {
			l = append(l, p)
		}
		if sc.Unknown && c == 0 {
			l = append(l, 999)
		}
		sort.Slice(l, func(i, j int) bool { return l[i] < l[j] })
		out[c] = common.Ints(l)
	}
	return out
}

func (d *Drv) provAddr(v int64) providertypes.ProviderConsAddress {
	return providertypes.NewProviderConsAddress(d.W.Vals[int(v)%len(d.W.Vals)].ConsAddr())
}

func (d *Drv) freshKeyJSON() string {
	d.keyNo++
	pk := common.Key(20000 + d.keyNo).PubKey()
	return fmt.Sprintf(`{"@type":"/cosmos.crypto.ed25519.PubKey","key":"%s"}`, base64.StdEncoding.EncodeToString(pk.Bytes()))
}

// LaunchOracle dry-runs the initial validator set computation for every initialized consumer on a discarded
// cached context and reads the external-call outcome from the world.
func (d *Drv) LaunchOracle(failClient bool) common.T {
	out := []common.T{}
	n := d.NextID()
	for c := int64(0); c < n; c++ {
		id := CID(c)
		if d.Env.K.GetConsumerPhase(d.Env.Ctx, id) != providertypes.CONSUMER_PHASE_INITIALIZED {
			continue
		}
		cctx, _ := d.Env.Ctx.CacheContext()
		bonded, err := d.Env.K.GetLastBondedValidators(cctx)
		if err != nil {
			panic(err)
		}
		active, err := d.Env.K.GetLastProviderConsensusActiveValidators(cctx)
		if err != nil {
			panic(err)
		}
		size, hasActive := int64(0), false
		if upd, err := d.Env.K.ComputeConsumerNextValSet(cctx, bonded, active, id, []providertypes.ConsensusValidator{}); err == nil {
			size = int64(len(upd))
			hasActive, _ = d.Env.K.HasActiveConsumerValidator(cctx, id, active)
		}
		extfail := failClient
		if ip, err := d.Env.K.GetConsumerInitializationParameters(d.Env.Ctx, id); err == nil && ip.ConnectionId != "" {
			_, known := d.W.Connections[ip.ConnectionId]
			extfail = !known
		}
		out = append(out, common.L(c, size, common.B(hasActive), common.B(extfail)))
	}
	return out
}

// MarkKthClientCall translates the world's "the (k+1)-th CreateClient call fails" into the per-consumer oracle:
// CreateClient is called once for every attempted consumer (due ids in queue order, at most 200) whose set is
// non-empty, has an active validator and names no connection; the (k+1)-th of them gets extfail = 1.
func (d *Drv) MarkKthClientCall(ora common.T, now, k int64) {
	rows := map[int64][]common.T{}
	for _, row := range ora.([]common.T) {
		r := row.([]common.T)
		rows[r[0].(int64)] = r
	}
	attempted := 0
	for _, e := range d.ScanStore().SpawnQ {
		entry := e.([]common.T)
		if entry[0].(int64) > now {
			break
		}
		for _, idv := range entry[1].([]common.T) {
			if attempted >= 200 {
				return
			}
			attempted++
			r, ok := rows[idv.(int64)]
			if !ok || r[1].(int64) == 0 || r[2].(int) == 0 || r[3].(int) != 0 {
				continue // fails before CreateClient (or names a connection)
			}
			if ip, err := d.Env.K.GetConsumerInitializationParameters(d.Env.Ctx, CID(idv.(int64))); err != nil || ip.ConnectionId != "" {
				continue
			}
			if k == 0 {
				r[3] = 1
				return
			}
			k--
		}
	}
}

// EndOracle: iteration order of the client index, and per consumer whether the validator set computation
// yields changes, the new size, and how the channel keeper will answer SendPacket.
func (d *Drv) EndOracle() (common.T, common.T) {
	order := []int64{}
	ora := []common.T{}
	for _, id := range d.Env.K.GetAllConsumersWithIBCClients(d.Env.Ctx) {
		c, _ := strconv.ParseInt(id, 10, 64)
		order = append(order, c)
		cctx, _ := d.Env.Ctx.CacheContext()
		bonded, _ := d.Env.K.GetLastBondedValidators(cctx)
		active, _ := d.Env.K.GetLastProviderConsensusActiveValidators(cctx)
		cur, _ := d.Env.K.GetConsumerValSet(cctx, id)
		changes, size := false, int64(len(cur))
		if upd, err := d.Env.K.ComputeConsumerNextValSet(cctx, bonded, active, id, cur); err == nil {
			changes = len(upd) != 0
			next, _ := d.Env.K.GetConsumerValSet(cctx, id)
			size = int64(len(next))
		}
		mode := int64(0)
		if chID, ok := d.Env.K.GetConsumerIdToChannelId(d.Env.Ctx, id); ok {
			ch := d.W.Channels[ccvtypes.ProviderPortID+"/"+chID]
			switch {
			case ch == nil || ch.State != channeltypes.OPEN:
				mode = 2
			default:
				if conn, ok := d.W.Connections[ch.ConnectionID]; ok {
					if cl, ok := d.W.Clients[conn.ClientID]; ok && cl.Expired {
						mode = 1
					}
				}
			}
		}
		ora = append(ora, common.L(c, common.B(changes), size, mode))
	}
	return common.Ints(order), ora
}

func (d *Drv) decorate(c, tag int64) int64 {
	if c < 0 || c >= d.NextID() {
		return 1
	}
	ctx, k, id := d.Env.Ctx, d.Env.K, CID(c)
	switch tag {
	case 36:
		k.SetAllowlist(ctx, id, d.provAddr(c))
	case 37:
		k.SetDenylist(ctx, id, d.provAddr(c+1))
	case 56:
		k.SetPrioritylist(ctx, id, d.provAddr(c+2))
	case 39:
		if err := k.SetConsumerCommissionRate(ctx, id, d.provAddr(c), math.LegacyNewDecWithPrec(5, 1)); err != nil {
			panic(err)
		}
	case 15:
		k.SetSlashAcks(ctx, id, []string{"ack"})
	case 40:
		k.SetMinimumPowerInTopN(ctx, id, 7)
	case 41:
		k.AppendConsumerAddrsToPrune(ctx, id, common.T0.Add(1000*time.Hour),
			providertypes.NewConsumerConsAddress(common.Key(30000+int(c)).PubKey().Address().Bytes()))
	default:
		panic("unknown decoration")
	}
	return 0
}

func (d *Drv) bindChannel(c int64) int64 {
	id := CID(c)
	clientID, ok := d.Env.K.GetConsumerClientId(d.Env.Ctx, id)
	if !ok {
		clientID = "07-tendermint-999"
	}
	chID, connID := ChanID(c), fmt.Sprintf("connection-%d", c)
	key := ccvtypes.ProviderPortID + "/" + chID
	if _, ok := d.W.Channels[key]; !ok {
		d.W.Channels[key] = &common.Channel{Port: ccvtypes.ProviderPortID, ID: chID, State: channeltypes.OPEN,
			Ordering: channeltypes.ORDERED, ConnectionID: connID, CpPort: ccvtypes.ConsumerPortID, CpID: "channel-0", Version: ccvtypes.Version}
	}
	d.W.Connections[connID] = &common.Connection{ID: connID, ClientID: clientID, CpConnectionID: "connection-0", CpClientID: "07-tendermint-0"}
	r := common.Tx(d.Env.Ctx, func(ctx sdk.Context) error { return d.Env.K.SetConsumerChain(ctx, chID) })
	if r.Panic != nil {
		return 100
	}
	if r.Err != nil {
		return 8
	}
	return 0
}

func ints(raw json.RawMessage) []int64 {
	var x []int64
	if err := json.Unmarshal(raw, &x); err != nil {
		panic(err)
	}
	return x
}

// Step executes one action and returns the model op (with oracle values) and the result code.
func (d *Drv) Step(raw json.RawMessage) (common.T, int64) {
	var parts []json.RawMessage
	if err := json.Unmarshal(raw, &parts); err != nil {
		panic(err)
	}
	var tag int64
	json.Unmarshal(parts[0], &tag)
	if tag < 0 { // quiet action: executed, not observed (the model op keeps the negative tag)
		tag = -tag
		op, code := d.stepTag(tag, parts)
		l := op.([]common.T)
		l[0] = -tag
		return l, code
	}
	return d.stepTag(tag, parts)
}

func (d *Drv) stepTag(tag int64, parts []json.RawMessage) (common.T, int64) {
	num := func(i int) int64 {
		var x int64
		if err := json.Unmarshal(parts[i], &x); err != nil {
			panic(err)
		}
		return x
	}
	env := d.Env
	switch tag {
	case 1: // create: owner, chain, rev, ini
		owner, chain, rev, in := num(1), num(2), num(3), decIni(ints(parts[4]))
		msg := &providertypes.MsgCreateConsumer{Submitter: ownerAddr(owner), ChainId: chainID(chain, rev),
			Metadata:                 providertypes.ConsumerMetadata{Name: "n", Description: "d", Metadata: "m"},
			InitializationParameters: in.params(),
			PowerShapingParameters:   &providertypes.PowerShapingParameters{AllowInactiveVals: true}}
		return common.L(1, owner, chain, rev, encIni(in)), classify(env.Deliver(msg))
	case 2: // update: c, sender, newchain, newowner, ini
		c, sender, nc, no, in := num(1), num(2), ints(parts[3]), ints(parts[4]), decIni(ints(parts[5]))
		msg := &providertypes.MsgUpdateConsumer{Owner: ownerAddr(sender), ConsumerId: CID(c), InitializationParameters: in.params()}
		if len(nc) == 2 {
			msg.NewChainId = chainID(nc[0], nc[1])
		}
		if len(no) == 1 {
			msg.NewOwnerAddress = ownerAddr(no[0])
		}
		return common.L(2, c, sender, common.Ints(nc), common.Ints(no), encIni(in)), classify(env.Deliver(msg))
	case 3: // remove: c, sender
		c, sender := num(1), num(2)
		return common.L(3, c, sender), classify(env.Deliver(&providertypes.MsgRemoveConsumer{Owner: ownerAddr(sender), ConsumerId: CID(c)}))
	case 4: // opt in: c, validator, with key
		c, v, wk := num(1), num(2), num(3)
		val := d.W.Vals[int(v)%len(d.W.Vals)]
		msg := &providertypes.MsgOptIn{ProviderAddr: val.Oper.String(), ConsumerId: CID(c), Signer: sdk.AccAddress(val.Oper).String()}
		if wk != 0 {
			msg.ConsumerKey = d.freshKeyJSON()
		}
		return common.L(4, c, int64(val.Idx), wk), classify(env.Deliver(msg))
	case 5: // decorate: c, tag
		c, t := num(1), num(2)
		return common.L(5, c, t), d.decorate(c, t)
	case 6: // CCV channel handshake completes for c
		c := num(1)
		return common.L(6, c), d.bindChannel(c)
	case 7: // next block after dt ns, BeginBlock; fault: 0 none, 1 every CreateClient call of this block fails,
		// 2+k: the (k+1)-th CreateClient call of this block fails
		dt, fault := num(1), num(2)
		env.NextBlock(time.Duration(dt))
		now := FromTime(env.Ctx.BlockTime())
		ora := d.LaunchOracle(fault == 1)
		if fault == 1 {
			d.W.FailAlways["client.CreateClient"] = true
		} else if fault >= 2 {
			d.MarkKthClientCall(ora, now, fault-2)
			d.W.Faults["client.CreateClient"] = int(fault - 2)
		}
		r := common.Tx(env.Ctx, func(ctx sdk.Context) error { return env.Module.BeginBlock(ctx) })
		delete(d.W.FailAlways, "client.CreateClient")
		delete(d.W.Faults, "client.CreateClient")
		code := int64(0)
		if r.Panic != nil {
			code = 100
		} else if r.Err != nil {
			code = 9
		}
		return common.L(7, now, ora), code
	case 8: // EndBlock
		epoch := env.Ctx.BlockHeight()%d.K.Epoch == 0
		order, ora := d.EndOracle()
		_, r := env.EndBlock()
		code := int64(0)
		if r.Panic != nil {
			code = 100
		} else if r.Err != nil {
			code = 9
		}
		return common.L(8, common.B(epoch), order, ora), code
	case 9, 10: // packet timeout / error acknowledgement on the channel of c
		c := num(1)
		packet := channeltypes.Packet{Sequence: 1, SourcePort: ccvtypes.ProviderPortID, SourceChannel: ChanID(c),
			DestinationPort: ccvtypes.ConsumerPortID, DestinationChannel: "channel-0"}
		r := common.Tx(env.Ctx, func(ctx sdk.Context) error {
			if tag == 9 {
				return env.K.OnTimeoutPacket(ctx, packet)
			}
			return env.K.OnAcknowledgementPacket(ctx, packet, channeltypes.NewErrorAcknowledgement(fmt.Errorf("bad packet")))
		})
		code := int64(0)
		if r.Panic != nil {
			code = 100
		} else if r.Err != nil {
			code = 8
		}
		return common.L(tag, c), code
	case 12: // reward credit for consumer c (no lifecycle state): allocation record + registered denom + funded pool
		c, amt := num(1), num(2)
		if c >= 0 && c < d.NextID() {
			denom := RewardDenom
			env.K.SetConsumerRewardDenom(env.Ctx, denom)
			alloc := env.K.GetConsumerRewardsAllocationByDenom
			cur, err := alloc(env.Ctx, CID(c), denom)
			if err != nil {
				panic(err)
			}
			cur.Rewards = cur.Rewards.Add(sdk.NewDecCoins(sdk.NewDecCoin(denom, math.NewInt(amt)))...)
			if err := env.K.SetConsumerRewardsAllocationByDenom(env.Ctx, CID(c), denom, cur); err != nil {
				panic(err)
			}
			d.W.Fund(providertypes.ConsumerRewardsPool, sdk.NewCoins(sdk.NewCoin(denom, math.NewInt(amt))))
		}
		return common.L(11), 0
	case 11: // world-only actions (no model state): 1 v power | 2 c (close channel) | 3 c b (client expired) | 4 c (register c's connection)
		switch num(1) {
		case 1:
			v := d.W.Vals[int(num(2))%len(d.W.Vals)]
			v.Tokens = math.NewInt(num(3) * common.PowerReduction)
			d.W.StakingEndBlock()
		case 2:
			if ch, ok := d.W.Channels[ccvtypes.ProviderPortID+"/"+ChanID(num(2))]; ok {
				ch.State = channeltypes.CLOSED
			}
		case 4: // register the connection named by consumer c's initialization parameters, over a client of c's chain id
			c := num(2)
			if ip, err := env.K.GetConsumerInitializationParameters(env.Ctx, CID(c)); err == nil && ip.ConnectionId != "" {
				if _, known := d.W.Connections[ip.ConnectionId]; !known {
					chain, _ := env.K.GetConsumerChainId(env.Ctx, CID(c))
					cl := d.W.AddClient(chain, 5)
					d.W.Connections[ip.ConnectionId] = &common.Connection{ID: ip.ConnectionId, ClientID: cl.ID,
						CpConnectionID: "connection-0", CpClientID: "07-tendermint-0"}
				}
			}
		case 3:
			if clientID, ok := env.K.GetConsumerClientId(env.Ctx, CID(num(2))); ok {
				if cl, ok := d.W.Clients[clientID]; ok {
					cl.Expired = num(3) != 0
				}
			}
		}
		return common.L(11), 0
	}
	panic(fmt.Sprintf("unknown action %d", tag))
}

// RewardDenom is the denom of the reward credits created by action 12.
const RewardDenom = "ibc/rewards"

// AllocDigest hashes the reward-allocation records of consumer c (store prefix ConsumerRewardsAllocationByDenom).
func (d *Drv) AllocDigest(c int64) int64 {
	h := fnv.New64a()
	p := providertypes.StringIdWithLenKey(providertypes.ConsumerRewardsAllocationByDenomKeyPrefix(), CID(c))
	it := storetypes.KVStorePrefixIterator(d.store(), p)
	defer it.Close()
	for ; it.Valid(); it.Next() {
		h.Write(it.Key())
		h.Write([]byte{0})
		h.Write(it.Value())
		h.Write([]byte{1})
	}
	return int64(h.Sum64() >> 12)
}

// New builds the world, the provider environment and the interpreter for a case.
func New(t testing.TB, k Kase) *Drv {
	w := common.NewWorld(k.NVals)
	w.Unbonding = time.Duration(k.U)
	env := common.NewProviderEnv(t, w)
	p := providertypes.DefaultParams()
	p.BlocksPerEpoch = k.Epoch
	p.MaxProviderConsensusValidators = k.MaxProv
	if k.RewardEpochs > 0 {
		p.NumberOfEpochsToStartReceivingRewards = k.RewardEpochs
	}
	env.InitGenesis(p)
	return &Drv{Env: env, W: w, K: k}
}

// Commit saves the IAVL working set (iterators over a tree with many unsaved keys are very slow).
func (d *Drv) Commit() {
	if cms, ok := d.Env.Ctx.MultiStore().(storetypes.CommitMultiStore); ok {
		cms.Commit()
	}
}

// Run interprets the whole history: the model input ops and the observation after every non-quiet action.
func (d *Drv) Run(rawOps []json.RawMessage) (ops, obs []common.T) {
	ops = make([]common.T, 0, len(rawOps))
	obs = make([]common.T, 0, len(rawOps))
	for _, raw := range rawOps {
		op, code := d.Step(raw)
		ops = append(ops, op)
		if d.NextID() > 40 {
			d.Commit()
		}
		if tag, ok := op.([]common.T)[0].(int64); !ok || tag >= 0 {
			obs = append(obs, d.Observe(code))
		}
	}
	return ops, obs
}
