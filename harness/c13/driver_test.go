package c13

// Correspondence driver for C13 (consumers are isolated from one another).  Four parts, selected by the
// "part" field of the case (all cases of one run belong to one part):
//   keys  - calls every exported key constructor of providertypes and GetAllKeyPrefixes(); the model
//           (coq/theories/Model/StoreKeys.v) builds the same keys byte by byte;
//   store - set / delete / delete-by-prefix-iteration / pruning-range on the real IAVL store through the real
//           key constructors and the keeper's own Delete* / ConsumeConsumerAddrsToPrune helpers; the model
//           replays the operations on its abstract store; the dump after every operation is compared;
//   frame - consumers 0,1,2,10,11(,100) created through real messages, brought to different phases, then ONE
//           per-consumer operation on c1; the raw provider store is diffed, every changed key is attributed
//           to a consumer (Go mirror of the model's decode_owner, compared with the model), and the
//           getter-level state of every other consumer is compared;
//   lint  - go/ast inventory of every store iteration in x/ccv/provider/keeper (see lint.go).

import (
	"encoding/json"
	"fmt"
	"sort"
	"strconv"
	"testing"
	"time"

	"verifharness/common"

	providertypes "github.com/cosmos/interchain-security/v7/x/ccv/provider/types"
)

// ---------------------------------------------------------------- trees

func bytesT(b []byte) common.T {
	out := make([]common.T, len(b))
	for i, x := range b {
		out[i] = int64(x)
	}
	return out
}

func toBytes(xs []int64) []byte {
	out := make([]byte, len(xs))
	for i, x := range xs {
		out[i] = byte(x)
	}
	return out
}

// idSpec: [0, n] decimal rendering of n (strconv.FormatUint, as FetchAndIncrementConsumerId) or [1, [bytes]].
type idSpec struct {
	raw []json.RawMessage
}

func parseList(raw json.RawMessage) []json.RawMessage {
	var l []json.RawMessage
	if err := json.Unmarshal(raw, &l); err != nil {
		panic(err)
	}
	return l
}

func num(raw json.RawMessage) int64 {
	var x int64
	if err := json.Unmarshal(raw, &x); err != nil {
		panic(fmt.Sprintf("not an integer: %s", raw))
	}
	return x
}

func unum(raw json.RawMessage) uint64 {
	var x uint64
	if err := json.Unmarshal(raw, &x); err != nil {
		panic(fmt.Sprintf("not an unsigned integer: %s", raw))
	}
	return x
}

func ints(raw json.RawMessage) []int64 {
	var x []int64
	if err := json.Unmarshal(raw, &x); err != nil {
		panic(err)
	}
	return x
}

// decodeID returns the consumer id string and the tree the model receives.
func decodeID(raw json.RawMessage) (string, common.T) {
	l := parseList(raw)
	if num(l[0]) == 0 {
		n := unum(l[1])
		return strconv.FormatUint(n, 10), common.L(0, n)
	}
	b := toBytes(ints(l[1]))
	return string(b), common.L(1, bytesT(b))
}

// suffix of a key: address / denom bytes, a timestamp, or a uint64
type suffix struct {
	mode int64
	raw  []byte
	t    time.Time
	u    uint64
}

// decodeSuffix: [0] | [1,[bytes]] | [2, unixSeconds, nanos] | [3, u]; the model receives the time broken
// down into calendar fields by Go's time package (the calendar conversion is not modelled).
func decodeSuffix(raw json.RawMessage) (suffix, common.T) {
	l := parseList(raw)
	switch num(l[0]) {
	case 1:
		b := toBytes(ints(l[1]))
		return suffix{mode: 1, raw: b}, common.L(1, bytesT(b))
	case 2:
		t := time.Unix(num(l[1]), num(l[2])).UTC()
		return suffix{mode: 2, t: t}, common.L(2, int64(t.Year()), int64(t.Month()), int64(t.Day()),
			int64(t.Hour()), int64(t.Minute()), int64(t.Second()), int64(t.Nanosecond()))
	case 3:
		u := unum(l[1])
		return suffix{mode: 3, u: u}, common.L(3, u)
	}
	return suffix{}, common.L(0)
}

// ---------------------------------------------------------------- constructors by prefix byte

// fullKey calls the fully defined key function of keys.go that belongs to prefix byte p.
func fullKey(p byte, id string, s suffix) []byte {
	pa := providertypes.NewProviderConsAddress(s.raw)
	switch p {
	case 0xFF:
		return providertypes.ParametersKey()
	case 0:
		return providertypes.PortKey()
	case 2:
		return providertypes.ValidatorSetUpdateIdKey()
	case 3:
		return providertypes.SlashMeterKey()
	case 4:
		return providertypes.SlashMeterReplenishTimeCandidateKey()
	case 43:
		return providertypes.ConsumerIdKey()
	case 5:
		return providertypes.ConsumerIdToChannelIdKey(id)
	case 7:
		return providertypes.ConsumerIdToClientIdKey(id)
	case 14:
		return providertypes.ConsumerGenesisKey(id)
	case 15:
		return providertypes.SlashAcksKey(id)
	case 16:
		return providertypes.InitChainHeightKey(id)
	case 17:
		return providertypes.PendingVSCsKey(id)
	case 29:
		return providertypes.EquivocationEvidenceMinHeightKey(id)
	case 40:
		return providertypes.MinimumPowerInTopNKey(id)
	case 44:
		return providertypes.ConsumerIdToChainIdKey(id)
	case 45:
		return providertypes.ConsumerIdToOwnerAddressKey(id)
	case 46:
		return providertypes.ConsumerIdToMetadataKey(id)
	case 47:
		return providertypes.ConsumerIdToInitializationParametersKey(id)
	case 48:
		return providertypes.ConsumerIdToPowerShapingParametersKey(id)
	case 49:
		return providertypes.ConsumerIdToPhaseKey(id)
	case 50:
		return providertypes.ConsumerIdToRemovalTimeKey(id)
	case 54:
		return providertypes.ConsumerIdToAllowlistedRewardDenomKey(id)
	case 57:
		return providertypes.ConsumerIdToInfractionParametersKey(id)
	case 58:
		return providertypes.ConsumerIdToQueuedInfractionParametersKey(id)
	case 22:
		return providertypes.ConsumerValidatorsKey(id, pa)
	case 23:
		return providertypes.ValidatorsByConsumerAddrKey(id, providertypes.NewConsumerConsAddress(s.raw))
	case 31:
		return providertypes.ConsumerValidatorKey(id, s.raw)
	case 36:
		return providertypes.AllowlistKey(id, pa)
	case 37:
		return providertypes.DenylistKey(id, pa)
	case 56:
		return providertypes.PrioritylistKey(id, pa)
	case 32:
		return providertypes.OptedInKey(id, pa)
	case 39:
		return providertypes.ConsumerCommissionRateKey(id, pa)
	case 41:
		return providertypes.ConsumerAddrsToPruneV2Key(id, s.t)
	case 55:
		return providertypes.ConsumerRewardsAllocationByDenomKey(id, string(s.raw))
	case 51:
		return providertypes.SpawnTimeToConsumerIdsKey(s.t)
	case 52:
		return providertypes.RemovalTimeToConsumerIdsKey(s.t)
	case 59:
		return providertypes.InfractionScheduledTimeToConsumerIdsKey(s.t)
	case 6:
		return providertypes.ChannelToConsumerIdKey(id)
	case 53:
		return providertypes.ClientIdToConsumerIdKey(id)
	case 13:
		return providertypes.ValsetUpdateBlockHeightKey(s.u)
	case 26:
		return providertypes.SlashLogKey(pa)
	case 27:
		return providertypes.ConsumerRewardDenomsKey(string(s.raw))
	case 42:
		return providertypes.LastProviderConsensusValsPrefix()
	}
	return []byte{} // deprecated / unknown byte: no constructor
}

// ---------------------------------------------------------------- part "keys"

func runKeys(raw json.RawMessage) (common.T, common.T) {
	var k struct {
		Reqs []json.RawMessage `json:"reqs"`
	}
	if err := json.Unmarshal(raw, &k); err != nil {
		panic(err)
	}
	reqs := make([]common.T, 0, len(k.Reqs))
	keys := make([]common.T, 0, len(k.Reqs))
	for _, r := range k.Reqs {
		l := parseList(r)
		code, p := num(l[0]), byte(num(l[1]))
		id, idT := decodeID(l[2])
		suf, sufT := decodeSuffix(l[3])
		var key []byte
		switch code {
		case 0:
			key = fullKey(p, id, suf)
		case 1:
			key = providertypes.StringIdWithLenKey(p, id)
		case 2:
			if suf.mode == 2 {
				key = providertypes.StringIdAndTsKey(p, id, suf.t)
			} else {
				key = providertypes.StringIdAndConsAddrKey(p, id, suf.raw)
			}
		case 3:
			key = providertypes.StringIdAndUintIdKey(p, id, suf.u)
		default:
			key = append([]byte{p}, []byte(id)...)
		}
		reqs = append(reqs, common.L(code, int64(p), idT, sufT))
		keys = append(keys, bytesT(key))
	}
	return common.L(1, reqs), common.L(keys, bytesT(providertypes.GetAllKeyPrefixes()))
}

// ---------------------------------------------------------------- part "store"

func dumpT(m map[string]string) common.T {
	ks := make([]string, 0, len(m))
	for k := range m {
		ks = append(ks, k)
	}
	sort.Strings(ks)
	out := make([]common.T, len(ks))
	for i, k := range ks {
		out[i] = common.L(bytesT([]byte(k)), bytesT([]byte(m[k])))
	}
	return out
}

func runStore(t *testing.T, raw json.RawMessage) (common.T, common.T) {
	var k struct {
		Ops []json.RawMessage `json:"ops"`
	}
	if err := json.Unmarshal(raw, &k); err != nil {
		panic(err)
	}
	env := common.NewProviderEnv(t, common.NewWorld(0))
	ctx, K := env.Ctx, env.K
	store := ctx.KVStore(env.StoreKey)
	ops := make([]common.T, 0, len(k.Ops))
	dumps := make([]common.T, 0, len(k.Ops))
	for _, r := range k.Ops {
		l := parseList(r)
		kind, p := num(l[0]), byte(num(l[1]))
		id, idT := decodeID(l[2])
		suf, sufT := decodeSuffix(l[3])
		val := toBytes(ints(l[4]))
		switch kind {
		case 1:
			store.Set(fullKey(p, id, suf), val)
		case 2:
			store.Delete(fullKey(p, id, suf))
		case 3: // the keeper's own deletion by prefix iteration for the space p
			switch p {
			case 32:
				K.DeleteAllOptedIn(ctx, id)
			case 36:
				K.DeleteAllowlist(ctx, id)
			case 37:
				K.DeleteDenylist(ctx, id)
			case 56:
				K.DeletePrioritylist(ctx, id)
			case 31:
				K.DeleteConsumerValSet(ctx, id)
			case 39: // as in DeleteConsumerChain
				for _, a := range K.GetAllCommissionRateValidators(ctx, id) {
					K.DeleteConsumerCommissionRate(ctx, id, a)
				}
			case 22: // the three loops of DeleteKeyAssignments, one per space
				for _, x := range K.GetAllValidatorConsumerPubKeys(ctx, &id) {
					K.DeleteValidatorConsumerPubKey(ctx, id, providertypes.NewProviderConsAddress(x.ProviderAddr))
				}
			case 23:
				for _, x := range K.GetAllValidatorsByConsumerAddr(ctx, &id) {
					K.DeleteValidatorByConsumerAddr(ctx, id, providertypes.NewConsumerConsAddress(x.ConsumerAddr))
				}
			case 41:
				for _, x := range K.GetAllConsumerAddrsToPrune(ctx, id) {
					K.DeleteConsumerAddrsToPrune(ctx, id, x.PruneTs)
				}
			default:
				panic(fmt.Sprintf("no prefix-iteration helper for space %d", p))
			}
		case 4:
			K.ConsumeConsumerAddrsToPrune(ctx, id, suf.t)
		}
		ops = append(ops, common.L(kind, int64(p), idT, sufT, bytesT(val)))
		dumps = append(dumps, dumpT(env.DumpStore()))
	}
	return common.L(2, ops), dumps
}

// ---------------------------------------------------------------- entry point

func TestDriver(t *testing.T) {
	common.RunCases(t, func(c common.Case) (common.T, common.T) {
		var hdr struct {
			Part string `json:"part"`
		}
		if err := json.Unmarshal(c.Raw, &hdr); err != nil {
			panic(err)
		}
		switch hdr.Part {
		case "keys":
			return runKeys(c.Raw)
		case "store":
			return runStore(t, c.Raw)
		case "frame":
			return runFrame(t, c.Raw)
		case "lint":
			return runLint(c.Raw)
		}
		panic("unknown part " + hdr.Part)
	})
}
