package c13

// Part "lint": inventory of the store iterations of x/ccv/provider/keeper (non-test files), by go/ast.
// Every call of storetypes.KVStorePrefixIterator / KVStoreReversePrefixIterator / <store>.Iterator /
// <store>.ReverseIterator is reported as (prefix byte, form):
//   form 1: the prefix is StringIdWithLenKey(p, consumerId) (or a full length-prefixed key of space p)
//   form 2: the prefix is the whole space []byte{p} (p = -1: the whole store)
//   form 3: the prefix is `p | consumerId` without the length (legacy constructor or append([]byte{p}, id...))
//   form 4: Iterator(start, end) whose start is of form 1
//   form 0: not understood (p = 1000 + a hash of the expression), to be reviewed
// Local variables are resolved through their assignments in the enclosing function, parameters through the
// call sites of the enclosing function, keeper helpers that just return a key through their return expression.
// The result is a sorted multiset, independent of line numbers and of the names of the iterating functions.

import (
	"encoding/json"
	"go/ast"
	"go/parser"
	"go/token"
	"hash/fnv"
	"os"
	"path/filepath"
	"sort"
	"strings"

	"verifharness/common"

	providertypes "github.com/cosmos/interchain-security/v7/x/ccv/provider/types"
)

type site struct{ p, form int64 }

// exported functions of providertypes that return a prefix byte
var bytePrefixFns = map[string]byte{
	"ConsumerValidatorsKeyPrefix":                     providertypes.ConsumerValidatorsKeyPrefix(),
	"ValidatorsByConsumerAddrKeyPrefix":               providertypes.ValidatorsByConsumerAddrKeyPrefix(),
	"ConsumerValidatorKeyPrefix":                      providertypes.ConsumerValidatorKeyPrefix(),
	"AllowlistKeyPrefix":                              providertypes.AllowlistKeyPrefix(),
	"DenylistKeyPrefix":                               providertypes.DenylistKeyPrefix(),
	"PrioritylistKeyPrefix":                           providertypes.PrioritylistKeyPrefix(),
	"OptedInKeyPrefix":                                providertypes.OptedInKeyPrefix(),
	"ConsumerCommissionRateKeyPrefix":                 providertypes.ConsumerCommissionRateKeyPrefix(),
	"ConsumerAddrsToPruneV2KeyPrefix":                 providertypes.ConsumerAddrsToPruneV2KeyPrefix(),
	"ConsumerIdToMetadataKeyPrefix":                   providertypes.ConsumerIdToMetadataKeyPrefix(),
	"ConsumerIdToInitializationParametersKeyPrefix":   providertypes.ConsumerIdToInitializationParametersKeyPrefix(),
	"ConsumerIdToPhaseKeyPrefix":                      providertypes.ConsumerIdToPhaseKeyPrefix(),
	"ConsumerIdToRemovalTimeKeyPrefix":                providertypes.ConsumerIdToRemovalTimeKeyPrefix(),
	"SpawnTimeToConsumerIdsKeyPrefix":                 providertypes.SpawnTimeToConsumerIdsKeyPrefix(),
	"RemovalTimeToConsumerIdsKeyPrefix":               providertypes.RemovalTimeToConsumerIdsKeyPrefix(),
	"ConsumerIdToAllowlistedRewardDenomKeyPrefix":     providertypes.ConsumerIdToAllowlistedRewardDenomKeyPrefix(),
	"ConsumerRewardsAllocationByDenomKeyPrefix":       providertypes.ConsumerRewardsAllocationByDenomKeyPrefix(),
	"ConsumerIdToInfractionParametersKeyPrefix":       providertypes.ConsumerIdToInfractionParametersKeyPrefix(),
	"ConsumerIdToQueuedInfractionParametersKeyPrefix": providertypes.ConsumerIdToQueuedInfractionParametersKeyPrefix(),
	"InfractionScheduledTimeToConsumerIdsKeyPrefix":   providertypes.InfractionScheduledTimeToConsumerIdsKeyPrefix(),
}

// exported functions that return the one-byte prefix of a whole space as []byte
var slicePrefixFns = map[string]byte{
	"ChannelIdToConsumerIdKeyPrefix":   providertypes.ChannelIdToConsumerIdKeyPrefix()[0],
	"ConsumerIdToClientIdKeyPrefix":    providertypes.ConsumerIdToClientIdKeyPrefix()[0],
	"ValsetUpdateBlockHeightKeyPrefix": providertypes.ValsetUpdateBlockHeightKeyPrefix()[0],
	"ConsumerRewardDenomsKeyPrefix":    providertypes.ConsumerRewardDenomsKeyPrefix()[0],
	"LastProviderConsensusValsPrefix":  providertypes.LastProviderConsensusValsPrefix()[0],
}

// per-consumer full-key constructors: legacy `p | id` (form 3 when used as an iteration prefix) ...
var legacyCtors = map[string]byte{
	"ConsumerIdToChannelIdKey":         providertypes.ConsumerIdToChannelIdKey("")[0],
	"ConsumerIdToClientIdKey":          providertypes.ConsumerIdToClientIdKey("")[0],
	"ConsumerGenesisKey":               providertypes.ConsumerGenesisKey("")[0],
	"SlashAcksKey":                     providertypes.SlashAcksKey("")[0],
	"InitChainHeightKey":               providertypes.InitChainHeightKey("")[0],
	"PendingVSCsKey":                   providertypes.PendingVSCsKey("")[0],
	"EquivocationEvidenceMinHeightKey": providertypes.EquivocationEvidenceMinHeightKey("")[0],
	"ChannelToConsumerIdKey":           providertypes.ChannelToConsumerIdKey("")[0],
}

// ... and length-prefixed `p | len | id` (form 1)
var lenCtors = map[string]byte{
	"MinimumPowerInTopNKey":                     providertypes.MinimumPowerInTopNKey("")[0],
	"ConsumerIdToChainIdKey":                    providertypes.ConsumerIdToChainIdKey("")[0],
	"ConsumerIdToOwnerAddressKey":               providertypes.ConsumerIdToOwnerAddressKey("")[0],
	"ConsumerIdToMetadataKey":                   providertypes.ConsumerIdToMetadataKey("")[0],
	"ConsumerIdToInitializationParametersKey":   providertypes.ConsumerIdToInitializationParametersKey("")[0],
	"ConsumerIdToPowerShapingParametersKey":     providertypes.ConsumerIdToPowerShapingParametersKey("")[0],
	"ConsumerIdToPhaseKey":                      providertypes.ConsumerIdToPhaseKey("")[0],
	"ConsumerIdToRemovalTimeKey":                providertypes.ConsumerIdToRemovalTimeKey("")[0],
	"ConsumerIdToAllowlistedRewardDenomKey":     providertypes.ConsumerIdToAllowlistedRewardDenomKey("")[0],
	"ConsumerIdToInfractionParametersKey":       providertypes.ConsumerIdToInfractionParametersKey("")[0],
	"ConsumerIdToQueuedInfractionParametersKey": providertypes.ConsumerIdToQueuedInfractionParametersKey("")[0],
	"ClientIdToConsumerIdKey":                   providertypes.ClientIdToConsumerIdKey("")[0],
}

type linter struct {
	fset  *token.FileSet
	funcs map[string][]*ast.FuncDecl
	all   []*ast.FuncDecl
}

func unknown(e ast.Node, fset *token.FileSet) int64 {
	h := fnv.New32a()
	var sb strings.Builder
	ast.Inspect(e, func(n ast.Node) bool {
		switch x := n.(type) {
		case *ast.Ident:
			sb.WriteString(x.Name + " ")
		case *ast.BasicLit:
			sb.WriteString(x.Value + " ")
		}
		return true
	})
	h.Write([]byte(sb.String()))
	return 1000 + int64(h.Sum32()%1000000)
}

func calleeName(c *ast.CallExpr) string {
	switch f := c.Fun.(type) {
	case *ast.SelectorExpr:
		return f.Sel.Name
	case *ast.Ident:
		return f.Name
	}
	return ""
}

func paramIndex(fn *ast.FuncDecl, name string) int {
	i := 0
	for _, f := range fn.Type.Params.List {
		if len(f.Names) == 0 {
			i++
			continue
		}
		for _, n := range f.Names {
			if n.Name == name {
				return i
			}
			i++
		}
	}
	return -1
}

// assignments returns the right-hand sides assigned to the local variable name in fn.
func assignments(fn *ast.FuncDecl, name string) []ast.Expr {
	var out []ast.Expr
	ast.Inspect(fn.Body, func(n ast.Node) bool {
		switch s := n.(type) {
		case *ast.AssignStmt:
			if len(s.Lhs) == len(s.Rhs) {
				for i, l := range s.Lhs {
					if id, ok := l.(*ast.Ident); ok && id.Name == name {
						out = append(out, s.Rhs[i])
					}
				}
			}
		case *ast.ValueSpec:
			for i, id := range s.Names {
				if id.Name == name && i < len(s.Values) {
					out = append(out, s.Values[i])
				}
			}
		}
		return true
	})
	return out
}

// callers returns (caller function, argument expression) for every call of a function named fn.Name.
func (l *linter) callers(fn *ast.FuncDecl, idx int) (fns []*ast.FuncDecl, args []ast.Expr) {
	for _, g := range l.all {
		if g.Body == nil {
			continue
		}
		ast.Inspect(g.Body, func(n ast.Node) bool {
			if c, ok := n.(*ast.CallExpr); ok && calleeName(c) == fn.Name.Name && idx < len(c.Args) {
				fns = append(fns, g)
				args = append(args, c.Args[idx])
			}
			return true
		})
	}
	return
}

// resolveIdent resolves a local variable or parameter through f.
func (l *linter) resolveIdent(id *ast.Ident, fn *ast.FuncDecl, depth int, f func(ast.Expr, *ast.FuncDecl, int) []site) []site {
	if depth > 6 {
		return []site{{unknown(id, l.fset), 0}}
	}
	if idx := paramIndex(fn, id.Name); idx >= 0 {
		fns, args := l.callers(fn, idx)
		var out []site
		for i := range fns {
			out = append(out, f(args[i], fns[i], depth+1)...)
		}
		if len(out) == 0 {
			return []site{{unknown(id, l.fset), 0}}
		}
		return out
	}
	var out []site
	for _, rhs := range assignments(fn, id.Name) {
		out = append(out, f(rhs, fn, depth+1)...)
	}
	if len(out) == 0 {
		return []site{{unknown(id, l.fset), 0}}
	}
	return out
}

// resolveByte: the possible values of an expression of type byte (form field unused).
func (l *linter) resolveByte(e ast.Expr, fn *ast.FuncDecl, depth int) []site {
	switch x := e.(type) {
	case *ast.CallExpr:
		if p, ok := bytePrefixFns[calleeName(x)]; ok && len(x.Args) == 0 {
			return []site{{int64(p), 0}}
		}
	case *ast.Ident:
		return l.resolveIdent(x, fn, depth, l.resolveByte)
	case *ast.ParenExpr:
		return l.resolveByte(x.X, fn, depth)
	}
	return []site{{unknown(e, l.fset), 0}}
}

// resolvePrefix: the possible (byte, form) of an expression of type []byte used as iteration prefix / start.
func (l *linter) resolvePrefix(e ast.Expr, fn *ast.FuncDecl, depth int) []site {
	switch x := e.(type) {
	case *ast.ParenExpr:
		return l.resolvePrefix(x.X, fn, depth)
	case *ast.Ident:
		if x.Name == "nil" {
			return []site{{-1, 2}}
		}
		return l.resolveIdent(x, fn, depth, l.resolvePrefix)
	case *ast.CompositeLit:
		if at, ok := x.Type.(*ast.ArrayType); ok && at.Len == nil && len(x.Elts) == 1 {
			var out []site
			for _, b := range l.resolveByte(x.Elts[0], fn, depth) {
				form := int64(2)
				if b.p >= 1000 {
					form = 0
				}
				out = append(out, site{b.p, form})
			}
			return out
		}
	case *ast.CallExpr:
		name := calleeName(x)
		switch name {
		case "StringIdWithLenKey", "StringIdAndTsKey", "StringIdAndConsAddrKey", "StringIdAndUintIdKey":
			if len(x.Args) >= 2 {
				var out []site
				for _, b := range l.resolveByte(x.Args[0], fn, depth) {
					form := int64(1)
					if b.p >= 1000 {
						form = 0
					}
					out = append(out, site{b.p, form})
				}
				return out
			}
		case "append", "AppendMany":
			// append([]byte{p}, more...): a raw `p | something` prefix
			if len(x.Args) >= 2 {
				var out []site
				for _, s := range l.resolvePrefix(x.Args[0], fn, depth) {
					if s.form == 2 {
						out = append(out, site{s.p, 3})
					} else {
						out = append(out, site{unknown(e, l.fset), 0})
					}
				}
				return out
			}
			if len(x.Args) == 1 {
				return l.resolvePrefix(x.Args[0], fn, depth)
			}
		}
		if p, ok := slicePrefixFns[name]; ok && len(x.Args) == 0 {
			return []site{{int64(p), 2}}
		}
		if p, ok := legacyCtors[name]; ok {
			return []site{{int64(p), 3}}
		}
		if p, ok := lenCtors[name]; ok {
			return []site{{int64(p), 1}}
		}
		// a helper of the keeper package that just returns a key
		if depth <= 6 {
			for _, g := range l.funcs[name] {
				var rets []ast.Expr
				ast.Inspect(g.Body, func(n ast.Node) bool {
					if r, ok := n.(*ast.ReturnStmt); ok && len(r.Results) == 1 {
						rets = append(rets, r.Results[0])
					}
					return true
				})
				if len(rets) == 1 {
					return l.resolvePrefix(rets[0], g, depth+1)
				}
			}
		}
	}
	return []site{{unknown(e, l.fset), 0}}
}

func lintKeeper(repo string) []site {
	dir := filepath.Join(repo, "x", "ccv", "provider", "keeper")
	entries, err := os.ReadDir(dir)
	if err != nil {
		panic(err)
	}
	l := &linter{fset: token.NewFileSet(), funcs: map[string][]*ast.FuncDecl{}}
	for _, e := range entries {
		n := e.Name()
		if e.IsDir() || !strings.HasSuffix(n, ".go") || strings.HasSuffix(n, "_test.go") {
			continue
		}
		f, err := parser.ParseFile(l.fset, filepath.Join(dir, n), nil, 0)
		if err != nil {
			panic(err)
		}
		for _, d := range f.Decls {
			if fd, ok := d.(*ast.FuncDecl); ok && fd.Body != nil {
				l.funcs[fd.Name.Name] = append(l.funcs[fd.Name.Name], fd)
				l.all = append(l.all, fd)
			}
		}
	}
	var sites []site
	for _, fn := range l.all {
		ast.Inspect(fn.Body, func(n ast.Node) bool {
			c, ok := n.(*ast.CallExpr)
			if !ok {
				return true
			}
			sel, ok := c.Fun.(*ast.SelectorExpr)
			if !ok {
				return true
			}
			switch sel.Sel.Name {
			case "KVStorePrefixIterator", "KVStoreReversePrefixIterator":
				if len(c.Args) == 2 {
					sites = append(sites, l.resolvePrefix(c.Args[1], fn, 0)...)
				}
			case "Iterator", "ReverseIterator":
				if len(c.Args) == 2 {
					for _, s := range l.resolvePrefix(c.Args[0], fn, 0) {
						if s.form == 1 {
							s.form = 4
						} else if !(s.form == 2 && s.p == -1) {
							s = site{unknown(c.Args[0], l.fset), 0}
						}
						sites = append(sites, s)
					}
				}
			}
			return true
		})
	}
	sort.Slice(sites, func(i, j int) bool {
		if sites[i].p != sites[j].p {
			return sites[i].p < sites[j].p
		}
		return sites[i].form < sites[j].form
	})
	return sites
}

func runLint(raw json.RawMessage) (common.T, common.T) {
	var k struct {
		Expected [][]int64 `json:"expected"`
	}
	if err := json.Unmarshal(raw, &k); err != nil {
		panic(err)
	}
	repo := os.Getenv("VERIF_REPO")
	if repo == "" {
		repo = "/repo"
	}
	exp := make([]common.T, len(k.Expected))
	for i, e := range k.Expected {
		exp[i] = common.L(e[0], e[1])
	}
	sites := lintKeeper(repo)
	obs := make([]common.T, len(sites))
	for i, s := range sites {
		obs[i] = common.L(s.p, s.form)
	}
	return common.L(4, exp), obs
}
