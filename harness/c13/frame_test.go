package c13

// Part "frame" (see driver_test.go).  Case:
//   {"part":"frame","n":N,"nvals":V,"cons":[{id,phase,allow,deny,prio,optin,keys,comm,denoms,alloc,infra,acks,chan,rekey,qinfra}...],
//    "c1":id,"op":[kind,...]}
// phases: 0 registered, 1 initialized, 2 launched, 3 launched with CCV channel, 4 stopped, 5 deleted.
// N consumers are created through MsgCreateConsumer (ids 0..N-1 issued in order); the consumers listed in
// "cons" are decorated and brought to their phase through real messages, BeginBlock and EndBlock.

import (
	"bytes"
	"encoding/base64"
	"encoding/binary"
	"encoding/json"
	"fmt"
	"strconv"
	"testing"
	"time"

	clienttypes "github.com/cosmos/ibc-go/v10/modules/core/02-client/types"
	channeltypes "github.com/cosmos/ibc-go/v10/modules/core/04-channel/types"

	"cosmossdk.io/math"

	sdk "github.com/cosmos/cosmos-sdk/types"

	"verifharness/common"

	providertypes "github.com/cosmos/interchain-security/v7/x/ccv/provider/types"
	ccvtypes "github.com/cosmos/interchain-security/v7/x/ccv/types"
)

type consumerSpec struct {
	ID     int64   `json:"id"`
	Phase  int64   `json:"phase"`
	Allow  []int64 `json:"allow"`
	Deny   []int64 `json:"deny"`
	Prio   []int64 `json:"prio"`
	OptIn  []int64 `json:"optin"`
	Keys   []int64 `json:"keys"`  // validators that assign a consumer key before launch
	Comm   []int64 `json:"comm"`  // validators that set a commission rate
	Denoms bool    `json:"denoms"` // allowlisted reward denoms
	Alloc  bool    `json:"alloc"`  // a reward allocation
	Infra  bool    `json:"infra"`  // custom infraction parameters at creation
	Acks   bool    `json:"acks"`   // pending slash acks
	Chan   bool    `json:"chan"`   // phases 4/5: the CCV channel was established before the stop
	Rekey  []int64 `json:"rekey"`  // validators that re-assign their consumer key after launch (addresses to prune)
	QInfra bool    `json:"qinfra"` // launched: an infraction-parameter change is queued
}

type frameCase struct {
	N     int64             `json:"n"`
	NVals int               `json:"nvals"`
	Cons  []consumerSpec    `json:"cons"`
	C1    int64             `json:"c1"`
	Op    []json.RawMessage `json:"op"`
	Diff  int64             `json:"diff"` // 1: differential non-interference case (see runFrameDiff)
}

const unbonding = 1000 * time.Second

type fdrv struct {
	env   *common.ProviderEnv
	w     *common.World
	k     frameCase
	keyNo int
	spec  map[int64]*consumerSpec
}

func cid(c int64) string { return strconv.FormatInt(c, 10) }

func ownerAddr(i int64) string {
	b := make([]byte, 20)
	b[0] = 0xa0
	b[19] = byte(i)
	b[18] = byte(i >> 8)
	return sdk.AccAddress(b).String()
}

func chanID(c int64) string { return fmt.Sprintf("channel-%d", c) }

func (d *fdrv) val(v int64) *common.Val { return d.w.Vals[int(v)%len(d.w.Vals)] }

func (d *fdrv) consBech(vs []int64) []string {
	out := []string{}
	for _, v := range vs {
		out = append(out, sdk.ConsAddress(d.val(v).ConsAddr()).String())
	}
	return out
}

func (d *fdrv) freshKeyJSON() string {
	d.keyNo++
	pk := common.Key(20000 + d.keyNo).PubKey()
	return fmt.Sprintf(`{"@type":"/cosmos.crypto.ed25519.PubKey","key":"%s"}`, base64.StdEncoding.EncodeToString(pk.Bytes()))
}

func initParams(spawn time.Time) *providertypes.ConsumerInitializationParameters {
	return &providertypes.ConsumerInitializationParameters{
		InitialHeight:                     clienttypes.NewHeight(1, 5),
		GenesisHash:                       []byte("gen_hash"),
		BinaryHash:                        []byte("bin_hash"),
		SpawnTime:                         spawn,
		ConsumerRedistributionFraction:    ccvtypes.DefaultConsumerRedistributeFrac,
		BlocksPerDistributionTransmission: ccvtypes.DefaultBlocksPerDistributionTransmission,
		HistoricalEntries:                 ccvtypes.DefaultHistoricalEntries,
		CcvTimeoutPeriod:                  ccvtypes.DefaultCCVTimeoutPeriod,
		TransferTimeoutPeriod:             ccvtypes.DefaultTransferTimeoutPeriod,
		UnbondingPeriod:                   ccvtypes.DefaultConsumerUnbondingPeriod,
	}
}

func infraParams(x int64) *providertypes.InfractionParameters {
	return &providertypes.InfractionParameters{
		DoubleSign: &providertypes.SlashJailParameters{JailDuration: time.Duration(1000+x) * time.Second, SlashFraction: math.LegacyNewDecWithPrec(7, 2), Tombstone: true},
		Downtime:   &providertypes.SlashJailParameters{JailDuration: time.Duration(100+x) * time.Second, SlashFraction: math.LegacyNewDecWithPrec(3, 2)},
	}
}

// spawn time of an initialized consumer: far in the future and shared by all of them (one time-queue entry
// holding several ids), except that the one of c1 comes first when the operation is the launch of c1
func (d *fdrv) futureSpawn(c int64) time.Time {
	if c == d.k.C1 && num(d.k.Op[0]) == 7 {
		return common.T0.Add(9000 * time.Hour)
	}
	return common.T0.Add(10000 * time.Hour)
}

func (d *fdrv) must(what string, r common.Result) {
	if !r.OK() {
		panic(fmt.Sprintf("setup: %s: %s", what, r.String()))
	}
}

func (d *fdrv) phase(c int64) providertypes.ConsumerPhase {
	return d.env.K.GetConsumerPhase(d.env.Ctx, cid(c))
}

func (d *fdrv) create(c int64, s *consumerSpec) common.Result {
	msg := &providertypes.MsgCreateConsumer{Submitter: ownerAddr(c), ChainId: fmt.Sprintf("chain%d-1", c),
		Metadata: providertypes.ConsumerMetadata{Name: fmt.Sprintf("name%d", c), Description: "d", Metadata: "m"}}
	if s != nil {
		ps := &providertypes.PowerShapingParameters{AllowInactiveVals: true,
			Allowlist: d.consBech(s.Allow), Denylist: d.consBech(s.Deny), Prioritylist: d.consBech(s.Prio)}
		msg.PowerShapingParameters = ps
		switch {
		case s.Phase == 1:
			msg.InitializationParameters = initParams(d.futureSpawn(c))
		case s.Phase >= 2:
			msg.InitializationParameters = initParams(common.T0.Add(10 * time.Second))
		}
		if s.Denoms {
			msg.AllowlistedRewardDenoms = &providertypes.AllowlistedRewardDenoms{Denoms: []string{"ibc/" + fmt.Sprintf("%064X", c+1)}}
		}
		if s.Infra {
			msg.InfractionParameters = infraParams(c)
		}
	}
	return d.env.Deliver(msg)
}

func (d *fdrv) optIn(c, v int64, withKey bool) common.Result {
	val := d.val(v)
	msg := &providertypes.MsgOptIn{ProviderAddr: val.Oper.String(), ConsumerId: cid(c), Signer: sdk.AccAddress(val.Oper).String()}
	if withKey {
		msg.ConsumerKey = d.freshKeyJSON()
	}
	return d.env.Deliver(msg)
}

func (d *fdrv) assign(c, v int64) common.Result {
	val := d.val(v)
	return d.env.Deliver(&providertypes.MsgAssignConsumerKey{ProviderAddr: val.Oper.String(), ConsumerId: cid(c),
		Signer: sdk.AccAddress(val.Oper).String(), ConsumerKey: d.freshKeyJSON()})
}

func (d *fdrv) commission(c, v, pct int64) common.Result {
	val := d.val(v)
	return d.env.Deliver(&providertypes.MsgSetConsumerCommissionRate{ProviderAddr: val.Oper.String(), ConsumerId: cid(c),
		Signer: sdk.AccAddress(val.Oper).String(), Rate: math.LegacyNewDecWithPrec(pct, 2)})
}

func (d *fdrv) bindChannel(c int64) {
	id := cid(c)
	clientID, ok := d.env.K.GetConsumerClientId(d.env.Ctx, id)
	if !ok {
		panic("setup: no client for " + id)
	}
	chID, connID := chanID(c), fmt.Sprintf("connection-%d", c)
	d.w.Channels[ccvtypes.ProviderPortID+"/"+chID] = &common.Channel{Port: ccvtypes.ProviderPortID, ID: chID, State: channeltypes.OPEN,
		Ordering: channeltypes.ORDERED, ConnectionID: connID, CpPort: ccvtypes.ConsumerPortID, CpID: "channel-0", Version: ccvtypes.Version}
	d.w.Connections[connID] = &common.Connection{ID: connID, ClientID: clientID, CpConnectionID: "connection-0", CpClientID: "07-tendermint-0"}
	d.must("SetConsumerChain "+id, common.Tx(d.env.Ctx, func(ctx sdk.Context) error { return d.env.K.SetConsumerChain(ctx, chID) }))
}

func (d *fdrv) remove(c int64) common.Result {
	return d.env.Deliver(&providertypes.MsgRemoveConsumer{Owner: ownerAddr(c), ConsumerId: cid(c)})
}

func (d *fdrv) setup() {
	env, k := d.env, d.k
	// 1. create the N consumers, in id order
	for c := int64(0); c < k.N; c++ {
		d.must(fmt.Sprintf("create %d", c), d.create(c, d.spec[c]))
	}
	if n, _ := env.K.GetConsumerId(env.Ctx); int64(n) != k.N {
		panic("setup: unexpected consumer id counter")
	}
	// 2. opt-ins, key assignments, commission rates
	for i := range k.Cons {
		s := &k.Cons[i]
		for j, v := range s.OptIn {
			d.must("optin", d.optIn(s.ID, v, j%2 == 1))
		}
		for _, v := range s.Keys {
			d.must("assign", d.assign(s.ID, v))
		}
		for j, v := range s.Comm {
			d.must("commission", d.commission(s.ID, v, int64(10+j)))
		}
	}
	// 3. launch the consumers of phase >= 2
	env.NextBlock(20 * time.Second)
	d.must("BeginBlock(launch)", env.BeginBlock())
	for i := range k.Cons {
		s := &k.Cons[i]
		if s.Phase >= 2 && d.phase(s.ID) != providertypes.CONSUMER_PHASE_LAUNCHED {
			panic(fmt.Sprintf("setup: consumer %d not launched (phase %s)", s.ID, d.phase(s.ID)))
		}
		if s.Phase == 1 && d.phase(s.ID) != providertypes.CONSUMER_PHASE_INITIALIZED {
			panic(fmt.Sprintf("setup: consumer %d not initialized", s.ID))
		}
	}
	// 4. CCV channels, a validator power change, an epoch EndBlock (consumer validator sets, pending VSC packets)
	for i := range k.Cons {
		s := &k.Cons[i]
		if s.Phase == 3 || (s.Phase >= 4 && s.Chan) {
			d.bindChannel(s.ID)
		}
	}
	d.w.Vals[0].Tokens = d.w.Vals[0].Tokens.AddRaw(5 * common.PowerReduction)
	d.w.StakingEndBlock()
	if _, r := env.EndBlock(); !r.OK() {
		panic("setup: EndBlock: " + r.String())
	}
	// 5. decorations that need a launched consumer
	for i := range k.Cons {
		s := &k.Cons[i]
		id := cid(s.ID)
		if s.Alloc {
			alloc := providertypes.ConsumerRewardsAllocation{Rewards: sdk.NewDecCoins(sdk.NewDecCoin("stake", math.NewInt(100+s.ID)))}
			if err := env.K.SetConsumerRewardsAllocationByDenom(env.Ctx, id, "stake", alloc); err != nil {
				panic(err)
			}
		}
		if s.Acks {
			env.K.SetSlashAcks(env.Ctx, id, []string{fmt.Sprintf("ack%d", s.ID)})
		}
		if s.Phase >= 2 {
			for _, v := range s.Rekey {
				d.must("rekey", d.assign(s.ID, v))
			}
		}
	}
	// 6. deleted consumers: stop, wait for the unbonding period, BeginBlock
	any := false
	for i := range k.Cons {
		if s := &k.Cons[i]; s.Phase == 5 {
			d.must("remove", d.remove(s.ID))
			any = true
		}
	}
	if any {
		env.NextBlock(unbonding + time.Second)
		d.must("BeginBlock(delete)", env.BeginBlock())
		for i := range k.Cons {
			if s := &k.Cons[i]; s.Phase == 5 && d.phase(s.ID) != providertypes.CONSUMER_PHASE_DELETED {
				panic(fmt.Sprintf("setup: consumer %d not deleted", s.ID))
			}
		}
	}
	// 7. stopped consumers and queued infraction parameters: all in one block (shared time-queue entries), except
	//    that c1 goes first in a block of its own when the operation is its timed event (so that only it is due)
	kind := num(k.Op[0])
	stopOrQueue := func(s *consumerSpec) {
		if s.Phase == 4 {
			d.must("remove", d.remove(s.ID))
		}
		if (s.Phase == 2 || s.Phase == 3) && s.QInfra {
			d.must("queue infraction", env.Deliver(&providertypes.MsgUpdateConsumer{Owner: ownerAddr(s.ID), ConsumerId: cid(s.ID),
				InfractionParameters: infraParams(50 + s.ID)}))
		}
	}
	env.NextBlock(time.Second)
	if kind == 8 || kind == 9 {
		if s := d.spec[k.C1]; s != nil {
			stopOrQueue(s)
		}
		env.NextBlock(time.Second)
	}
	for i := range k.Cons {
		if s := &k.Cons[i]; !((kind == 8 || kind == 9) && s.ID == k.C1) {
			stopOrQueue(s)
		}
	}
	env.NextBlock(time.Second)
}

// ---------------------------------------------------------------- getter-level state of one consumer

// (read on a discarded cached context: GetConsumerInfractionUpdateTime removes the id it finds)
func (d *fdrv) snapshot(c int64) string {
	ctx, _ := d.env.Ctx.CacheContext()
	K, id := d.env.K, cid(c)
	var b bytes.Buffer
	p := func(label string, xs ...interface{}) { fmt.Fprintf(&b, "%s=%v;", label, xs) }
	chain, e1 := K.GetConsumerChainId(ctx, id)
	p("chain", chain, e1 == nil)
	owner, e2 := K.GetConsumerOwnerAddress(ctx, id)
	p("owner", owner, e2 == nil)
	md, e3 := K.GetConsumerMetadata(ctx, id)
	p("meta", md.String(), e3 == nil)
	ip, e4 := K.GetConsumerInitializationParameters(ctx, id)
	p("init", ip.String(), e4 == nil)
	ps, e5 := K.GetConsumerPowerShapingParameters(ctx, id)
	p("ps", ps.String(), e5 == nil)
	p("phase", K.GetConsumerPhase(ctx, id))
	rt, e6 := K.GetConsumerRemovalTime(ctx, id)
	p("removal", rt.UnixNano(), e6 == nil)
	cl, ok := K.GetConsumerClientId(ctx, id)
	p("client", cl, ok)
	if ok {
		rev, ok2 := K.GetClientIdToConsumerId(ctx, cl)
		p("clientrev", rev, ok2)
	}
	ch, ok := K.GetConsumerIdToChannelId(ctx, id)
	p("channel", ch, ok)
	if ok {
		rev, ok2 := K.GetChannelIdToConsumerId(ctx, ch)
		p("chanrev", rev, ok2)
	}
	gen, ok := K.GetConsumerGenesis(ctx, id)
	p("genesis", gen.String(), ok)
	p("allow", K.GetAllowList(ctx, id))
	p("deny", K.GetDenyList(ctx, id))
	p("prio", K.GetPriorityList(ctx, id))
	p("optin", K.GetAllOptedIn(ctx, id))
	// messages with pointer fields are serialized (a %v of a pointer is an address)
	pm := func(label string, m interface{ Marshal() ([]byte, error) }) {
		bz, err := m.Marshal()
		if err != nil {
			panic(err)
		}
		fmt.Fprintf(&b, "%s=%x;", label, bz)
	}
	vs, e7 := K.GetConsumerValSet(ctx, id)
	p("valset", len(vs), e7 == nil)
	for i := range vs {
		pm("val", &vs[i])
	}
	for _, x := range K.GetAllValidatorConsumerPubKeys(ctx, &id) {
		x := x
		pm("pubkey", &x)
	}
	for _, x := range K.GetAllValidatorsByConsumerAddr(ctx, &id) {
		x := x
		pm("byaddr", &x)
	}
	for _, x := range K.GetAllConsumerAddrsToPrune(ctx, id) {
		x := x
		pm("prune", &x)
	}
	for _, a := range K.GetAllCommissionRateValidators(ctx, id) {
		r, ok := K.GetConsumerCommissionRate(ctx, id, a)
		p("comm", a, r, ok)
	}
	mp, ok := K.GetMinimumPowerInTopN(ctx, id)
	p("minpower", mp, ok)
	for _, x := range K.GetPendingVSCPackets(ctx, id) {
		x := x
		pm("pending", &x)
	}
	p("acks", K.GetSlashAcks(ctx, id))
	ih, ok := K.GetInitChainHeight(ctx, id)
	p("initheight", ih, ok)
	p("evmin", K.GetEquivocationEvidenceMinHeight(ctx, id))
	dn, e8 := K.GetAllowlistedRewardDenoms(ctx, id)
	p("denoms", dn, e8 == nil)
	inf, e9 := K.GetInfractionParameters(ctx, id)
	p("infra", inf.String(), e9 == nil)
	qi, e10 := K.GetQueuedInfractionParameters(ctx, id)
	p("qinfra", qi.String(), e10 == nil)
	ut, e11 := K.GetConsumerInfractionUpdateTime(ctx, id)
	p("qinfratime", ut.UnixNano(), e11 == nil)
	for _, denom := range d.rewardDenoms() {
		al, e12 := K.GetConsumerRewardsAllocationByDenom(ctx, id, denom)
		p("alloc", denom, al.String(), e12 == nil)
	}
	return b.String()
}

// ---------------------------------------------------------------- Go mirror of the model's decode_owner / key_kind

const (
	kNone, kSingle, kLegacy, kLen, kLenSuf, kTime, kForeign, kForeignLen, kWide, kDeprecated = 0, 1, 2, 3, 4, 5, 6, 7, 8, 9
)

var kindOf = func() map[byte]int64 {
	m := map[byte]int64{}
	set := func(k int64, ps ...byte) {
		for _, p := range ps {
			m[p] = k
		}
	}
	set(kSingle, 0xFF, 0, 2, 3, 4, 43)
	set(kLegacy, 5, 7, 14, 15, 16, 17, 29)
	set(kLen, 40, 44, 45, 46, 47, 48, 49, 50, 54, 57, 58)
	set(kLenSuf, 22, 23, 31, 32, 36, 37, 39, 56, 41, 55)
	set(kTime, 51, 52, 59)
	set(kForeign, 6)
	set(kForeignLen, 53)
	set(kWide, 13, 26, 27, 42)
	set(kDeprecated, 1, 8, 9, 10, 11, 12, 18, 19, 20, 21, 24, 25, 28, 30, 33, 34, 35, 38)
	return m
}()

func keyKind(k []byte) int64 {
	if len(k) == 0 {
		return kNone
	}
	return kindOf[k[0]]
}

func decodeOwner(k []byte) ([]byte, bool) {
	if len(k) == 0 {
		return nil, false
	}
	switch kindOf[k[0]] {
	case kLegacy:
		return k[1:], true
	case kLen, kLenSuf:
		r := k[1:]
		if len(r) < 8 {
			return nil, false
		}
		n := binary.BigEndian.Uint64(r[:8])
		body := r[8:]
		if n > uint64(len(body)) {
			return nil, false
		}
		return body[:n], true
	}
	return nil, false
}

// idsOfValue: the consumer ids held by the value of a time-queue key (ConsumerIds) or a reverse index (the id).
func idsOfValue(kind int64, v string, present bool) common.T {
	out := []common.T{}
	if !present {
		return out
	}
	switch kind {
	case kTime:
		var ids providertypes.ConsumerIds
		if err := ids.Unmarshal([]byte(v)); err != nil {
			panic(err)
		}
		for _, s := range ids.Ids {
			out = append(out, bytesT([]byte(s)))
		}
	case kForeign, kForeignLen:
		out = append(out, bytesT([]byte(v)))
	}
	return out
}

// ---------------------------------------------------------------- the operation on c1

func (d *fdrv) advanceTo(t time.Time) {
	dt := t.Sub(d.env.Ctx.BlockTime())
	if dt < 0 {
		dt = 0
	}
	d.env.NextBlock(dt)
}

// apply executes the operation on consumer c1 and returns 0 ok / 1 error / 100 panic.
// With skip (run B of a differential case) the operation is left out: a message is not delivered at all; the
// BeginBlock of a launch (kind 7) still runs at the same time, but with the opposite CreateClient outcome, so
// that both runs have the same block structure and differ only in what happened to c1.
func (d *fdrv) apply(skip bool) int64 {
	env, c1 := d.env, d.k.C1
	id := cid(c1)
	op := d.k.Op
	kind := num(op[0])
	code := func(r common.Result) int64 {
		switch {
		case r.Panic != nil:
			return 100
		case r.Err != nil:
			return 1
		}
		return 0
	}
	if skip && kind != 7 {
		return 0
	}
	switch kind {
	case 1, 13: // MsgUpdateConsumer: [1, meta, newowner, ps?, allow, deny, prio, init, infra, denoms, newchain]
		sender := c1
		if kind == 13 {
			sender = c1 + 1 // not the owner
		}
		msg := &providertypes.MsgUpdateConsumer{Owner: ownerAddr(sender), ConsumerId: id}
		if num(op[1]) != 0 {
			msg.Metadata = &providertypes.ConsumerMetadata{Name: "renamed", Description: "dd", Metadata: "mm"}
		}
		if num(op[2]) != 0 {
			msg.NewOwnerAddress = ownerAddr(500 + c1)
		}
		if num(op[3]) != 0 {
			msg.PowerShapingParameters = &providertypes.PowerShapingParameters{AllowInactiveVals: true,
				ValidatorSetCap: uint32(num(op[3]) - 1), Allowlist: d.consBech(ints(op[4])), Denylist: d.consBech(ints(op[5])),
				Prioritylist: d.consBech(ints(op[6]))}
		}
		switch num(op[7]) {
		case 1:
			msg.InitializationParameters = initParams(common.T0.Add(9500 * time.Hour))
		case 2:
			msg.InitializationParameters = initParams(time.Time{})
		}
		if num(op[8]) != 0 {
			msg.InfractionParameters = infraParams(200 + c1)
		}
		if n := num(op[9]); n != 0 {
			dn := []string{}
			for i := int64(1); i < n; i++ {
				dn = append(dn, "ibc/"+fmt.Sprintf("%064X", 1000+i))
			}
			msg.AllowlistedRewardDenoms = &providertypes.AllowlistedRewardDenoms{Denoms: dn}
		}
		if num(op[10]) != 0 {
			msg.NewChainId = fmt.Sprintf("newchain%d-1", c1)
		}
		return code(env.Deliver(msg))
	case 2:
		return code(d.optIn(c1, num(op[1]), num(op[2]) != 0))
	case 3:
		val := d.val(num(op[1]))
		return code(env.Deliver(&providertypes.MsgOptOut{ProviderAddr: val.Oper.String(), ConsumerId: id, Signer: sdk.AccAddress(val.Oper).String()}))
	case 4:
		return code(d.assign(c1, num(op[1])))
	case 5:
		return code(d.commission(c1, num(op[1]), num(op[2])))
	case 6:
		return code(d.remove(c1))
	case 7: // BeginBlock at the spawn time of c1 (launch, or failing launch); op[1] != 0: CreateClient fails
		ip, err := env.K.GetConsumerInitializationParameters(env.Ctx, id)
		if err != nil || ip.SpawnTime.IsZero() {
			return 1
		}
		d.advanceTo(ip.SpawnTime)
		if (num(op[1]) != 0) != skip {
			d.w.FailAlways["client.CreateClient"] = true
		}
		r := env.BeginBlock()
		delete(d.w.FailAlways, "client.CreateClient")
		return code(r)
	case 8: // BeginBlock at the removal time of c1 (deletion after the unbonding period)
		rt, err := env.K.GetConsumerRemovalTime(env.Ctx, id)
		if err != nil {
			return 1
		}
		d.advanceTo(rt)
		return code(env.BeginBlock())
	case 9: // BeginBlock at the time the queued infraction parameters of c1 become effective
		cctx, _ := env.Ctx.CacheContext() // the getter removes the entry it finds
		ut, err := env.K.GetConsumerInfractionUpdateTime(cctx, id)
		if err != nil {
			return 1
		}
		d.advanceTo(ut)
		return code(env.BeginBlock())
	case 10, 11: // packet timeout / error acknowledgement on the channel of c1
		packet := channeltypes.Packet{Sequence: 1, SourcePort: ccvtypes.ProviderPortID, SourceChannel: chanID(c1),
			DestinationPort: ccvtypes.ConsumerPortID, DestinationChannel: "channel-0"}
		return code(common.Tx(env.Ctx, func(ctx sdk.Context) error {
			if kind == 10 {
				return env.K.OnTimeoutPacket(ctx, packet)
			}
			return env.K.OnAcknowledgementPacket(ctx, packet, channeltypes.NewErrorAcknowledgement(fmt.Errorf("bad packet")))
		}))
	case 12: // MsgCreateConsumer: c1 = N is the id being issued; op[1]: with everything
		if c1 != d.k.N {
			panic("create: c1 must be the next id")
		}
		var s *consumerSpec
		if num(op[1]) != 0 {
			s = &consumerSpec{ID: c1, Phase: 1, Allow: []int64{0, 1}, Deny: []int64{2}, Prio: []int64{1}, Denoms: true, Infra: true}
		}
		return code(d.create(c1, s))
	}
	panic(fmt.Sprintf("unknown op %d", kind))
}

func prepare(t *testing.T, k frameCase) *fdrv {
	w := common.NewWorld(k.NVals)
	w.Unbonding = unbonding
	env := common.NewProviderEnv(t, w)
	params := providertypes.DefaultParams()
	params.BlocksPerEpoch = 2
	params.NumberOfEpochsToStartReceivingRewards = 1
	env.InitGenesis(params)
	d := &fdrv{env: env, w: w, k: k, spec: map[int64]*consumerSpec{}}
	for i := range d.k.Cons {
		d.spec[d.k.Cons[i].ID] = &d.k.Cons[i]
	}
	d.setup()
	return d
}

// diffStores reports the keys whose value differs between two dumps as model changes + Go-side attributes.
func diffStores(a, b map[string]string) (changes, attrs []common.T) {
	changes, attrs = []common.T{}, []common.T{}
	for _, key := range common.DiffStores(a, b) {
		kb := []byte(key)
		kind := keyKind(kb)
		va, oka := a[key]
		vb, okb := b[key]
		changes = append(changes, common.L(bytesT(kb), idsOfValue(kind, va, oka), idsOfValue(kind, vb, okb)))
		if owner, ok := decodeOwner(kb); ok {
			attrs = append(attrs, common.L(kind, common.L(bytesT(owner))))
		} else {
			attrs = append(attrs, common.L(kind, common.L()))
		}
	}
	return
}

func runFrame(t *testing.T, raw json.RawMessage) (common.T, common.T) {
	var k frameCase
	if err := json.Unmarshal(raw, &k); err != nil {
		panic(err)
	}
	if k.Diff != 0 {
		return runFrameDiff(t, k)
	}
	d := prepare(t, k)
	env := d.env

	total := k.N
	if num(k.Op[0]) == 12 {
		total = k.N + 1
	}
	before := env.DumpStore()
	snapBefore := make([]string, total)
	for c := int64(0); c < total; c++ {
		snapBefore[c] = d.snapshot(c)
	}
	code := d.apply(false)
	changes, attrs := diffStores(before, env.DumpStore())
	semantic := []common.T{}
	for c := int64(0); c < total; c++ {
		if d.snapshot(c) != snapBefore[c] {
			semantic = append(semantic, bytesT([]byte(cid(c))))
		}
	}
	input := common.L(3, common.L(bytesT([]byte(cid(k.C1))), changes))
	obs := common.L(attrs, semantic, code)
	return input, obs
}

// ---------------------------------------------------------------- differential non-interference

func ibcDenom(x int64) string { return "ibc/" + fmt.Sprintf("%064X", x) }

// rewardDenoms: a governance-allowlisted denom, a denom nobody allowlists, the denom each listed consumer may
// allowlist at creation, and the denoms a MsgUpdateConsumer of c1 may allowlist.
func (d *fdrv) rewardDenoms() []string {
	out := []string{"govdenom", "stake"}
	for i := range d.k.Cons {
		out = append(out, ibcDenom(d.k.Cons[i].ID+1))
	}
	return append(out, ibcDenom(1001), ibcDenom(1002))
}

// allocate gives every listed consumer that has (or had) an IBC client a reward allocation in every denom and
// funds the rewards pool generously (a shortage of the shared pool is not what is being tested).
func (d *fdrv) allocate(round int64) {
	ctx, K := d.env.Ctx, d.env.K
	K.SetConsumerRewardDenom(ctx, "govdenom")
	fund := sdk.Coins{}
	for j, denom := range d.rewardDenoms() {
		for i := range d.k.Cons {
			s := &d.k.Cons[i]
			amt := 1000*round + 7*s.ID + int64(j) + 1
			if err := K.SetConsumerRewardsAllocationByDenom(ctx, cid(s.ID), denom,
				providertypes.ConsumerRewardsAllocation{Rewards: sdk.NewDecCoins(sdk.NewDecCoin(denom, math.NewInt(amt)))}); err != nil {
				panic(err)
			}
		}
		fund = fund.Add(sdk.NewCoin(denom, math.NewInt(1_000_000)))
	}
	d.w.Fund(providertypes.ConsumerRewardsPool, fund)
}

// block runs one provider block: BeginBlock, an optional validator power change, EndBlock.
func (d *fdrv) block(dt time.Duration, bump int) int64 {
	code := int64(0)
	note := func(r common.Result) {
		if r.Panic != nil {
			code = 100
		} else if r.Err != nil && code == 0 {
			code = 1
		}
	}
	d.env.NextBlock(dt)
	note(d.env.BeginBlock())
	if bump >= 0 {
		v := d.val(int64(bump))
		v.Tokens = v.Tokens.AddRaw(3 * common.PowerReduction)
		d.w.StakingEndBlock()
	}
	_, r := d.env.EndBlock()
	note(r)
	return code
}

// continuation: what the chain does after the operation, identical in both runs.
func (d *fdrv) continuation() int64 {
	code := int64(0)
	d.allocate(1)
	code += d.block(5*time.Second, 1)  // reward distribution (validators not yet eligible), EndBlock
	code += d.block(5*time.Second, -1) // one of these two EndBlocks closes an epoch
	d.allocate(2)
	code += d.block(unbonding+10*time.Second, 2) // removal of stopped consumers, queued infraction parameters, pruning
	code += d.block(5*time.Second, -1)
	return code
}

// runFrameDiff: the same setup on two independent environments, A with the operation on c1 and B without it,
// then the same continuation on both.  Every key attributed to a consumer other than c1, every time-queue /
// reverse-index entry as far as other consumers are concerned, and the getter-level state of every other
// consumer must be identical in A and B.  Provider-wide keys (slash meter, vsc ids, ...) are not compared.
func runFrameDiff(t *testing.T, k frameCase) (common.T, common.T) {
	a, b := prepare(t, k), prepare(t, k)
	codeA := a.apply(false)
	b.apply(true)
	contA := a.continuation()
	contB := b.continuation()
	changes, attrs := diffStores(b.env.DumpStore(), a.env.DumpStore())
	total := k.N
	if num(k.Op[0]) == 12 {
		total = k.N + 1
	}
	semantic := []common.T{}
	for c := int64(0); c < total; c++ {
		if a.snapshot(c) != b.snapshot(c) {
			semantic = append(semantic, bytesT([]byte(cid(c))))
		}
	}
	input := common.L(5, common.L(bytesT([]byte(cid(k.C1))), changes))
	obs := common.L(attrs, semantic, codeA, contA, contB)
	return input, obs
}
