"""Part "consumer" of property C19: generator / monitor text for harness/c19c (real consumer keeper, module
BeginBlock/EndBlock) and the model Model/ConsumerBlock.v.  Loaded by tools/props/c19.py.

Sweep: random history prefixes (fees, slash requests, VSCMatured packets, acknowledgements, VSC packets incl. several per
block, zero-power removals and unknown keys, blocks with random faults), each closed by one EndBlock executed once per
fault variant: no fault; channel.SendPacket failing at call 0..3; expired client; bank.SendCoinsFromModuleToModule failing
at call 0..2; transfer.Transfer failing at call 0..2; transfer channel closed.  Two fixed witness histories replay the
refuted clauses (bank error in DistributeRewardsInternally; undecodable validator key) on the real keeper."""
import json
from check import Part

S = 10 ** 9
FRACS = ["0.75", "0", "1.0", "0.333333333333333333", "0.5", "0.75"]
VARIANTS = ([("none", -1, 0, -1, -1, 1)] + [("send", i, 0, -1, -1, 1) for i in range(4)] + [("expired", -1, 1, -1, -1, 1)]
            + [("bank", -1, 0, i, -1, 1) for i in range(3)] + [("transfer", -1, 0, -1, i, 1) for i in range(3)]
            + [("tclosed", -1, 0, -1, -1, 0)])


def end_act(rng, dt, fault=None):
    if fault is None:
        x = rng.random()
        if x < 0.70:
            fault = VARIANTS[0]
        elif x < 0.97:
            fault = rng.choice([v for v in VARIANTS if v[0] != "bank"])
        else:
            fault = rng.choice(VARIANTS)
    _, sfail, expired, bfail, tfail, topen = fault
    return [3, dt, sfail, expired, bfail, tfail, topen]


def gen_prefix(rng, nd, badkeys):
    acts, nid, vsc = [], [1], [1]
    n = rng.randint(6, 22)
    for _ in range(n):
        r = rng.random()
        if r < 0.18:
            acts.append([1, rng.randint(1, 4), nid[0], 1 if rng.random() < 0.85 else 0, 1 if rng.random() < 0.3 else 0])
            nid[0] += 1
        elif r < 0.34:
            acts.append([2, nid[0]])
            nid[0] += 1
        elif r < 0.50:
            acts.append([6, [rng.choice([0, 1, 3, 7, 100, 1001, 10 ** 6]) for _ in range(nd)]])
        elif r < 0.68:
            for _ in range(rng.choice([1, 1, 2, 3])):            # several VSC packets per block
                acks = [a for a in range(1, 5) if rng.random() < 0.3] + ([-1] if rng.random() < 0.05 else [])
                ch = [[a, rng.choice([0, 0, 1, 5, 9])] for a in range(1, 8) if rng.random() < 0.35]
                if badkeys and rng.random() < 0.3:
                    ch.append([rng.choice([-1, -2, -3]), rng.choice([0, 4])])
                rng.shuffle(ch)
                acts.append([5, vsc[0], acks, ch])
                vsc[0] += 1
        elif r < 0.80:
            x = rng.random()
            acts.append([4, 1, 2 if x < 0.5 else 3 if x < 0.85 else rng.choice([1, 5, 6])] if rng.random() < 0.85 else [4, 2, rng.choice([1, 5])])
        elif r < 0.84:
            acts.append([7])
        else:
            acts.append(end_act(rng, rng.choice([S, 5 * S, 1, 0, 10 * S, 10 * S + 1])))
    return acts


def gen(rng, tier):
    nprefix = 24 if tier == "quick" else 400
    # witnesses of the refuted clauses, replayed on the real consumer keeper in every run
    yield {"delay_ns": S, "frac": "0.75", "bpdt": 1, "white": [1, 1], "addr_ok": 1, "chan0": 1, "height0": 1, "hist": 2,
           "kind": "witness-bank", "fault": "bank", "acts": [[6, [100, 50]], [3, S, -1, 0, 0, -1, 1], [3, S, -1, 0, 1, -1, 1], [3, S, -1, 0, -1, -1, 1]]}
    yield {"delay_ns": S, "frac": "0.75", "bpdt": 1, "white": [1, 1], "addr_ok": 1, "chan0": 1, "height0": 1, "hist": 2,
           "kind": "witness-badkey", "fault": "badkey", "acts": [[5, 1, [], [[1, 5], [-1, 3]]], [2, 1], [3, S, -1, 0, -1, -1, 1], [3, S, -1, 0, -1, -1, 1]]}
    yield {"delay_ns": S, "frac": "0.75", "bpdt": 1, "white": [1, 1], "addr_ok": 1, "chan0": 1, "height0": 1, "hist": 2,
           "kind": "witness-shortkey", "fault": "badkey", "acts": [[5, 1, [], [[-2, 3]]], [3, S, -1, 0, -1, -1, 1]]}
    for i in range(nprefix):
        nd = rng.choice([2, 3])
        cfg = {"delay_ns": rng.choice([0, S, 10 * S]), "frac": rng.choice(FRACS), "bpdt": rng.choice([1, 1, 2, 3, 1000]),
               "white": [1 if rng.random() < 0.7 else 0 for _ in range(nd)], "addr_ok": 1 if rng.random() < 0.88 else 0,
               "chan0": 1 if rng.random() < 0.9 else 0, "height0": rng.choice([1, 1, 5]), "hist": rng.choice([0, 2, 5])}
        badkeys = rng.random() < 0.12
        prefix = gen_prefix(rng, nd, badkeys)
        # make the closing block interesting: something to send and something to transfer
        prefix += [[2, 900], [1, 2, 901, 1, 0], [2, 902], [6, [rng.choice([5, 40, 1000]) for _ in range(nd)]],
                   [5, 500, [], [[rng.randint(1, 7), rng.choice([0, 3])] for _ in range(2)]]]
        for v in VARIANTS:
            c = dict(cfg)
            c["kind"] = v[0]
            c["fault"] = "consumer-" + v[0]
            c["acts"] = json.loads(json.dumps(prefix)) + [end_act(rng, S, v), end_act(rng, S, VARIANTS[0])]
            yield c


def nontrivial(case, inp, obs):
    key = []
    for op, o in zip(inp[2], obs):
        if op[0] == 5 and (op[2] or op[3] or op[4] or not op[5]):
            key.append([op[2], op[3], op[4], op[5], o[0], len(o[1]), len(o[2]), o[7][2], o[7][3]])
    return json.dumps([case.get("kind"), key]) if key else None


CLAUSES = {1: "consumer BeginBlock/EndBlock returned an error or panicked (chain halt) although the bank did not fail and all "
              "received validator keys are decodable",
           2: "a failing or expired send changed the pending packet queue (packet dropped, duplicated or reordered)",
           3: "pending validator-set changes were not applied in EndBlock (or applied wrongly)",
           4: "reward transfer not atomic: a failed / undue transmission moved tokens, a due one moved only a part, or "
              "LastTransmissionBlockHeight not as specified",
           5: "tokens created or destroyed by EndBlock", 6: "a failed block left effects behind",
           99: "observation count differs from the history"}


def describe(codes):
    return "; ".join(CLAUSES.get(c, str(c)) for c in codes)


PART = Part("consumer", "c19c", "consumerblock", gen, nontrivial=nontrivial, describe=describe)
