// Package c19c: correspondence driver for the consumer half of C19 (consumer begin/end-block never fails).
//
// env.go builds the REAL consumer keeper / app module like common.NewConsumerEnv, but with a bank and an ibc-transfer
// stand-in whose state lives in a KV store of the same multistore, so that cached contexts (EndBlockRD's
// SendRewardsToProvider) roll their effects back exactly like the real bank / transfer modules would.
package c19c

import (
	"context"
	"fmt"
	"testing"
	"time"

	dbm "github.com/cosmos/cosmos-db"
	transfertypes "github.com/cosmos/ibc-go/v10/modules/apps/transfer/types"

	"cosmossdk.io/log"
	"cosmossdk.io/math"
	"cosmossdk.io/store"
	"cosmossdk.io/store/metrics"
	storetypes "cosmossdk.io/store/types"

	"github.com/cosmos/cosmos-sdk/codec"
	"github.com/cosmos/cosmos-sdk/codec/address"
	codectypes "github.com/cosmos/cosmos-sdk/codec/types"
	cryptocodec "github.com/cosmos/cosmos-sdk/crypto/codec"
	sdk "github.com/cosmos/cosmos-sdk/types"
	authtypes "github.com/cosmos/cosmos-sdk/x/auth/types"
	govtypes "github.com/cosmos/cosmos-sdk/x/gov/types"
	paramstypes "github.com/cosmos/cosmos-sdk/x/params/types"
	slashingtypes "github.com/cosmos/cosmos-sdk/x/slashing/types"

	tmproto "github.com/cometbft/cometbft/proto/tendermint/types"

	"verifharness/common"

	consumer "github.com/cosmos/interchain-security/v7/x/ccv/consumer"
	consumerkeeper "github.com/cosmos/interchain-security/v7/x/ccv/consumer/keeper"
	ccvtypes "github.com/cosmos/interchain-security/v7/x/ccv/types"
)

// Faults: name -> number of successful calls before one failure (same convention as common.World.Faults).
type Faults struct {
	Remaining map[string]int
	Calls     map[string]int
}

func (f *Faults) fail(name string) error {
	f.Calls[name]++
	if n, ok := f.Remaining[name]; ok {
		if n == 0 {
			delete(f.Remaining, name)
			return fmt.Errorf("injected fault in %s", name)
		}
		f.Remaining[name] = n - 1
	}
	return nil
}

const escrowAcct = "escrow"

// TxBank keeps balances in a KV store: key = account + "/" + denom, value = amount.
type TxBank struct {
	Key *storetypes.KVStoreKey
	F   *Faults
}

func acct(a sdk.AccAddress) string { return a.String() }

func ModAcct(name string) string { return authtypes.NewModuleAddress(name).String() }

func (b TxBank) get(ctx sdk.Context, account, denom string) math.Int {
	bz := ctx.KVStore(b.Key).Get([]byte(account + "/" + denom))
	if bz == nil {
		return math.ZeroInt()
	}
	v, ok := math.NewIntFromString(string(bz))
	if !ok {
		panic("bad balance")
	}
	return v
}

func (b TxBank) set(ctx sdk.Context, account, denom string, v math.Int) {
	ctx.KVStore(b.Key).Set([]byte(account+"/"+denom), []byte(v.String()))
}

// Balance / Mint are used by the driver.
func (b TxBank) Balance(ctx sdk.Context, account, denom string) int64 { return b.get(ctx, account, denom).Int64() }
func (b TxBank) Mint(ctx sdk.Context, account, denom string, amt int64) {
	b.set(ctx, account, denom, b.get(ctx, account, denom).AddRaw(amt))
}

func (b TxBank) GetBalance(goCtx context.Context, a sdk.AccAddress, denom string) sdk.Coin {
	return sdk.NewCoin(denom, b.get(sdk.UnwrapSDKContext(goCtx), acct(a), denom))
}

func (b TxBank) GetAllBalances(goCtx context.Context, a sdk.AccAddress) sdk.Coins {
	ctx := sdk.UnwrapSDKContext(goCtx)
	prefix := []byte(acct(a) + "/")
	it := storetypes.KVStorePrefixIterator(ctx.KVStore(b.Key), prefix)
	defer it.Close()
	coins := sdk.NewCoins()
	for ; it.Valid(); it.Next() {
		v, _ := math.NewIntFromString(string(it.Value()))
		if v.IsPositive() {
			coins = coins.Add(sdk.NewCoin(string(it.Key()[len(prefix):]), v))
		}
	}
	return coins
}

func (b TxBank) move(ctx sdk.Context, from, to string, amt sdk.Coins) error {
	for _, c := range amt {
		if b.get(ctx, from, c.Denom).LT(c.Amount) {
			return fmt.Errorf("insufficient funds")
		}
	}
	for _, c := range amt {
		b.set(ctx, from, c.Denom, b.get(ctx, from, c.Denom).Sub(c.Amount))
		b.set(ctx, to, c.Denom, b.get(ctx, to, c.Denom).Add(c.Amount))
	}
	return nil
}

func (b TxBank) SendCoinsFromModuleToModule(goCtx context.Context, from, to string, amt sdk.Coins) error {
	if err := b.F.fail("bank.SendCoinsFromModuleToModule"); err != nil {
		return err
	}
	return b.move(sdk.UnwrapSDKContext(goCtx), ModAcct(from), ModAcct(to), amt)
}

// TxTransfer escrows the token (ibc transfer of a native token) in the same transactional store.
type TxTransfer struct {
	B TxBank
	F *Faults
}

func (t TxTransfer) Transfer(goCtx context.Context, msg *transfertypes.MsgTransfer) (*transfertypes.MsgTransferResponse, error) {
	if err := t.F.fail("transfer.Transfer"); err != nil {
		return nil, err
	}
	if err := t.B.move(sdk.UnwrapSDKContext(goCtx), msg.Sender, escrowAcct, sdk.NewCoins(msg.Token)); err != nil {
		return nil, err
	}
	return &transfertypes.MsgTransferResponse{Sequence: 1}, nil
}

type Env struct {
	W        *common.World
	F        *Faults
	StoreKey *storetypes.KVStoreKey
	Ctx      sdk.Context
	K        *consumerkeeper.Keeper
	Module   consumer.AppModule
	Bank     TxBank
}

func NewEnv(tb testing.TB, w *common.World, chainID string, height int64) *Env {
	tb.Helper()
	storeKey := storetypes.NewKVStoreKey(ccvtypes.StoreKey)
	bankKey := storetypes.NewKVStoreKey("fakebank")
	memStoreKey := storetypes.NewMemoryStoreKey(ccvtypes.MemStoreKey)
	db := dbm.NewMemDB()
	ms := store.NewCommitMultiStore(db, log.NewNopLogger(), metrics.NewNoOpMetrics())
	ms.MountStoreWithDB(storeKey, storetypes.StoreTypeIAVL, db)
	ms.MountStoreWithDB(bankKey, storetypes.StoreTypeIAVL, db)
	ms.MountStoreWithDB(memStoreKey, storetypes.StoreTypeMemory, nil)
	if err := ms.LoadLatestVersion(); err != nil {
		tb.Fatal(err)
	}
	registry := codectypes.NewInterfaceRegistry()
	cryptocodec.RegisterInterfaces(registry)
	cdc := codec.NewProtoCodec(registry)
	subspace := paramstypes.NewSubspace(cdc, codec.NewLegacyAmino(), storeKey, memStoreKey, paramstypes.ModuleName)
	ctx := sdk.NewContext(ms, tmproto.Header{ChainID: chainID, Height: height, Time: common.T0}, false, log.NewNopLogger())
	f := &Faults{Remaining: map[string]int{}, Calls: map[string]int{}}
	bank := TxBank{Key: bankKey, F: f}
	sl := common.FakeSlashing{W: w, ConsumerSigning: map[string]slashingtypes.ValidatorSigningInfo{}, DowntimeJail: 600 * time.Second}
	k := consumerkeeper.NewKeeper(cdc, storeKey,
		common.FakeChannel{W: w}, common.FakeConnection{W: w}, common.FakeClient{W: w}, sl, bank, common.FakeAccount{W: w},
		TxTransfer{B: bank, F: f}, common.FakeIBCCore{W: w},
		authtypes.FeeCollectorName, authtypes.NewModuleAddress(govtypes.ModuleName).String(),
		address.NewBech32Codec("consumervaloper"), address.NewBech32Codec("consumervalcons"))
	e := &Env{W: w, F: f, StoreKey: storeKey, Ctx: ctx, K: &k, Bank: bank}
	e.Module = consumer.NewAppModule(k, subspace)
	return e
}

func (e *Env) NextBlock(dt time.Duration) {
	h := e.Ctx.BlockHeader()
	h.Height++
	h.Time = h.Time.Add(dt)
	e.Ctx = e.Ctx.WithBlockHeader(h).WithEventManager(sdk.NewEventManager())
}
