package c19c

// Driver for the consumer half of C19: histories of slash requests, VSCMatured packets, acknowledgements, VSC packets
// (several per block, zero-power removals, unknown and undecodable keys), fee funding and blocks, executed on the REAL
// consumer keeper / module BeginBlock / EndBlock with a fault injected at a chosen call index of channel.SendPacket,
// bank.SendCoinsFromModuleToModule, transfer.Transfer, an expired client or a closed transfer channel.
//
// case: {"delay_ns","frac","bpdt","white":[0/1..],"addr_ok","chan0","height0","hist","acts":[...]}
//   [1, addr, id, downtime, via]                 queue a slash packet
//   [2, id]                                      append a VSCMatured packet
//   [3, dt_ns, sfail, expired, bfail, tfail, topen]  EndBlock with faults (-1 = none), then next block + BeginBlock
//   [4, kind, res]                               acknowledgement (see harness/c09/consumer_test.go)
//   [5, vscid, [acks], [[addr,power]..]]         VSC packet; addr -1: key without sum type, -2: ed25519 key of 5 bytes
//   [6, [coins]]                                 fees arrive in the fee collector
//   [7]                                          corrupt the historical-info entry the next BeginBlock will prune

import (
	"encoding/json"
	"errors"
	"fmt"
	"sort"
	"testing"
	"time"

	transfertypes "github.com/cosmos/ibc-go/v10/modules/apps/transfer/types"
	clienttypes "github.com/cosmos/ibc-go/v10/modules/core/02-client/types"
	channeltypes "github.com/cosmos/ibc-go/v10/modules/core/04-channel/types"

	"cosmossdk.io/math"

	cryptocodec "github.com/cosmos/cosmos-sdk/crypto/codec"
	sdk "github.com/cosmos/cosmos-sdk/types"
	authtypes "github.com/cosmos/cosmos-sdk/x/auth/types"
	stakingtypes "github.com/cosmos/cosmos-sdk/x/staking/types"

	abci "github.com/cometbft/cometbft/abci/types"
	tmcrypto "github.com/cometbft/cometbft/proto/tendermint/crypto"

	"verifharness/common"

	consumertypes "github.com/cosmos/interchain-security/v7/x/ccv/consumer/types"
	provider "github.com/cosmos/interchain-security/v7/x/ccv/provider"
	ccvtypes "github.com/cosmos/interchain-security/v7/x/ccv/types"
)

type kase struct {
	ID      int64             `json:"id"`
	DelayNs int64             `json:"delay_ns"`
	Frac    string            `json:"frac"`
	Bpdt    int64             `json:"bpdt"`
	White   []int64           `json:"white"`
	AddrOK  int               `json:"addr_ok"`
	Chan0   int               `json:"chan0"`
	Height0 int64             `json:"height0"`
	Hist    int64             `json:"hist"`
	Acts    []json.RawMessage `json:"acts"`
}

const (
	chanID  = "channel-0"
	tchanID = "channel-1"
)

var denoms = []string{"adenom", "bdenom", "cdenom", "ddenom"}

var addrCode = map[string]int64{}

func init() {
	for k := int64(0); k < 40; k++ {
		addrCode[string(common.Key(int(k)).PubKey().Address())] = k
	}
}

func caddr(code int64) []byte { return common.Key(int(code)).PubKey().Address() }

func rel(t time.Time) int64 { return t.UnixNano() - common.T0.UnixNano() }

func descCodes(xs []int64) common.T {
	sort.Slice(xs, func(i, j int) bool { return xs[i] > xs[j] })
	return common.Ints(xs)
}

func pktFields(cp ccvtypes.ConsumerPacketData) (kind, id, addr int64) {
	if cp.Type == ccvtypes.VscMaturedPacket {
		return 2, int64(cp.GetVscMaturedPacketData().ValsetUpdateId), 0
	}
	sp := cp.GetSlashPacketData()
	kind = 3
	if sp.Infraction == stakingtypes.Infraction_INFRACTION_DOWNTIME {
		kind = 1
	}
	code, ok := addrCode[string(sp.Validator.Address)]
	if !ok {
		code = -7
	}
	return kind, int64(sp.ValsetUpdateId), code
}

func optFail(x int64) common.T {
	if x < 0 {
		return common.L()
	}
	return common.L(x)
}

func TestDriver(t *testing.T) {
	common.RunCases(t, func(c common.Case) (common.T, common.T) {
		var k kase
		if err := json.Unmarshal(c.Raw, &k); err != nil {
			panic(err)
		}
		nd := len(k.White)
		w := common.NewWorld(0)
		env := NewEnv(t, w, "consumer-1", k.Height0)
		params := ccvtypes.DefaultParams()
		params.Enabled = true
		params.RetryDelayPeriod = time.Duration(k.DelayNs)
		params.ConsumerRedistributionFraction = k.Frac
		params.BlocksPerDistributionTransmission = k.Bpdt
		params.DistributionTransmissionChannel = tchanID
		params.HistoricalEntries = k.Hist
		params.RewardDenoms = []string{}
		for i, wh := range k.White {
			if wh != 0 {
				params.RewardDenoms = append(params.RewardDenoms, denoms[i])
			}
		}
		if k.AddrOK != 0 {
			params.ProviderFeePoolAddrStr = authtypes.NewModuleAddress("provider-fee-pool").String()
		}
		env.K.SetParams(env.Ctx, params)
		cl := w.AddClient("provider", 10)
		w.Connections["connection-0"] = &common.Connection{ID: "connection-0", ClientID: cl.ID}
		w.Channels[ccvtypes.ConsumerPortID+"/"+chanID] = &common.Channel{Port: ccvtypes.ConsumerPortID, ID: chanID,
			State: channeltypes.OPEN, Ordering: channeltypes.ORDERED, ConnectionID: "connection-0",
			CpPort: ccvtypes.ProviderPortID, CpID: "channel-5", Version: ccvtypes.Version}
		tch := &common.Channel{Port: transfertypes.PortID, ID: tchanID, State: channeltypes.OPEN,
			Ordering: channeltypes.UNORDERED, ConnectionID: "connection-0", CpPort: transfertypes.PortID, CpID: "channel-6"}
		w.Channels[transfertypes.PortID+"/"+tchanID] = tch
		if k.Chan0 != 0 {
			env.K.SetProviderChannel(env.Ctx, chanID)
		}

		accounts := []string{ModAcct(authtypes.FeeCollectorName), ModAcct(consumertypes.ConsumerRedistributeName),
			ModAcct(consumertypes.ConsumerToSendToProviderName), escrowAcct}
		ops := []common.T{}
		obs := []common.T{}
		observe := func(rc int64, sentFrom int) {
			sent := []common.T{}
			for _, s := range w.Sent[sentFrom:] {
				cp, err := provider.UnmarshalConsumerPacketData(s.Data)
				id := int64(-1)
				if err == nil {
					_, id, _ = pktFields(cp)
				}
				sent = append(sent, id)
			}
			queue := []common.T{}
			for _, p := range env.K.GetPendingPackets(env.Ctx) {
				kind, id, addr := pktFields(p)
				queue = append(queue, common.L(kind, id, addr))
			}
			var rec common.T = common.L()
			if r, found := env.K.GetSlashRecord(env.Ctx); found {
				rec = common.L(common.B(r.WaitingOnReply), rel(r.SendTime))
			}
			flags := []int64{}
			for _, od := range env.K.GetAllOutstandingDowntimes(env.Ctx) {
				a, err := sdk.ConsAddressFromBech32(od.ValidatorConsensusAddress)
				code := int64(-7)
				if err == nil {
					if cc, ok := addrCode[string(a)]; ok {
						code = cc
					}
				}
				flags = append(flags, code)
			}
			ccv := []int64{}
			for _, v := range env.K.GetAllCCValidator(env.Ctx) {
				code, ok := addrCode[string(v.Address)]
				if !ok {
					code = -7
				}
				ccv = append(ccv, code)
			}
			_, ch := env.K.GetProviderChannel(env.Ctx)
			bal := []common.T{}
			for _, a := range accounts {
				row := []common.T{}
				for i := 0; i < nd; i++ {
					row = append(row, env.Bank.Balance(env.Ctx, a, denoms[i]))
				}
				bal = append(bal, row)
			}
			h := uint64(env.Ctx.BlockHeight())
			obs = append(obs, common.L(rc, sent, queue, rec, descCodes(flags), descCodes(ccv), common.B(ch), bal,
				env.K.GetLastTransmissionBlockHeight(env.Ctx).Height, int64(h),
				int64(env.K.GetHeightValsetUpdateID(env.Ctx, h)), int64(env.K.GetHeightValsetUpdateID(env.Ctx, h+1))))
		}
		rcOf := func(r common.Result) int64 {
			if r.OK() {
				return 0
			}
			return 1
		}
		histFail := false

		for _, raw := range k.Acts {
			var hd []json.RawMessage
			if err := json.Unmarshal(raw, &hd); err != nil {
				panic(err)
			}
			ints := func(i int) int64 {
				var x int64
				if err := json.Unmarshal(hd[i], &x); err != nil {
					panic(err)
				}
				return x
			}
			n := len(w.Sent)
			switch ints(0) {
			case 1:
				addr, id, dt, via := ints(1), ints(2), ints(3), ints(4)
				infr := stakingtypes.Infraction_INFRACTION_DOUBLE_SIGN
				if dt != 0 {
					infr = stakingtypes.Infraction_INFRACTION_DOWNTIME
				}
				r := common.Tx(env.Ctx, func(ctx sdk.Context) error {
					if via != 0 {
						env.K.SetHeightValsetUpdateID(ctx, uint64(100000+id), uint64(id))
						_, err := env.K.SlashWithInfractionReason(ctx, sdk.ConsAddress(caddr(addr)), 100000+id, 1, math.LegacyNewDecWithPrec(1, 2), infr)
						return err
					}
					env.K.QueueSlashPacket(ctx, abci.Validator{Address: caddr(addr), Power: 1}, uint64(id), infr)
					return nil
				})
				ops = append(ops, common.L(1, common.L(1, addr, id, common.B(dt != 0))))
				observe(rcOf(r), n)
			case 2:
				id := ints(1)
				env.K.AppendPendingPacket(env.Ctx, ccvtypes.VscMaturedPacket, &ccvtypes.ConsumerPacketData_VscMaturedPacketData{
					VscMaturedPacketData: &ccvtypes.VSCMaturedPacketData{ValsetUpdateId: uint64(id)}})
				ops = append(ops, common.L(1, common.L(2, id)))
				observe(0, n)
			case 3:
				dt, sfail, expired, bfail, tfail, topen := ints(1), ints(2), ints(3), ints(4), ints(5), ints(6)
				sf := optFail(sfail)
				if expired != 0 {
					cl.Expired = true
					sf = common.L(0)
				} else if sfail >= 0 {
					w.Faults["channel.SendPacket"] = int(sfail)
				}
				if bfail >= 0 {
					env.F.Remaining["bank.SendCoinsFromModuleToModule"] = int(bfail)
				}
				if tfail >= 0 {
					env.F.Remaining["transfer.Transfer"] = int(tfail)
				}
				tch.State = channeltypes.OPEN
				if topen == 0 {
					tch.State = channeltypes.CLOSED
				}
				now := rel(env.Ctx.BlockTime())
				seq := w.Channels[ccvtypes.ConsumerPortID+"/"+chanID].NextSeq
				r := common.Tx(env.Ctx, func(ctx sdk.Context) error {
					_, err := env.Module.EndBlock(ctx)
					return err
				})
				if !r.OK() {
					// a halted block commits nothing: undo the IBC sends of the fake (non-transactional) channel keeper
					w.Sent = w.Sent[:n]
					w.Channels[ccvtypes.ConsumerPortID+"/"+chanID].NextSeq = seq
				}
				delete(w.Faults, "channel.SendPacket")
				delete(env.F.Remaining, "bank.SendCoinsFromModuleToModule")
				delete(env.F.Remaining, "transfer.Transfer")
				cl.Expired = false
				ops = append(ops, common.L(5, now, sf, optFail(bfail), optFail(tfail), common.B(topen != 0)))
				observe(rcOf(r), n)
				env.NextBlock(time.Duration(dt))
				n = len(w.Sent)
				r = common.Tx(env.Ctx, func(ctx sdk.Context) error { return env.Module.BeginBlock(ctx) })
				ops = append(ops, common.L(4, common.B(histFail)))
				histFail = false
				observe(rcOf(r), n)
			case 4:
				kind, res := ints(1), ints(2)
				var cpd ccvtypes.ConsumerPacketData
				if kind == 2 {
					cpd = ccvtypes.NewConsumerPacketData(ccvtypes.VscMaturedPacket, &ccvtypes.ConsumerPacketData_VscMaturedPacketData{
						VscMaturedPacketData: &ccvtypes.VSCMaturedPacketData{ValsetUpdateId: 77}})
				} else {
					pend := env.K.GetPendingPackets(env.Ctx)
					if len(pend) > 0 && pend[0].Type == ccvtypes.SlashPacket {
						cpd = pend[0]
					} else {
						sd := ccvtypes.NewSlashPacketData(abci.Validator{Address: caddr(1), Power: 1}, 78, stakingtypes.Infraction_INFRACTION_DOWNTIME)
						cpd = ccvtypes.NewConsumerPacketData(ccvtypes.SlashPacket, &ccvtypes.ConsumerPacketData_SlashPacketData{SlashPacketData: sd})
					}
				}
				pkt := channeltypes.NewPacket(cpd.GetBytes(), 1, ccvtypes.ConsumerPortID, chanID, ccvtypes.ProviderPortID, "channel-5",
					clienttypes.NewHeight(1, 100000), 0)
				var ack channeltypes.Acknowledgement
				switch res {
				case 1, 2, 3:
					ack = channeltypes.NewResultAcknowledgement([]byte{byte(res)})
				case 4:
					ack = channeltypes.NewErrorAcknowledgement(fmt.Errorf("provider error"))
				case 5:
					ack = channeltypes.NewResultAcknowledgement([]byte{9})
				default:
					ack = channeltypes.NewResultAcknowledgement([]byte{2, 2})
				}
				r := common.Tx(env.Ctx, func(ctx sdk.Context) error { return env.K.OnAcknowledgementPacket(ctx, pkt, ack) })
				ops = append(ops, common.L(1, common.L(4, kind, res)))
				observe(rcOf(r), n)
			case 5:
				vscid := ints(1)
				var acks []int64
				var changes [][]int64
				if err := json.Unmarshal(hd[2], &acks); err != nil {
					panic(err)
				}
				if err := json.Unmarshal(hd[3], &changes); err != nil {
					panic(err)
				}
				d := ccvtypes.ValidatorSetChangePacketData{ValidatorUpdates: []abci.ValidatorUpdate{}, ValsetUpdateId: uint64(vscid)}
				for _, a := range acks {
					if a < 0 {
						d.SlashAcks = append(d.SlashAcks, "not-a-bech32-address")
					} else {
						d.SlashAcks = append(d.SlashAcks, sdk.ConsAddress(caddr(a)).String())
					}
				}
				chT := []common.T{}
				for _, ch := range changes {
					var pk tmcrypto.PublicKey
					switch {
					case ch[0] == -1:
						pk = tmcrypto.PublicKey{}
					case ch[0] < -1:
						pk = tmcrypto.PublicKey{Sum: &tmcrypto.PublicKey_Ed25519{Ed25519: []byte{1, 2, 3, 4, byte(-ch[0])}}}
					default:
						var err error
						pk, err = cryptocodec.ToCmtProtoPublicKey(common.Key(int(ch[0])).PubKey())
						if err != nil {
							panic(err)
						}
					}
					d.ValidatorUpdates = append(d.ValidatorUpdates, abci.ValidatorUpdate{PubKey: pk, Power: ch[1]})
					chT = append(chT, common.L(ch[0], ch[1]))
				}
				// the packet data travels as JSON; decode it like the IBC module does
				var recv ccvtypes.ValidatorSetChangePacketData
				if err := ccvtypes.ModuleCdc.UnmarshalJSON(d.GetBytes(), &recv); err != nil {
					panic(err)
				}
				if recv.ValidatorUpdates == nil {
					recv.ValidatorUpdates = []abci.ValidatorUpdate{}
				}
				pkt := channeltypes.NewPacket(d.GetBytes(), 1, ccvtypes.ProviderPortID, "channel-5", ccvtypes.ConsumerPortID, chanID,
					clienttypes.NewHeight(1, 100000), 0)
				r := common.Tx(env.Ctx, func(ctx sdk.Context) error { return env.K.OnRecvVSCPacket(ctx, pkt, recv) })
				ops = append(ops, common.L(2, vscid, common.Ints(acks), chT))
				observe(rcOf(r), n)
			case 6:
				var coins []int64
				if err := json.Unmarshal(hd[1], &coins); err != nil {
					panic(err)
				}
				for i, a := range coins {
					if i < nd {
						env.Bank.Mint(env.Ctx, accounts[0], denoms[i], a)
					}
				}
				ops = append(ops, common.L(3, common.Ints(coins[:nd])))
				observe(0, n)
			case 7:
				h := env.Ctx.BlockHeight() + 1 - k.Hist
				if k.Hist > 0 && h >= 0 {
					env.Ctx.KVStore(env.StoreKey).Set(consumertypes.HistoricalInfoKey(h), []byte{0xff, 0xff, 0xff})
					if _, err := env.K.GetHistoricalInfo(env.Ctx, h); err != nil && !errors.Is(err, stakingtypes.ErrNoHistoricalInfo) {
						histFail = true
					}
				}
			}
		}
		white := make([]common.T, nd)
		for i, x := range k.White {
			white[i] = x
		}
		fracDec := math.LegacyMustNewDecFromStr(k.Frac).BigInt().Int64()
		return common.L(common.L(k.DelayNs, fracDec, k.Bpdt, white, k.AddrOK), common.L(int64(nd), k.Chan0, k.Height0), ops), obs
	})
}
