package c09

// Correspondence driver for the consumer half of C09 (and the "outstanding downtime" clause of C08):
// REAL consumer keeper and module EndBlock (SendPackets, pending validator changes), QueueSlashPacket /
// SlashWithInfractionReason, OnAcknowledgementPacket, OnRecvVSCPacket, over the fake World (IBC channel with
// injectable send errors, expired client).
//
// case: {"delay_ns":..., "chan0":0|1, "acts":[...]}
//   [1, addr, id, downtime, via]  queue a slash packet (via 1: through SlashWithInfractionReason + height map)
//   [2, id]                       append a VSCMatured packet
//   [3, dt_ns, fail, expired]     EndBlock (fail >= 0: the (fail+1)-th SendPacket fails; expired: client expired), next block
//   [4, kind, res]                acknowledgement for a slash (kind 1) / vsc-matured (kind 2) packet:
//                                 res 1 v1, 2 handled, 3 bounced, 4 error ack, 5 unknown result byte, 6 two-byte result
//   [5, [acks], [[addr,power]..]] VSC packet with slash acks (address codes, -1 = unparsable string) and validator updates

import (
	"encoding/json"
	"fmt"
	"sort"
	"testing"
	"time"

	clienttypes "github.com/cosmos/ibc-go/v10/modules/core/02-client/types"
	channeltypes "github.com/cosmos/ibc-go/v10/modules/core/04-channel/types"

	"cosmossdk.io/math"

	cryptocodec "github.com/cosmos/cosmos-sdk/crypto/codec"
	sdk "github.com/cosmos/cosmos-sdk/types"
	stakingtypes "github.com/cosmos/cosmos-sdk/x/staking/types"

	abci "github.com/cometbft/cometbft/abci/types"

	"verifharness/common"

	provider "github.com/cosmos/interchain-security/v7/x/ccv/provider"
	ccvtypes "github.com/cosmos/interchain-security/v7/x/ccv/types"
)

type ckase struct {
	ID      int64             `json:"id"`
	DelayNs int64             `json:"delay_ns"`
	Chan0   int               `json:"chan0"`
	Acts    []json.RawMessage `json:"acts"`
}

const chanID = "channel-0"

var addrCode = map[string]int64{}

func init() {
	for k := int64(0); k < 40; k++ {
		addrCode[string(common.Key(int(k)).PubKey().Address())] = k
	}
}

func caddr(code int64) []byte { return common.Key(int(code)).PubKey().Address() }

func rel(t time.Time) int64 { return t.UnixNano() - common.T0.UnixNano() }

func descCodes(xs []int64) common.T {
	sort.Slice(xs, func(i, j int) bool { return xs[i] > xs[j] })
	return common.Ints(xs)
}

func decodeSent(data []byte) (kind, id, addr int64) {
	cp, err := provider.UnmarshalConsumerPacketData(data)
	if err != nil {
		return -1, -1, -1
	}
	return pktFields(cp)
}

func pktFields(cp ccvtypes.ConsumerPacketData) (kind, id, addr int64) {
	if cp.Type == ccvtypes.VscMaturedPacket {
		return 2, int64(cp.GetVscMaturedPacketData().ValsetUpdateId), 0
	}
	sp := cp.GetSlashPacketData()
	kind = 3
	if sp.Infraction == stakingtypes.Infraction_INFRACTION_DOWNTIME {
		kind = 1
	}
	code, ok := addrCode[string(sp.Validator.Address)]
	if !ok {
		code = -7
	}
	return kind, int64(sp.ValsetUpdateId), code
}

func TestConsumer(t *testing.T) {
	common.RunCases(t, func(c common.Case) (common.T, common.T) {
		var k ckase
		if err := json.Unmarshal(c.Raw, &k); err != nil {
			panic(err)
		}
		w := common.NewWorld(0)
		env := common.NewConsumerEnv(t, w, "consumer-1")
		params := ccvtypes.DefaultParams()
		params.Enabled = true
		params.RetryDelayPeriod = time.Duration(k.DelayNs)
		env.K.SetParams(env.Ctx, params)
		cl := w.AddClient("provider", 10)
		w.Connections["connection-0"] = &common.Connection{ID: "connection-0", ClientID: cl.ID}
		w.Channels[ccvtypes.ConsumerPortID+"/"+chanID] = &common.Channel{Port: ccvtypes.ConsumerPortID, ID: chanID,
			State: channeltypes.OPEN, Ordering: channeltypes.ORDERED, ConnectionID: "connection-0",
			CpPort: ccvtypes.ProviderPortID, CpID: "channel-5", Version: ccvtypes.Version}
		if k.Chan0 != 0 {
			env.K.SetProviderChannel(env.Ctx, chanID)
		}

		ops := []common.T{}
		obs := []common.T{}
		observe := func(rc int64, sentFrom int) {
			sent := []common.T{}
			for _, s := range w.Sent[sentFrom:] {
				_, id, _ := decodeSent(s.Data)
				sent = append(sent, id)
			}
			queue := []common.T{}
			for _, p := range env.K.GetPendingPackets(env.Ctx) {
				kind, id, addr := pktFields(p)
				queue = append(queue, common.L(kind, id, addr))
			}
			var rec common.T = common.L()
			if r, found := env.K.GetSlashRecord(env.Ctx); found {
				rec = common.L(common.B(r.WaitingOnReply), rel(r.SendTime))
			}
			flags := []int64{}
			for _, od := range env.K.GetAllOutstandingDowntimes(env.Ctx) {
				a, err := sdk.ConsAddressFromBech32(od.ValidatorConsensusAddress)
				code := int64(-7)
				if err == nil {
					if cc, ok := addrCode[string(a)]; ok {
						code = cc
					}
				}
				flags = append(flags, code)
			}
			ccv := []int64{}
			for _, v := range env.K.GetAllCCValidator(env.Ctx) {
				code, ok := addrCode[string(v.Address)]
				if !ok {
					code = -7
				}
				ccv = append(ccv, code)
			}
			_, ch := env.K.GetProviderChannel(env.Ctx)
			obs = append(obs, common.L(rc, sent, queue, rec, descCodes(flags), descCodes(ccv), common.B(ch)))
		}
		rcOf := func(r common.Result) int64 {
			if r.OK() {
				return 0
			}
			return 1
		}

		for _, raw := range k.Acts {
			var hd []json.RawMessage
			if err := json.Unmarshal(raw, &hd); err != nil {
				panic(err)
			}
			ints := func(i int) int64 {
				var x int64
				if err := json.Unmarshal(hd[i], &x); err != nil {
					panic(err)
				}
				return x
			}
			n := len(w.Sent)
			switch ints(0) {
			case 1:
				addr, id, dt, via := ints(1), ints(2), ints(3), ints(4)
				infr := stakingtypes.Infraction_INFRACTION_DOUBLE_SIGN
				if dt != 0 {
					infr = stakingtypes.Infraction_INFRACTION_DOWNTIME
				}
				r := common.Tx(env.Ctx, func(ctx sdk.Context) error {
					if via != 0 {
						env.K.SetHeightValsetUpdateID(ctx, uint64(100000+id), uint64(id))
						_, err := env.K.SlashWithInfractionReason(ctx, sdk.ConsAddress(caddr(addr)), 100000+id, 1, math.LegacyNewDecWithPrec(1, 2), infr)
						return err
					}
					env.K.QueueSlashPacket(ctx, abci.Validator{Address: caddr(addr), Power: 1}, uint64(id), infr)
					return nil
				})
				ops = append(ops, common.L(1, addr, id, common.B(dt != 0)))
				observe(rcOf(r), n)
			case 2:
				id := ints(1)
				env.K.AppendPendingPacket(env.Ctx, ccvtypes.VscMaturedPacket, &ccvtypes.ConsumerPacketData_VscMaturedPacketData{
					VscMaturedPacketData: &ccvtypes.VSCMaturedPacketData{ValsetUpdateId: uint64(id)}})
				ops = append(ops, common.L(2, id))
				observe(0, n)
			case 3:
				dt, fail, expired := ints(1), ints(2), ints(3)
				var f common.T = common.L()
				if expired != 0 {
					cl.Expired = true
					f = common.L(0)
				} else if fail >= 0 {
					w.Faults["channel.SendPacket"] = int(fail)
					f = common.L(fail)
				}
				now := rel(env.Ctx.BlockTime())
				_, r := env.EndBlock()
				if !r.OK() {
					panic("consumer EndBlock failed: " + r.String())
				}
				delete(w.Faults, "channel.SendPacket")
				cl.Expired = false
				ops = append(ops, common.L(3, now, f))
				observe(0, n)
				env.NextBlock(time.Duration(dt))
				if r := env.BeginBlock(); !r.OK() {
					panic("consumer BeginBlock failed: " + r.String())
				}
			case 4:
				kind, res := ints(1), ints(2)
				var cpd ccvtypes.ConsumerPacketData
				if kind == 2 {
					cpd = ccvtypes.NewConsumerPacketData(ccvtypes.VscMaturedPacket, &ccvtypes.ConsumerPacketData_VscMaturedPacketData{
						VscMaturedPacketData: &ccvtypes.VSCMaturedPacketData{ValsetUpdateId: 77}})
				} else {
					pend := env.K.GetPendingPackets(env.Ctx)
					if len(pend) > 0 && pend[0].Type == ccvtypes.SlashPacket {
						cpd = pend[0]
					} else {
						sd := ccvtypes.NewSlashPacketData(abci.Validator{Address: caddr(1), Power: 1}, 78, stakingtypes.Infraction_INFRACTION_DOWNTIME)
						cpd = ccvtypes.NewConsumerPacketData(ccvtypes.SlashPacket, &ccvtypes.ConsumerPacketData_SlashPacketData{SlashPacketData: sd})
					}
				}
				pkt := channeltypes.NewPacket(cpd.GetBytes(), 1, ccvtypes.ConsumerPortID, chanID, ccvtypes.ProviderPortID, "channel-5",
					clienttypes.NewHeight(1, 100000), 0)
				var ack channeltypes.Acknowledgement
				switch res {
				case 1, 2, 3:
					ack = channeltypes.NewResultAcknowledgement([]byte{byte(res)})
				case 4:
					ack = channeltypes.NewErrorAcknowledgement(fmt.Errorf("provider error"))
				case 5:
					ack = channeltypes.NewResultAcknowledgement([]byte{9})
				default:
					ack = channeltypes.NewResultAcknowledgement([]byte{2, 2})
				}
				r := common.Tx(env.Ctx, func(ctx sdk.Context) error { return env.K.OnAcknowledgementPacket(ctx, pkt, ack) })
				ops = append(ops, common.L(4, kind, res))
				observe(rcOf(r), n)
			case 5:
				var acks []int64
				var changes [][]int64
				if err := json.Unmarshal(hd[1], &acks); err != nil {
					panic(err)
				}
				if err := json.Unmarshal(hd[2], &changes); err != nil {
					panic(err)
				}
				d := ccvtypes.ValidatorSetChangePacketData{ValidatorUpdates: []abci.ValidatorUpdate{}, ValsetUpdateId: 5}
				for _, a := range acks {
					if a < 0 {
						d.SlashAcks = append(d.SlashAcks, "not-a-bech32-address")
					} else {
						d.SlashAcks = append(d.SlashAcks, sdk.ConsAddress(caddr(a)).String())
					}
				}
				chT := []common.T{}
				for _, ch := range changes {
					pk, err := cryptocodec.ToCmtProtoPublicKey(common.Key(int(ch[0])).PubKey())
					if err != nil {
						panic(err)
					}
					d.ValidatorUpdates = append(d.ValidatorUpdates, abci.ValidatorUpdate{PubKey: pk, Power: ch[1]})
					chT = append(chT, common.L(ch[0], ch[1]))
				}
				pkt := channeltypes.NewPacket(d.GetBytes(), 1, ccvtypes.ProviderPortID, "channel-5", ccvtypes.ConsumerPortID, chanID,
					clienttypes.NewHeight(1, 100000), 0)
				r := common.Tx(env.Ctx, func(ctx sdk.Context) error { return env.K.OnRecvVSCPacket(ctx, pkt, d) })
				ops = append(ops, common.L(5, common.Ints(acks), chT))
				observe(rcOf(r), n)
			}
		}
		return common.L(2, common.L(k.DelayNs, k.Chan0), ops), obs
	})
}
