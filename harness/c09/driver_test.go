package c09

// Correspondence driver for C09 (provider half): the same history interpreter as C08 (real provider
// keeper, BeginBlockCIS, OnRecvPacket), projected on the slash meter.

import (
	"testing"

	"verifharness/c08"
	"verifharness/common"
)

func TestDriver(t *testing.T) {
	common.RunCases(t, func(c common.Case) (common.T, common.T) {
		out := c08.Run(t, c.Raw)
		return out.ThrIn, out.ThrObs
	})
}
