package c02

// Correspondence driver for C02 (only eligible bonded provider validators secure a consumer, at provider power).
// A case is a history over the REAL provider keeper / message server / module Begin- and EndBlock on the fake
// World: validators with chosen tokens, staking MaxValidators, MaxProviderConsensusValidators (M), 1-3 consumers
// configured through MsgCreateConsumer / MsgUpdateConsumer, opt-ins / opt-outs / key assignments by messages,
// launches at BeginBlock and epochs at EndBlock (BlocksPerEpoch = 1).  At every launch block and epoch the
// driver records the staking oracle (GetBondedValidatorsByPower order, tokens, last power, provider key) and the
// real ComputeMinPowerInTopN value into the model's input, and observes GetConsumerValSet, the opt-in index, the
// phase of every consumer and GetLastProviderConsensusValSet.

import (
	"encoding/base64"
	"encoding/json"
	"fmt"
	"math/big"
	"sort"
	"strconv"
	"testing"

	"cosmossdk.io/math"

	sdk "github.com/cosmos/cosmos-sdk/types"
	stakingtypes "github.com/cosmos/cosmos-sdk/x/staking/types"

	"verifharness/common"

	providertypes "github.com/cosmos/interchain-security/v7/x/ccv/provider/types"
	ccvtypes "github.com/cosmos/interchain-security/v7/x/ccv/types"
)

type kase struct {
	Tokens    []*big.Int          `json:"tokens"` // math.Int amounts: may exceed 2^63
	MaxVals   uint32              `json:"max_vals"`
	M         int64               `json:"M"`
	Consumers [][]json.RawMessage `json:"consumers"` // initial power-shaping settings (top_n is 0 at creation)
	Ops       [][]json.RawMessage `json:"ops"`
}

type cfg struct {
	topN, setCap, powerCap int64
	minStake               *big.Int // uint64 in the message: values up to 2^64-1
	allowInactive                    bool
	allow, deny, prio                []int64
}

type drv struct {
	t    *testing.T
	w    *common.World
	env  *common.ProviderEnv
	cfgs []cfg
	keys map[string]int64 // consensus address of a public key -> key id
}

func num(raw json.RawMessage) int64 {
	var x int64
	if err := json.Unmarshal(raw, &x); err != nil {
		panic(err)
	}
	return x
}

func bigOf(raw json.RawMessage) *big.Int {
	x := new(big.Int)
	if err := json.Unmarshal(raw, x); err != nil {
		panic(err)
	}
	return x
}

func ints(raw json.RawMessage) []int64 {
	var l []int64
	if err := json.Unmarshal(raw, &l); err != nil {
		panic(err)
	}
	return l
}

func cid(c int64) string { return strconv.FormatInt(c, 10) }

const consumerKeyBase = 2000

func keyJSON(id int64) string {
	return fmt.Sprintf(`{"@type":"/cosmos.crypto.ed25519.PubKey","key":"%s"}`,
		base64.StdEncoding.EncodeToString(common.Key(int(id)).PubKey().Bytes()))
}

// consensus address (bech32) of validator id; ids beyond the world are well-formed unknown addresses
func (d *drv) consAddrStr(id int64) string {
	if id >= 0 && int(id) < len(d.w.Vals) {
		return d.w.Vals[id].ConsAddr().String()
	}
	return sdk.ConsAddress(common.Key(5000 + int(id)).PubKey().Address()).String()
}

func parseCfg(a []json.RawMessage) cfg {
	return cfg{topN: num(a[0]), setCap: num(a[1]), powerCap: num(a[2]), minStake: bigOf(a[3]), allowInactive: num(a[4]) != 0,
		allow: ints(a[5]), deny: ints(a[6]), prio: ints(a[7])}
}

func (d *drv) shaping(g cfg) *providertypes.PowerShapingParameters {
	ps := &providertypes.PowerShapingParameters{Top_N: uint32(g.topN), ValidatorSetCap: uint32(g.setCap),
		ValidatorsPowerCap: uint32(g.powerCap), MinStake: g.minStake.Uint64(), AllowInactiveVals: g.allowInactive}
	for _, id := range g.allow {
		ps.Allowlist = append(ps.Allowlist, d.consAddrStr(id))
	}
	for _, id := range g.deny {
		ps.Denylist = append(ps.Denylist, d.consAddrStr(id))
	}
	for _, id := range g.prio {
		ps.Prioritylist = append(ps.Prioritylist, d.consAddrStr(id))
	}
	return ps
}

func cfgTree(op int64, c int64, g cfg) common.T {
	return common.L(op, c, g.topN, g.setCap, g.powerCap, g.minStake, common.B(g.allowInactive),
		common.Ints(g.allow), common.Ints(g.deny), common.Ints(g.prio))
}

func (d *drv) idxOfOper(operator string) int64 {
	a, err := sdk.ValAddressFromBech32(operator)
	if err != nil {
		panic(err)
	}
	return int64(d.w.ValByOper(a).Idx)
}

// the staking oracle: GetBondedValidatorsByPower with tokens, last power and provider key, plus
// MaxValidators and M; the second result is the driver's independent check of the oracle hypothesis
func (d *drv) oracle() (common.T, []stakingtypes.Validator, int64) {
	vals, err := common.FakeStaking{W: d.w}.GetBondedValidatorsByPower(d.env.Ctx)
	if err != nil {
		panic(err)
	}
	hyp := int64(1)
	out := make([]common.T, len(vals))
	var prev *common.Val
	for i, sv := range vals {
		v := d.w.Vals[d.idxOfOper(sv.GetOperator())]
		out[i] = common.L(int64(v.Idx), v.Tokens.BigInt(), v.LastPower, int64(1000+v.Idx), common.B(v.Jailed))
		if v.Jailed || v.Status != stakingtypes.Bonded || v.Removed || v.Power() <= 0 || !sv.GetBondedTokens().Equal(v.Tokens) {
			hyp = 0
		}
		if prev != nil && (prev.Power() < v.Power() || (prev.Power() == v.Power() && string(prev.Oper) >= string(v.Oper))) {
			hyp = 0
		}
		prev = v
	}
	return common.L(out, int64(d.w.MaxVals), d.env.K.GetMaxProviderConsensusValidators(d.env.Ctx)), vals, hyp
}

// the real ComputeMinPowerInTopN on the provider's active validators (0 for opt-in consumers)
func (d *drv) minPower(c int64) int64 {
	g := d.cfgs[c]
	if g.topN <= 0 {
		return 0
	}
	active, err := d.env.K.GetLastProviderConsensusActiveValidators(d.env.Ctx)
	if err != nil {
		panic(err)
	}
	m, err := d.env.K.ComputeMinPowerInTopN(d.env.Ctx, active, uint32(g.topN))
	if err != nil {
		return 0
	}
	return m
}

func (d *drv) observe(withProviderSet bool, hyp int64) common.T {
	k, ctx := d.env.K, d.env.Ctx
	var prov common.T = common.L()
	if withProviderSet {
		vs, err := k.GetLastProviderConsensusValSet(ctx)
		if err != nil {
			panic(err)
		}
		ids := []int64{}
		for _, cv := range vs {
			v := d.w.ValByCons(sdk.ConsAddress(cv.ProviderConsAddr))
			if v == nil {
				ids = append(ids, -1)
				continue
			}
			ids = append(ids, int64(v.Idx))
		}
		sort.Slice(ids, func(i, j int) bool { return ids[i] < ids[j] })
		prov = common.Ints(ids)
	}
	per := make([]common.T, len(d.cfgs))
	for c := range d.cfgs {
		id := cid(int64(c))
		launched := k.GetConsumerPhase(ctx, id) == providertypes.CONSUMER_PHASE_LAUNCHED
		vs, err := k.GetConsumerValSet(ctx, id)
		if err != nil {
			panic(err)
		}
		type ent struct{ id, key, pow, h int64 }
		ents := []ent{}
		for _, cv := range vs {
			e := ent{id: -1, key: -1, pow: cv.Power, h: cv.JoinHeight}
			if v := d.w.ValByCons(sdk.ConsAddress(cv.ProviderConsAddr)); v != nil {
				e.id = int64(v.Idx)
			}
			if cv.PublicKey != nil {
				a, err := ccvtypes.TMCryptoPublicKeyToConsAddr(*cv.PublicKey)
				if err != nil {
					panic(err)
				}
				if kid, ok := d.keys[string(a)]; ok {
					e.key = kid
				}
			}
			ents = append(ents, e)
		}
		sort.SliceStable(ents, func(i, j int) bool { return ents[i].id < ents[j].id })
		set := make([]common.T, len(ents))
		for i, e := range ents {
			set[i] = common.L(e.id, e.key, e.pow, e.h)
		}
		opted := []int64{}
		for _, v := range d.w.Vals {
			if k.IsOptedIn(ctx, id, providertypes.NewProviderConsAddress(v.ConsAddr())) {
				opted = append(opted, int64(v.Idx))
			}
		}
		per[c] = common.L(common.B(launched), set, common.Ints(opted))
	}
	return common.L(prov, per, hyp)
}

func (d *drv) someBonded() bool {
	vals, err := common.FakeStaking{W: d.w}.GetBondedValidatorsByPower(d.env.Ctx)
	return err == nil && len(vals) > 0
}

func TestDriver(t *testing.T) {
	common.RunCases(t, func(c common.Case) (common.T, common.T) {
		var k kase
		if err := json.Unmarshal(c.Raw, &k); err != nil {
			panic(err)
		}
		return runHistory(t, k)
	})
}

func runHistory(t *testing.T, k kase) (common.T, common.T) {
	w := common.NewWorld(0)
	for _, tk := range k.Tokens {
		w.AddVal(0).Tokens = math.NewIntFromBigInt(tk)
	}
	if k.MaxVals > 0 {
		w.MaxVals = k.MaxVals
	}
	w.StakingEndBlock()
	env := common.NewProviderEnv(t, w)
	params := providertypes.DefaultParams()
	params.BlocksPerEpoch = 1
	params.MaxProviderConsensusValidators = k.M
	env.InitGenesis(params)
	d := &drv{t: t, w: w, env: env, keys: map[string]int64{}}
	for i := range w.Vals {
		d.keys[string(common.Key(1000+i).PubKey().Address())] = int64(1000 + i)
	}
	for i := 0; i < 40; i++ {
		d.keys[string(common.Key(consumerKeyBase+i).PubKey().Address())] = int64(consumerKeyBase + i)
	}

	input, obs := []common.T{}, []common.T{}
	for i, raw := range k.Consumers {
		g := parseCfg(raw)
		g.topN = 0 // MsgCreateConsumer cannot create a Top-N chain
		res := env.Deliver(&providertypes.MsgCreateConsumer{
			Submitter:              env.Authority,
			ChainId:                fmt.Sprintf("c02chain%d-1", i),
			Metadata:               providertypes.ConsumerMetadata{Name: "c02", Description: "c02", Metadata: "c02"},
			PowerShapingParameters: d.shaping(g),
		})
		if !res.OK() {
			panic("create consumer: " + res.String())
		}
		d.cfgs = append(d.cfgs, g)
		input = append(input, cfgTree(0, int64(i), g))
	}
	nc := int64(len(d.cfgs))

	for _, o := range k.Ops {
		switch num(o[0]) {
		case 10: // MsgUpdateConsumer with power-shaping parameters
			c := num(o[1])
			g := parseCfg(o[2:])
			r := env.Deliver(&providertypes.MsgUpdateConsumer{Owner: env.Authority, ConsumerId: cid(c), PowerShapingParameters: d.shaping(g)})
			if r.OK() && c < nc {
				d.cfgs[c] = g
				input = append(input, cfgTree(0, c, g))
			}
		case 11: // MsgOptIn (optionally with a consumer key)
			c, v, key := num(o[1]), num(o[2]), num(o[3])
			if int(v) >= len(w.Vals) {
				continue
			}
			val := w.Vals[v]
			msg := &providertypes.MsgOptIn{ConsumerId: cid(c), ProviderAddr: val.Oper.String(), Signer: sdk.AccAddress(val.Oper).String()}
			if key != 0 {
				msg.ConsumerKey = keyJSON(key)
			}
			if r := env.Deliver(msg); r.OK() && c < nc {
				input = append(input, common.L(1, c, v))
				if key != 0 {
					input = append(input, common.L(3, c, v, key))
				}
			}
		case 12: // MsgOptOut
			c, v := num(o[1]), num(o[2])
			if int(v) >= len(w.Vals) {
				continue
			}
			val := w.Vals[v]
			msg := &providertypes.MsgOptOut{ConsumerId: cid(c), ProviderAddr: val.Oper.String(), Signer: sdk.AccAddress(val.Oper).String()}
			if r := env.Deliver(msg); r.OK() && c < nc {
				input = append(input, common.L(2, c, v))
			}
		case 13: // MsgAssignConsumerKey
			c, v, key := num(o[1]), num(o[2]), num(o[3])
			if int(v) >= len(w.Vals) {
				continue
			}
			val := w.Vals[v]
			msg := &providertypes.MsgAssignConsumerKey{ConsumerId: cid(c), ProviderAddr: val.Oper.String(),
				ConsumerKey: keyJSON(key), Signer: sdk.AccAddress(val.Oper).String()}
			if r := env.Deliver(msg); r.OK() && c < nc {
				input = append(input, common.L(3, c, v, key))
			}
		case 14: // launch: spawn time = now for the listed consumers, the next block's BeginBlock launches them
			due := []common.T{}
			var dueIDs []int64
			for _, c := range ints(o[1]) {
				if c >= nc {
					continue
				}
				dup := false
				for _, x := range dueIDs {
					dup = dup || x == c
				}
				if dup {
					continue
				}
				ip := providertypes.DefaultConsumerInitializationParameters()
				ip.SpawnTime = env.Ctx.BlockTime()
				r := env.Deliver(&providertypes.MsgUpdateConsumer{Owner: env.Authority, ConsumerId: cid(c), InitializationParameters: &ip})
				if r.OK() && env.K.GetConsumerPhase(env.Ctx, cid(c)) == providertypes.CONSUMER_PHASE_INITIALIZED {
					dueIDs = append(dueIDs, c)
				}
			}
			env.NextBlock(6e9)
			or, _, hyp := d.oracle()
			for _, c := range dueIDs {
				due = append(due, common.L(c, d.minPower(c)))
			}
			input = append(input, common.L(4, env.Ctx.BlockHeight(), or, due))
			if br := env.BeginBlock(); !br.OK() {
				obs = append(obs, common.L(-8))
				continue
			}
			obs = append(obs, d.observe(false, hyp))
		case 15: // epoch: EndBlock of the current block, then the next block begins
			or, _, hyp := d.oracle()
			mps := make([]common.T, nc)
			for c := int64(0); c < nc; c++ {
				mps[c] = d.minPower(c)
			}
			input = append(input, common.L(5, env.Ctx.BlockHeight(), or, mps))
			if _, r := env.EndBlock(); !r.OK() {
				obs = append(obs, common.L(-3))
			} else {
				obs = append(obs, d.observe(true, hyp))
			}
			env.NextBlock(6e9)
			if br := env.BeginBlock(); !br.OK() {
				panic("begin block: " + br.String())
			}
		case 20: // staking: tokens of validator v (refused if no bonded validator would be left: the chain would have halted)
			v := w.Vals[num(o[1])]
			old := v.Tokens
			v.Tokens = math.NewIntFromBigInt(bigOf(o[2]))
			if !d.someBonded() {
				v.Tokens = old
			}
		case 21: // staking: jail / unjail (takes the validator out of the power index at once)
			v := w.Vals[num(o[1])]
			old := v.Jailed
			v.Jailed = num(o[2]) != 0
			if !d.someBonded() {
				v.Jailed = old
			}
		case 22: // staking EndBlock: bonded set and last powers follow the power index
			w.StakingEndBlock()
		case 23: // staking MaxValidators
			w.MaxVals = uint32(num(o[1]))
		case 24: // MsgUpdateParams from the authority: MaxProviderConsensusValidators
			p := env.K.GetParams(env.Ctx)
			p.MaxProviderConsensusValidators = num(o[1])
			env.Deliver(&providertypes.MsgUpdateParams{Authority: env.Authority, Params: p})
		default:
			panic("bad opcode")
		}
	}
	return common.L(nc, input), obs
}
