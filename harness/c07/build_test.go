package c07

// Builders of REAL evidence objects (CometBFT votes / commits signed with ed25519 keys) and the
// decision-relevant facts the driver knows about what it built (the model's input).

import (
	"bytes"
	"encoding/base64"
	"fmt"
	"strings"
	"time"

	clienttypes "github.com/cosmos/ibc-go/v10/modules/core/02-client/types"
	ibctm "github.com/cosmos/ibc-go/v10/modules/light-clients/07-tendermint"

	cryptocodec "github.com/cosmos/cosmos-sdk/crypto/codec"
	cryptotypes "github.com/cosmos/cosmos-sdk/crypto/types"

	cmted25519 "github.com/cometbft/cometbft/crypto/ed25519"
	"github.com/cometbft/cometbft/crypto/tmhash"
	tmproto "github.com/cometbft/cometbft/proto/tendermint/types"
	cmtversion "github.com/cometbft/cometbft/proto/tendermint/version"
	tmtypes "github.com/cometbft/cometbft/types"

	"verifharness/common"
)

// address ids: 0..99 validator i's provider key, 100..199 consumer keys, 200.. keys of nobody
func privOf(id int64) cryptotypes.PrivKey {
	switch {
	case id < 100:
		return common.Key(int(1000 + id))
	case id < 200:
		return common.Key(int(2000 + id - 100))
	}
	return common.Key(int(3000 + id - 200))
}

func addrOf(id int64) []byte { return privOf(id).PubKey().Address() }

func cmtPub(id int64) cmted25519.PubKey { return cmted25519.PubKey(privOf(id).PubKey().Bytes()) }

var universe = func() []int64 {
	var u []int64
	for i := int64(0); i < 8; i++ {
		u = append(u, i)
	}
	for i := int64(100); i < 108; i++ {
		u = append(u, i)
	}
	return append(u, 200, 201)
}()

func idOfAddr(a []byte) int64 {
	for _, id := range universe {
		if bytes.Equal(addrOf(id), a) {
			return id
		}
	}
	return 999
}

func chainStr(n int64) string {
	if n == 0 {
		return "provider"
	}
	return fmt.Sprintf("kappa%d-1", n) // revision 1: what MsgCreateConsumer's default initial height demands
}

func clientStr(n int64) string {
	if n < 0 {
		return "07-tendermint-77"
	}
	return fmt.Sprintf("07-tendermint-%d", n)
}

func hash32(s string) []byte { return tmhash.Sum([]byte(s)) }

func mkBlockID(tag byte) tmtypes.BlockID {
	return tmtypes.BlockID{Hash: bytes.Repeat([]byte{tag}, 32), PartSetHeader: tmtypes.PartSetHeader{Total: 1, Hash: bytes.Repeat([]byte{tag + 1}, 32)}}
}

// ---------------------------------------------------------------- double voting

type dvSpec struct {
	C     int64  `json:"c"`
	Key   int64  `json:"key"`   // address id of the signing key
	Chain int64  `json:"chain"` // chain number both votes are signed over
	H     int64  `json:"h"`
	Mut   string `json:"mut"`
	Arg   int64  `json:"arg"`
}

type dvBuilt struct {
	Cid    string
	Ev     *tmtypes.DuplicateVoteEvidence
	Valset *tmproto.ValidatorSet
	Pub    cryptotypes.PubKey // keeper entry
	Bits   common.T
}

func signVote(v *tmtypes.Vote, signer, chain int64) {
	sig, err := privOf(signer).Sign(tmtypes.VoteSignBytes(chainStr(chain), v.ToProto()))
	if err != nil {
		panic(err)
	}
	v.Signature = sig
}

func verifiesOver(pub cryptotypes.PubKey, v *tmtypes.Vote, chains []int64) common.T {
	out := []common.T{}
	if pub == nil {
		return out
	}
	for _, c := range chains {
		if pub.VerifySignature(tmtypes.VoteSignBytes(chainStr(c), v.ToProto()), v.Signature) {
			out = append(out, c)
		}
	}
	return out
}

func buildDV(sp dvSpec, entry int64, chains []int64) dvBuilt {
	vote := func(tag byte) *tmtypes.Vote {
		return &tmtypes.Vote{Type: tmproto.PrecommitType, Height: sp.H, Round: 1, BlockID: mkBlockID(tag),
			Timestamp: common.T0.Add(time.Second), ValidatorAddress: addrOf(sp.Key), ValidatorIndex: 0}
	}
	a, b := vote(1), vote(3)
	signerA, signerB, chainA, chainB := sp.Key, sp.Key, sp.Chain, sp.Chain
	valKeys := []int64{sp.Key}
	cid := fmt.Sprint(sp.C)
	switch sp.Mut {
	case "chainA":
		chainA = sp.Arg
	case "chainB":
		chainB = sp.Arg
	case "chainAB":
		chainA, chainB = sp.Arg, sp.Arg
	case "heightB":
		b.Height++
	case "roundB":
		b.Round++
	case "typeB":
		b.Type = tmproto.PrevoteType
	case "tsB":
		b.Timestamp = b.Timestamp.Add(time.Second)
	case "bid_equal":
		b.BlockID = a.BlockID
	case "bid_swap":
		a.BlockID, b.BlockID = b.BlockID, a.BlockID
	case "sigA_otherkey":
		signerA = sp.Arg
	case "sigB_otherkey":
		signerB = sp.Arg
	case "addrB":
		b.ValidatorAddress = addrOf(sp.Arg)
		signerB = sp.Arg
	case "addrAB":
		a.ValidatorAddress, b.ValidatorAddress = addrOf(sp.Arg), addrOf(sp.Arg)
	case "addrAB_in":
		a.ValidatorAddress, b.ValidatorAddress = addrOf(sp.Arg), addrOf(sp.Arg)
		valKeys = []int64{sp.Key, sp.Arg}
	case "valset_missing":
		valKeys = []int64{sp.Arg}
	case "valset_extra":
		valKeys = []int64{sp.Arg, sp.Key}
	case "cid_bad":
		cid = "abc"
	case "cid_empty":
		cid = " "
	}
	signVote(a, signerA, chainA)
	signVote(b, signerB, chainB)
	switch sp.Mut {
	case "sig_swap":
		a.Signature, b.Signature = b.Signature, a.Signature
	case "sigA_forge":
		a.Signature[3] ^= 1
	case "sigB_forge":
		b.Signature[40] ^= 0x80
	case "post_tsA":
		a.Timestamp = a.Timestamp.Add(time.Nanosecond)
	case "post_hAB":
		a.Height++
		b.Height++
	}
	var vals []*tmtypes.Validator
	seen := map[int64]bool{}
	for _, k := range valKeys {
		if !seen[k] {
			vals = append(vals, tmtypes.NewValidator(cmtPub(k), 10))
		}
		seen[k] = true
	}
	vsp, err := tmtypes.NewValidatorSet(vals).ToProto()
	if err != nil {
		panic(err)
	}
	valsetOK := true
	if sp.Mut == "valset_wrongkey" && sp.Arg != sp.Key {
		valsetOK = false
		wrong, err := cryptocodec.ToCmtProtoPublicKey(privOf(sp.Arg).PubKey())
		if err != nil {
			panic(err)
		}
		for _, v := range vsp.Validators {
			if bytes.Equal(v.Address, addrOf(sp.Key)) {
				v.PubKey = wrong
			}
		}
		if bytes.Equal(vsp.Proposer.Address, addrOf(sp.Key)) {
			vsp.Proposer.PubKey = wrong
		}
	}
	var pub cryptotypes.PubKey = privOf(sp.Key).PubKey()
	switch sp.Mut {
	case "key_nil":
		pub = nil
	case "key_other":
		pub = privOf(sp.Arg).PubKey()
	}
	// the key the keeper ends up verifying with
	var used cryptotypes.PubKey
	inValset := false
	if entry == 0 {
		for _, k := range valKeys {
			if bytes.Equal(addrOf(k), a.ValidatorAddress) {
				inValset = true
				used = privOf(k).PubKey()
			}
		}
	} else {
		used = pub
	}
	vbOK := sp.Mut != "cid_bad" && sp.Mut != "cid_empty"
	hrt := a.Height == b.Height && a.Round == b.Round && a.Type == b.Type
	consID := sp.C
	if cid != fmt.Sprint(sp.C) {
		consID = -1 // a consumer id string that names nobody
	}
	bits := common.L(consID, common.B(vbOK), int64(strings.Compare(a.BlockID.Key(), b.BlockID.Key())),
		common.B(valsetOK), common.B(inValset), common.B(pub != nil),
		common.B(used != nil && bytes.Equal(used.Address(), a.ValidatorAddress)),
		common.B(hrt), common.B(bytes.Equal(a.ValidatorAddress, b.ValidatorAddress)), a.Height,
		verifiesOver(used, a, chains), verifiesOver(used, b, chains), idOfAddr(a.ValidatorAddress))
	ev := &tmtypes.DuplicateVoteEvidence{VoteA: a, VoteB: b, TotalVotingPower: 20, ValidatorPower: 10, Timestamp: common.T0}
	return dvBuilt{Cid: cid, Ev: ev, Valset: vsp, Pub: pub, Bits: bits}
}

func dvHeader(b dvBuilt, chain int64, h int64) *ibctm.Header {
	return &ibctm.Header{
		SignedHeader: &tmproto.SignedHeader{Header: &tmproto.Header{ChainID: chainStr(chain), Height: h, Time: common.T0}, Commit: &tmproto.Commit{}},
		ValidatorSet: b.Valset,
	}
}

// ---------------------------------------------------------------- misbehaviour

type hdrSpec struct {
	Round int32   `json:"round"`
	Dt    int64   `json:"dt"`   // header time, seconds after T0
	App   int64   `json:"app"`  // app hash variant
	Sigs  []int64 `json:"sigs"` // per entry of Vals: 0 absent, 1 commit, 2 nil, 3 commit with a corrupted signature, 4 nil corrupted
}

type mbSpec struct {
	C       int64     `json:"c"`
	Cid     string    `json:"cid"`    // "" = decimal of C
	Chain   int64     `json:"chain"`  // chain number in the headers
	Client  int64     `json:"client"` // client number named by the misbehaviour (-1: an id nobody has)
	H       int64     `json:"h"`
	H2      int64     `json:"h2"`      // 0 = same as H
	Vals    [][]int64 `json:"vals"`    // [key, power] of the headers' validator set
	Vals2   [][]int64 `json:"vals2"`   // header 2's own validator set (lunatic headers); empty = Vals
	Trusted [][]int64 `json:"trusted"` // trusted validators carried by the headers
	H1      hdrSpec   `json:"h1"`
	Hd2     hdrSpec   `json:"hd2"`
	Mut     string    `json:"mut"`
}

func valsetOf(l [][]int64) *tmtypes.ValidatorSet {
	var vals []*tmtypes.Validator
	for _, kv := range l {
		vals = append(vals, tmtypes.NewValidator(cmtPub(kv[0]), kv[1]))
	}
	return tmtypes.NewValidatorSet(vals)
}

type builtHeader struct {
	H      *ibctm.Header
	Commit *tmtypes.Commit
	VS     *tmtypes.ValidatorSet
	Hdr    tmtypes.Header
}

func buildHeader(chain string, height int64, hs hdrSpec, vals [][]int64, trusted *tmtypes.ValidatorSet) builtHeader {
	vs := valsetOf(vals)
	hdr := tmtypes.Header{
		Version: cmtversion.Consensus{Block: 11, App: 2}, ChainID: chain, Height: height,
		Time:               common.T0.Add(time.Duration(hs.Dt) * time.Second),
		LastBlockID:        tmtypes.BlockID{Hash: make([]byte, 32), PartSetHeader: tmtypes.PartSetHeader{Total: 10000, Hash: make([]byte, 32)}},
		LastCommitHash:     hash32("lastcommit"),
		DataHash:           hash32("data"),
		ValidatorsHash:     vs.Hash(),
		NextValidatorsHash: vs.Hash(),
		ConsensusHash:      hash32("consensus"),
		AppHash:            hash32(fmt.Sprintf("app%d", hs.App)),
		LastResultsHash:    hash32("results"),
		EvidenceHash:       hash32("evidence"),
		ProposerAddress:    vs.Proposer.Address,
	}
	blockID := tmtypes.BlockID{Hash: hdr.Hash(), PartSetHeader: tmtypes.PartSetHeader{Total: 3, Hash: hash32("parts")}}
	commit := &tmtypes.Commit{Height: height, Round: hs.Round, BlockID: blockID, Signatures: make([]tmtypes.CommitSig, len(vs.Validators))}
	for j, v := range vs.Validators {
		spec := int64(0)
		var key int64
		for i, kv := range vals {
			if bytes.Equal(addrOf(kv[0]), v.Address) {
				key = kv[0]
				if i < len(hs.Sigs) {
					spec = hs.Sigs[i]
				}
			}
		}
		if spec == 0 {
			commit.Signatures[j] = tmtypes.NewCommitSigAbsent()
			continue
		}
		flag := tmtypes.BlockIDFlagCommit
		if spec == 2 || spec == 4 {
			flag = tmtypes.BlockIDFlagNil
		}
		commit.Signatures[j] = tmtypes.CommitSig{BlockIDFlag: flag, ValidatorAddress: v.Address, Timestamp: hdr.Time}
		sig, err := privOf(key).Sign(commit.VoteSignBytes(chain, int32(j)))
		if err != nil {
			panic(err)
		}
		if spec >= 3 {
			sig[7] ^= 4
		}
		commit.Signatures[j].Signature = sig
	}
	vsp, err := vs.ToProto()
	if err != nil {
		panic(err)
	}
	vsp.TotalVotingPower = vs.TotalVotingPower()
	tvp, err := trusted.ToProto()
	if err != nil {
		panic(err)
	}
	tvp.TotalVotingPower = trusted.TotalVotingPower()
	return builtHeader{
		H: &ibctm.Header{
			SignedHeader:      &tmproto.SignedHeader{Header: hdr.ToProto(), Commit: commit.ToProto()},
			ValidatorSet:      vsp,
			TrustedHeight:     clienttypes.NewHeight(1, trustedHeight),
			TrustedValidators: tvp,
		},
		Commit: commit, VS: vs, Hdr: hdr,
	}
}

func sigEntries(b builtHeader, chain string) common.T {
	out := []common.T{}
	for j, s := range b.Commit.Signatures {
		ok := false
		if s.BlockIDFlag != tmtypes.BlockIDFlagAbsent {
			idx, val := b.VS.GetByAddress(s.ValidatorAddress)
			ok = idx != -1 && bytes.Equal(val.PubKey.Address(), s.ValidatorAddress) &&
				val.PubKey.VerifySignature(b.Commit.VoteSignBytes(chain, int32(j)), s.Signature)
		}
		id := int64(999)
		if len(s.ValidatorAddress) > 0 {
			id = idOfAddr(s.ValidatorAddress)
		}
		out = append(out, common.L(id, int64(s.BlockIDFlag), common.B(ok)))
	}
	return out
}

func conflicting(a, b tmtypes.Header) bool {
	return !bytes.Equal(a.ValidatorsHash, b.ValidatorsHash) || !bytes.Equal(a.NextValidatorsHash, b.NextValidatorsHash) ||
		!bytes.Equal(a.ConsensusHash, b.ConsensusHash) || !bytes.Equal(a.AppHash, b.AppHash) ||
		!bytes.Equal(a.LastResultsHash, b.LastResultsHash)
}

func b64(b []byte) string { return base64.StdEncoding.EncodeToString(b) }
