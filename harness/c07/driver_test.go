package c07

// Correspondence driver for C07 (equivocation evidence punishes exactly the signer, only when valid).
// A case is a small world (validators with stake layouts, consumers with client / chain id / minimum
// evidence height / double-sign parameters) and a history of actions executed on the REAL provider keeper:
// key assignments, block time, external staking changes, and evidence submissions built from a valid
// template plus ONE named mutation.  Per submission the driver reports the result class, whether staking was
// written before a failure (dirty; then rolled back like the SDK would), and the full staking / slashing
// record of EVERY validator; a change of the raw provider store by a submission is reported as class 1000+.

import (
	"encoding/json"
	"errors"
	"fmt"
	"strconv"
	"strings"
	"testing"
	"time"

	ibctm "github.com/cosmos/ibc-go/v10/modules/light-clients/07-tendermint"

	"cosmossdk.io/math"

	sdk "github.com/cosmos/cosmos-sdk/types"
	slashingtypes "github.com/cosmos/cosmos-sdk/x/slashing/types"
	stakingtypes "github.com/cosmos/cosmos-sdk/x/staking/types"

	"verifharness/common"

	providertypes "github.com/cosmos/interchain-security/v7/x/ccv/provider/types"
)

type valCfg struct {
	Tokens  int64   `json:"tokens"`
	Status  int32   `json:"status"`
	Jailed  int64   `json:"jailed"`
	Tomb    int64   `json:"tomb"`
	Until   int64   `json:"until"`
	LastPow int64   `json:"lastpow"`
	Unb     []int64 `json:"unb"`
	Red     []int64 `json:"red"`
	NoInfo  int64   `json:"noinfo"`
}

type consCfg struct {
	Chain    int64     `json:"chain"`
	Client   int64     `json:"client"`
	NoChain  int64     `json:"nochain"`
	MinH     uint64    `json:"minh"`
	DS       []int64   `json:"ds"` // [fraction raw 10^18, jail ns, tombstone]; null: parameters deleted
	Launched int64     `json:"launched"`
	Trusted  [][]int64 `json:"trusted"`
}

type kase struct {
	ID   int64             `json:"id"`
	Vals []valCfg          `json:"vals"`
	Cons []consCfg         `json:"cons"`
	Acts []json.RawMessage `json:"acts"`
}

var owner = sdk.AccAddress([]byte("owner000000000000001")).String()

func decOfRaw(raw int64) math.LegacyDec {
	return math.LegacyNewDecFromIntWithPrec(math.NewInt(raw), math.LegacyPrecision)
}

func sum(l []math.Int) int64 {
	t := math.ZeroInt()
	for _, x := range l {
		t = t.Add(x)
	}
	return t.Int64()
}

func ints(l []int64) []math.Int {
	out := make([]math.Int, len(l))
	for i, x := range l {
		out[i] = math.NewInt(x)
	}
	return out
}

func applyVal(v *common.Val, c valCfg, noInfo map[int]bool) {
	v.Tokens = math.NewInt(c.Tokens)
	v.Status = stakingtypes.BondStatus(c.Status)
	v.Jailed = c.Jailed != 0
	v.Tombstoned = v.Tombstoned || c.Tomb != 0 // x/slashing never removes a tombstone
	v.JailedUntil = time.Time{}
	if c.Until != 0 {
		v.JailedUntil = common.T0.Add(time.Duration(c.Until))
	}
	v.LastPower = c.LastPow
	v.Unbonding = ints(c.Unb)
	v.Redelegated = ints(c.Red)
	noInfo[v.Idx] = c.NoInfo != 0
}

func encVal(v *common.Val, noInfo map[int]bool) common.T {
	until := int64(0)
	if !v.JailedUntil.IsZero() {
		until = v.JailedUntil.Sub(common.T0).Nanoseconds()
	}
	log := []common.T{}
	for _, r := range v.SlashLog {
		frac := math.LegacyMustNewDecFromStr(r.Fraction).BigInt().Int64()
		if r.Reason != stakingtypes.Infraction_INFRACTION_DOUBLE_SIGN || r.Height != 0 {
			frac = -1 // not the call the property expects
		}
		log = append(log, common.L(r.Power, frac))
	}
	return common.L(int64(v.Status), common.B(v.Jailed), until, common.B(v.Tombstoned), v.Tokens.Int64(), v.LastPower,
		sum(v.Unbonding), sum(v.Redelegated), common.B(!noInfo[v.Idx]), log)
}

func (e *evEnv) snapshot() common.T {
	out := make([]common.T, len(e.W.Vals))
	for i, v := range e.W.Vals {
		out[i] = encVal(v, e.NoInfo)
	}
	return out
}

func tail(s, prefix string) (int64, bool) {
	if !strings.HasPrefix(s, prefix) {
		return 0, false
	}
	n, err := strconv.ParseInt(s[len(prefix):], 10, 64)
	return n, err == nil
}

// readCons reads consumer c's configuration back from the real provider store (the oracle values).
func (e *evEnv) readCons(c int64) common.T {
	cid := fmt.Sprint(c)
	var client, chain, ds common.T = common.L(), common.L(), common.L()
	if s, ok := e.K.GetConsumerClientId(e.Ctx, cid); ok {
		n, ok := tail(s, "07-tendermint-")
		if !ok {
			n = 9999
		}
		client = common.L(n)
	}
	if s, err := e.K.GetConsumerChainId(e.Ctx, cid); err == nil {
		n, ok := tail(strings.TrimSuffix(s, "-1"), "kappa")
		if !ok {
			n = 0
		}
		chain = common.L(n)
	}
	if p, err := e.K.GetInfractionParameters(e.Ctx, cid); err == nil && p.DoubleSign != nil {
		d := p.DoubleSign
		ds = common.L(common.L(d.SlashFraction.BigInt().Int64(), int64(d.JailDuration), common.B(d.Tombstone)))
	}
	keys := []common.T{}
	for _, id := range universe {
		if p, ok := e.K.GetValidatorByConsumerAddr(e.Ctx, cid, providertypes.NewConsumerConsAddress(sdk.ConsAddress(addrOf(id)))); ok {
			keys = append(keys, common.L(id, idOfAddr(p.ToSdkConsAddr())))
		}
	}
	return common.L(client, chain, int64(e.K.GetEquivocationEvidenceMinHeight(e.Ctx, cid)), ds, keys)
}

func classify(r common.Result, mb bool) int64 {
	if r.OK() {
		return 0
	}
	if r.Panic != nil {
		return 26
	}
	s := r.Err.Error()
	has := func(x string) bool { return strings.Contains(s, x) }
	switch {
	case strings.HasPrefix(s, "validate-basic"):
		return 1
	case has("incorrectly derived from pubkey"):
		return 2
	case has("cannot be found in the infraction block header validator set"):
		return 3
	case has("cannot find consumer chain"), has("non-existent consumer chain"):
		return 4
	case has("is too old"):
		return 5
	case has("failed to retrieve chain id"):
		if mb {
			return 27
		}
		return 6
	case has("public key cannot be empty"):
		return 7
	case has("doesn't correspond to the validator address"):
		return 8
	case has("height/round/type are not the same"):
		return 9
	case has("validator addresses do not match"):
		return 10
	case has("block IDs are the same"):
		return 11
	case has("verifying VoteA"):
		return 12
	case has("verifying VoteB"):
		return 13
	case has("failed to retrieve infraction parameters"):
		return 14
	case has("validator is unbonded"):
		return 16
	case has("validator is tombstoned"), errors.Is(r.Err, slashingtypes.ErrValidatorTombstoned):
		return 17
	case errors.Is(r.Err, slashingtypes.ErrNoValidatorForAddress):
		return 15
	case has("fail to set jail duration"), has("fail to tombstone"):
		return 18
	case has("incorrect misbehaviour for a different chain id"):
		return 28
	case has("expected client ID"):
		return 19
	case has("headers are not at same height"):
		return 20
	case has("invalid misbehaviour for client-id"):
		return 21
	case has("in Misbehaviour failed"), has("trusted consensus state"):
		return 22
	case has("incorrect signature"), has("wrong signature"), has("doesn't correspond to signature validator address"):
		return 24
	case has("failed to slash, jail, or tombstone all validators"):
		return 25
	}
	return 99
}

func TestDriver(t *testing.T) {
	common.RunCases(t, func(c common.Case) (common.T, common.T) {
		var k kase
		if err := json.Unmarshal(c.Raw, &k); err != nil {
			panic(err)
		}
		w := common.NewWorld(0)
		for _, vc := range k.Vals {
			w.AddVal(vc.Tokens)
		}
		env := newEnv(t, w)
		for i, vc := range k.Vals {
			applyVal(w.Vals[i], vc, env.NoInfo)
		}
		env.InitGenesis(providertypes.DefaultParams())

		chains := []int64{0, 90, 91}
		for ci, cc := range k.Cons {
			cid := fmt.Sprint(ci)
			ds := cc.DS
			if ds == nil {
				ds = []int64{0, 0, 0}
			}
			msg := &providertypes.MsgCreateConsumer{Submitter: owner, ChainId: chainStr(cc.Chain),
				Metadata: providertypes.ConsumerMetadata{Name: "n", Description: "d", Metadata: "m"},
				InfractionParameters: &providertypes.InfractionParameters{
					DoubleSign: &providertypes.SlashJailParameters{SlashFraction: decOfRaw(ds[0]), JailDuration: time.Duration(ds[1]), Tombstone: ds[2] != 0},
					Downtime:   &providertypes.SlashJailParameters{SlashFraction: decOfRaw(0), JailDuration: time.Second, Tombstone: false},
				}}
			if r := env.Deliver(msg); !r.OK() {
				panic("create consumer: " + r.String())
			}
			if cc.DS == nil {
				env.K.DeleteInfractionParameters(env.Ctx, cid)
			}
			if cc.NoChain != 0 {
				env.K.DeleteConsumerChainId(env.Ctx, cid)
			}
			if cc.Client != 0 {
				env.K.SetConsumerClientId(env.Ctx, cid, clientStr(int64(ci)))
				env.initClient(clientStr(int64(ci)), chainStr(cc.Chain), valsetOf(cc.Trusted))
			}
			env.K.SetEquivocationEvidenceMinHeight(env.Ctx, cid, cc.MinH)
			if cc.Launched != 0 {
				env.K.SetConsumerPhase(env.Ctx, cid, providertypes.CONSUMER_PHASE_LAUNCHED)
			}
			chains = append(chains, cc.Chain)
		}
		now := func() int64 { return env.Ctx.BlockTime().Sub(common.T0).Nanoseconds() }

		conss := make([]common.T, len(k.Cons))
		for ci := range k.Cons {
			conss[ci] = env.readCons(int64(ci))
		}
		init := common.L(now(), env.snapshot(), conss)
		ops := []common.T{}
		obs := []common.T{}
		emit := func(op common.T, code int64, dirty bool, extra common.T) {
			ops = append(ops, op)
			obs = append(obs, common.L(code, common.B(dirty), extra, env.snapshot()))
		}
		// submit runs f like a transaction and adds 1000 to the class if the raw provider store changed
		submit := func(mb bool, f func() common.Result) (int64, bool) {
			before := env.DumpStore()
			res, dirty := env.atomic(f)
			code := classify(res, mb)
			if len(common.DiffStores(before, env.DumpStore())) != 0 {
				code += 1000
			}
			return code, dirty
		}

		for _, raw := range k.Acts {
			var a []json.RawMessage
			if err := json.Unmarshal(raw, &a); err != nil {
				panic(err)
			}
			var kind string
			if err := json.Unmarshal(a[0], &kind); err != nil {
				panic(err)
			}
			num := func(i int) int64 {
				var n int64
				if err := json.Unmarshal(a[i], &n); err != nil {
					panic(err)
				}
				return n
			}
			switch kind {
			case "assign": // [assign, c, v, key]
				cc, vi, key := num(1), num(2), num(3)
				pk := fmt.Sprintf(`{"@type":"/cosmos.crypto.ed25519.PubKey","key":"%s"}`, b64(privOf(key).PubKey().Bytes()))
				env.Deliver(&providertypes.MsgAssignConsumerKey{ConsumerId: fmt.Sprint(cc), ProviderAddr: w.Vals[vi].Oper.String(),
					ConsumerKey: pk, Signer: sdk.AccAddress(w.Vals[vi].Oper).String()})
				emit(common.L(int64(2), cc, env.readCons(cc)), 0, false, common.L())
			case "prune": // [prune, c]
				cc := num(1)
				env.K.PruneKeyAssignments(env.Ctx, fmt.Sprint(cc))
				emit(common.L(int64(2), cc, env.readCons(cc)), 0, false, common.L())
			case "cons": // [cons, c, {minh, ds, client}]
				cc := num(1)
				var u struct {
					MinH   *uint64 `json:"minh"`
					DS     []int64 `json:"ds"`
					Client *int64  `json:"client"`
				}
				if err := json.Unmarshal(a[2], &u); err != nil {
					panic(err)
				}
				cid := fmt.Sprint(cc)
				if u.MinH != nil {
					env.K.SetEquivocationEvidenceMinHeight(env.Ctx, cid, *u.MinH)
				}
				if u.DS != nil {
					p, err := env.K.GetInfractionParameters(env.Ctx, cid)
					if err != nil {
						p = providertypes.InfractionParameters{Downtime: &providertypes.SlashJailParameters{SlashFraction: decOfRaw(0), JailDuration: time.Second}}
					}
					p.DoubleSign = &providertypes.SlashJailParameters{SlashFraction: decOfRaw(u.DS[0]), JailDuration: time.Duration(u.DS[1]), Tombstone: u.DS[2] != 0}
					if err := env.K.SetInfractionParameters(env.Ctx, cid, p); err != nil {
						panic(err)
					}
				}
				if u.Client != nil && *u.Client == 0 {
					env.K.DeleteConsumerClientId(env.Ctx, cid)
				}
				emit(common.L(int64(2), cc, env.readCons(cc)), 0, false, common.L())
			case "time": // [time, dt ns]
				env.NextBlock(time.Duration(num(1)))
				emit(common.L(int64(0), now()), 0, false, common.L())
			case "ext": // [ext, v, valCfg]
				vi := num(1)
				var vc valCfg
				if err := json.Unmarshal(a[2], &vc); err != nil {
					panic(err)
				}
				applyVal(w.Vals[vi], vc, env.NoInfo)
				emit(common.L(int64(1), vi, encVal(w.Vals[vi], env.NoInfo)), 0, false, common.L())
			case "dv": // [dv, entry, spec]
				entry := num(1)
				var sp dvSpec
				if err := json.Unmarshal(a[2], &sp); err != nil {
					panic(err)
				}
				b := buildDV(sp, entry, chains)
				var code int64
				var dirty bool
				if entry == 0 {
					msg := &providertypes.MsgSubmitConsumerDoubleVoting{Submitter: owner, DuplicateVoteEvidence: b.Ev.ToProto(),
						InfractionBlockHeader: dvHeader(b, sp.Chain, sp.H), ConsumerId: b.Cid}
					code, dirty = submit(false, func() common.Result { return env.Deliver(msg) })
				} else {
					code, dirty = submit(false, func() common.Result {
						return common.Tx(env.Ctx, func(ctx sdk.Context) error {
							return env.K.HandleConsumerDoubleVoting(ctx, b.Cid, b.Ev, b.Pub)
						})
					})
				}
				emit(common.L(int64(3), entry, b.Bits), code, dirty, common.L())
			case "mb": // [mb, entry, spec]
				entry := num(1)
				var sp mbSpec
				if err := json.Unmarshal(a[2], &sp); err != nil {
					panic(err)
				}
				env.doMB(entry, sp, submit, emit)
			default:
				panic("unknown action " + kind)
			}
		}
		return common.L(init, ops), obs
	})
}

func (env *evEnv) doMB(entry int64, sp mbSpec, submit func(bool, func() common.Result) (int64, bool),
	emit func(common.T, int64, bool, common.T)) {
	cid := sp.Cid
	if cid == "" {
		cid = fmt.Sprint(sp.C)
	}
	chain := chainStr(sp.Chain)
	trusted := valsetOf(sp.Trusted)
	h2 := sp.H2
	if h2 == 0 {
		h2 = sp.H
	}
	b1 := buildHeader(chain, sp.H, sp.H1, sp.Vals, trusted)
	vals2 := sp.Vals2
	if len(vals2) == 0 {
		vals2 = sp.Vals
	}
	b2 := buildHeader(chain, h2, sp.Hd2, vals2, trusted)
	misb := &ibctm.Misbehaviour{ClientId: clientStr(sp.Client), Header1: b1.H, Header2: b2.H}
	lbOK := true
	sigs2 := sigEntries(b2, chain)
	if sp.Mut == "empty_h2" {
		misb.Header2 = &ibctm.Header{}
		lbOK = false
		sigs2 = common.L()
	}
	// oracle values: ibc-go's own ValidateBasic and the light client's verdicts for the consumer's client
	vbOK, cfm, vcm := false, false, false
	if lbOK {
		func() {
			defer func() { _ = recover() }()
			_, cidErr := strconv.ParseUint(cid, 10, 64)
			vbOK = cidErr == nil && misb.ValidateBasic() == nil
		}()
		if cl, ok := env.K.GetConsumerClientId(env.Ctx, cid); ok {
			func() {
				defer func() { _ = recover() }()
				cctx, _ := env.Ctx.CacheContext()
				cfm = env.LC.CheckForMisbehaviour(cctx, cl, misb)
				vcm = env.LC.VerifyClientMessage(cctx, cl, misb) == nil
			}()
		}
	}
	client := sp.Client
	if client < 0 {
		client = 77
	}
	consID := sp.C
	if cid != fmt.Sprint(sp.C) {
		consID = -1 // a consumer id string that names nobody
	}
	bits := common.L(consID, common.B(vbOK), sp.Chain, client, common.B(h2 == sp.H), sp.H, common.B(cfm), common.B(vcm),
		common.B(lbOK), common.B(conflicting(b1.Hdr, b2.Hdr)), common.B(sp.H1.Round == sp.Hd2.Round),
		sigEntries(b1, chain), sigs2)
	switch entry {
	case 0:
		msg := &providertypes.MsgSubmitConsumerMisbehaviour{Submitter: owner, Misbehaviour: misb, ConsumerId: cid}
		code, dirty := submit(true, func() common.Result { return env.Deliver(msg) })
		emit(common.L(int64(4), entry, bits), code, dirty, common.L())
	case 1:
		code, dirty := submit(true, func() common.Result {
			return common.Tx(env.Ctx, func(ctx sdk.Context) error {
				return env.K.HandleConsumerMisbehaviour(ctx, cid, *misb)
			})
		})
		emit(common.L(int64(4), entry, bits), code, dirty, common.L())
	default:
		var out []common.T
		code, dirty := submit(true, func() common.Result {
			return common.Tx(env.Ctx, func(ctx sdk.Context) error {
				vals, err := env.K.GetByzantineValidators(ctx, *misb)
				if err != nil {
					return err
				}
				out = []common.T{}
				for _, v := range vals {
					out = append(out, idOfAddr(v.Address))
				}
				return nil
			})
		})
		if code == 99 {
			code = 23
		}
		if out == nil {
			out = []common.T{}
		}
		emit(common.L(int64(5), bits), code, dirty, common.T(out))
	}
}
