package c07

// Environment of the C07 driver: the REAL provider keeper / msg server over the fake World, plus
//   - a client keeper whose GetStoreProvider() is a real 02-client StoreProvider over an "ibc" KV store of
//     the same multistore, so that CheckMisbehaviour runs the real 07-tendermint light client against a
//     real ClientState / ConsensusState written with LightClientModule.Initialize;
//   - a slashing keeper in which single validators can lack a signing info (JailUntil / Tombstone fail).

import (
	"context"
	"fmt"
	"testing"
	"time"

	dbm "github.com/cosmos/cosmos-db"
	clienttypes "github.com/cosmos/ibc-go/v10/modules/core/02-client/types"
	commitmenttypes "github.com/cosmos/ibc-go/v10/modules/core/23-commitment/types"
	ibctm "github.com/cosmos/ibc-go/v10/modules/light-clients/07-tendermint"

	"cosmossdk.io/log"
	"cosmossdk.io/math"
	"cosmossdk.io/store"
	"cosmossdk.io/store/metrics"
	storetypes "cosmossdk.io/store/types"

	"github.com/cosmos/cosmos-sdk/codec"
	"github.com/cosmos/cosmos-sdk/codec/address"
	codectypes "github.com/cosmos/cosmos-sdk/codec/types"
	cryptocodec "github.com/cosmos/cosmos-sdk/crypto/codec"
	"github.com/cosmos/cosmos-sdk/runtime"
	sdk "github.com/cosmos/cosmos-sdk/types"
	authtypes "github.com/cosmos/cosmos-sdk/x/auth/types"
	govkeeper "github.com/cosmos/cosmos-sdk/x/gov/keeper"
	govtypes "github.com/cosmos/cosmos-sdk/x/gov/types"
	paramstypes "github.com/cosmos/cosmos-sdk/x/params/types"

	tmproto "github.com/cometbft/cometbft/proto/tendermint/types"
	tmtypes "github.com/cometbft/cometbft/types"

	"verifharness/common"

	providerkeeper "github.com/cosmos/interchain-security/v7/x/ccv/provider/keeper"
	ccvtypes "github.com/cosmos/interchain-security/v7/x/ccv/types"
)

type evClient struct {
	common.FakeClient
	SP clienttypes.StoreProvider
}

func (c evClient) GetStoreProvider() clienttypes.StoreProvider { return c.SP }

type evSlashing struct {
	common.FakeSlashing
	NoInfo map[int]bool
}

func (s evSlashing) JailUntil(ctx context.Context, c sdk.ConsAddress, t time.Time) error {
	if v := s.W.ValByCons(c); v != nil && s.NoInfo[v.Idx] {
		return fmt.Errorf("no signing info for %s", c)
	}
	return s.FakeSlashing.JailUntil(ctx, c, t)
}

func (s evSlashing) Tombstone(ctx context.Context, c sdk.ConsAddress) error {
	if v := s.W.ValByCons(c); v != nil && s.NoInfo[v.Idx] {
		return fmt.Errorf("no signing info for %s", c)
	}
	return s.FakeSlashing.Tombstone(ctx, c)
}

type evEnv struct {
	*common.ProviderEnv
	Cdc    codec.BinaryCodec
	LC     ibctm.LightClientModule // the driver's own handle on the light client (oracle values)
	NoInfo map[int]bool
}

const (
	trustedHeight  = 5
	trustingPeriod = 14 * 24 * time.Hour
)

func newEnv(tb testing.TB, w *common.World) *evEnv {
	tb.Helper()
	storeKey := storetypes.NewKVStoreKey(ccvtypes.StoreKey)
	memStoreKey := storetypes.NewMemoryStoreKey(ccvtypes.MemStoreKey)
	ibcKey := storetypes.NewKVStoreKey("ibc")
	db := dbm.NewMemDB()
	ms := store.NewCommitMultiStore(db, log.NewNopLogger(), metrics.NewNoOpMetrics())
	ms.MountStoreWithDB(storeKey, storetypes.StoreTypeIAVL, db)
	ms.MountStoreWithDB(ibcKey, storetypes.StoreTypeIAVL, db)
	ms.MountStoreWithDB(memStoreKey, storetypes.StoreTypeMemory, nil)
	if err := ms.LoadLatestVersion(); err != nil {
		tb.Fatal(err)
	}
	registry := codectypes.NewInterfaceRegistry()
	cryptocodec.RegisterInterfaces(registry)
	clienttypes.RegisterInterfaces(registry)
	ibctm.RegisterInterfaces(registry)
	cdc := codec.NewProtoCodec(registry)
	subspace := paramstypes.NewSubspace(cdc, codec.NewLegacyAmino(), storeKey, memStoreKey, paramstypes.ModuleName)
	ctx := sdk.NewContext(ms, tmproto.Header{ChainID: "provider", Height: 1, Time: common.T0}, false, log.NewNopLogger())

	authority := authtypes.NewModuleAddress(govtypes.ModuleName).String()
	inner := common.FakeSlashing{W: w, DowntimeJail: 600 * time.Second,
		FracDowntime: math.LegacyNewDecWithPrec(1, 2), FracDoubleSign: math.LegacyNewDecWithPrec(5, 2)}
	noInfo := map[int]bool{}
	sl := evSlashing{FakeSlashing: inner, NoInfo: noInfo}
	sp := clienttypes.NewStoreProvider(runtime.NewKVStoreService(ibcKey))
	cl := evClient{FakeClient: common.FakeClient{W: w}, SP: sp}
	k := providerkeeper.NewKeeper(cdc, storeKey, subspace,
		common.FakeChannel{W: w}, common.FakeConnection{W: w}, cl,
		common.FakeStaking{W: w}, sl, common.FakeAccount{W: w}, common.FakeDistribution{W: w}, common.FakeBank{W: w},
		govkeeper.Keeper{}, authority,
		address.NewBech32Codec("cosmosvaloper"), address.NewBech32Codec("cosmosvalcons"),
		authtypes.FeeCollectorName)
	e := &common.ProviderEnv{TB: tb, W: w, StoreKey: storeKey, Ctx: ctx, K: &k, Authority: authority, Slashing: inner}
	e.Msg = providerkeeper.NewMsgServerImpl(e.K)
	return &evEnv{ProviderEnv: e, Cdc: cdc, LC: ibctm.NewLightClientModule(cdc, sp), NoInfo: noInfo}
}

// initClient writes a real tendermint client for chainID whose trusted consensus state (height
// trustedHeight, one hour before T0) names `trusted` as the next validator set.
func (e *evEnv) initClient(clientID, chainID string, trusted *tmtypes.ValidatorSet) {
	cs := ibctm.NewClientState(chainID, ibctm.DefaultTrustLevel, trustingPeriod, 21*24*time.Hour, 10*time.Second,
		clienttypes.NewHeight(1, trustedHeight), commitmenttypes.GetSDKSpecs(), []string{"upgrade", "upgradedIBCState"})
	cons := ibctm.NewConsensusState(common.T0.Add(-time.Hour), commitmenttypes.NewMerkleRoot([]byte("root")), trusted.Hash())
	csBz, err := e.Cdc.Marshal(cs)
	if err != nil {
		panic(err)
	}
	consBz, err := e.Cdc.Marshal(cons)
	if err != nil {
		panic(err)
	}
	if err := e.LC.Initialize(e.Ctx, clientID, csBz, consBz); err != nil {
		panic(err)
	}
}

// ---- the fake World is not transactional: emulate the SDK's rollback of staking / slashing state for a
// failed transaction, and report whether anything had been written before the failure (dirty).

type valSnap struct {
	v   common.Val
	log []common.SlashRec
}

func snapWorld(w *common.World) []valSnap {
	out := make([]valSnap, len(w.Vals))
	for i, v := range w.Vals {
		out[i] = valSnap{v: *v, log: append([]common.SlashRec{}, v.SlashLog...)}
	}
	return out
}

func sameVal(a *common.Val, s valSnap) bool {
	b := &s.v
	if !a.Tokens.Equal(b.Tokens) || a.Status != b.Status || a.Jailed != b.Jailed || a.Tombstoned != b.Tombstoned ||
		!a.JailedUntil.Equal(b.JailedUntil) || a.LastPower != b.LastPower || len(a.SlashLog) != len(s.log) {
		return false
	}
	return true
}

func restoreWorld(w *common.World, snap []valSnap) (dirty bool) {
	for i, v := range w.Vals {
		if !sameVal(v, snap[i]) {
			dirty = true
			*v = snap[i].v
			v.SlashLog = snap[i].log
		}
	}
	return dirty
}

// atomic runs f with baseapp semantics for the provider store AND for the World.
func (e *evEnv) atomic(f func() common.Result) (res common.Result, dirty bool) {
	snap := snapWorld(e.W)
	res = f()
	if !res.OK() {
		dirty = restoreWorld(e.W, snap)
	}
	return res, dirty
}
