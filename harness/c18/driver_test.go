package c18

// Correspondence drivers for C18 (determinism).
//   TestFn      – the real AccumulateChanges / DiffValidators on inputs with power ties and duplicate keys,
//                 compared in ORDER with the model (Model/Determinism.v).
//   TestReplica – a multi-consumer history executed on several independent replicas (fresh keepers, stores,
//                 Go maps); per block the raw provider/consumer stores, validator updates in returned order,
//                 packet bytes and events are digested; all replicas must agree bit for bit.
//   TestChangeover – the real consumer EndBlock in the PreCCV state (standalone -> consumer changeover) against
//                 Model/Determinism.v tag 3; the handed-over consensus set is checked by the extracted monitor.
//   TestLint    – go/ast inventory of constructs whose behaviour the Go runtime leaves open.

import (
	"context"
	"crypto/sha256"
	"encoding/binary"
	"encoding/json"
	"fmt"
	"go/ast"
	"go/parser"
	"go/token"
	"hash/crc32"
	"os"
	"path/filepath"
	"sort"
	"strings"
	"sync"
	"testing"
	"time"

	channeltypes "github.com/cosmos/ibc-go/v10/modules/core/04-channel/types"

	"cosmossdk.io/math"

	cryptotypes "github.com/cosmos/cosmos-sdk/crypto/types"
	sdk "github.com/cosmos/cosmos-sdk/types"
	paramstypes "github.com/cosmos/cosmos-sdk/x/params/types"
	stakingtypes "github.com/cosmos/cosmos-sdk/x/staking/types"

	abci "github.com/cometbft/cometbft/abci/types"

	"verifharness/common"

	providerkeeper "github.com/cosmos/interchain-security/v7/x/ccv/provider/keeper"
	providertypes "github.com/cosmos/interchain-security/v7/x/ccv/provider/types"
	"github.com/cosmos/interchain-security/v7/x/ccv/consumer"
	ccvtypes "github.com/cosmos/interchain-security/v7/x/ccv/types"
)

// ---------------------------------------------------------------- fn part

type fnCase struct {
	Cur [][]int64 `json:"cur"` // [key index, power]
	New [][]int64 `json:"new"`
}

const poolSize = 24

// ranks[i] = rank of PubKey.String() of key i among the pool (integer order = Go string order)
func ranks() ([]int64, map[string]int64) {
	type kv struct {
		s string
		i int
	}
	var l []kv
	for i := 0; i < poolSize; i++ {
		k := common.TMKey(common.Key(i).PubKey())
		l = append(l, kv{k.String(), i})
	}
	sort.Slice(l, func(a, b int) bool { return l[a].s < l[b].s })
	r := make([]int64, poolSize)
	byStr := map[string]int64{}
	for rank, e := range l {
		r[e.i] = int64(rank)
		byStr[e.s] = int64(rank)
	}
	return r, byStr
}

func TestFn(t *testing.T) {
	rk, byStr := ranks()
	common.RunCases(t, func(c common.Case) (common.T, common.T) {
		var k fnCase
		if err := json.Unmarshal(c.Raw, &k); err != nil {
			panic(err)
		}
		mkU := func(l [][]int64) []abci.ValidatorUpdate {
			out := make([]abci.ValidatorUpdate, len(l))
			for i, e := range l {
				out[i] = abci.ValidatorUpdate{PubKey: common.TMKey(common.Key(int(e[0])).PubKey()), Power: e[1]}
			}
			return out
		}
		mkV := func(l [][]int64) []providertypes.ConsensusValidator {
			out := make([]providertypes.ConsensusValidator, len(l))
			for i, e := range l {
				pk := common.TMKey(common.Key(int(e[0])).PubKey())
				out[i] = providertypes.ConsensusValidator{ProviderConsAddr: []byte{byte(i)}, PublicKey: &pk, Power: e[1]}
			}
			return out
		}
		enc := func(l []abci.ValidatorUpdate) common.T {
			out := make([]common.T, len(l))
			for i, u := range l {
				out[i] = common.L(byStr[u.PubKey.String()], u.Power)
			}
			return out
		}
		encIn := func(l [][]int64) common.T {
			out := make([]common.T, len(l))
			for i, e := range l {
				out[i] = common.L(rk[e[0]], e[1])
			}
			return out
		}
		acc := ccvtypes.AccumulateChanges(mkU(k.Cur), mkU(k.New))
		diff := providerkeeper.DiffValidators(mkV(k.Cur), mkV(k.New))
		return common.L(0, encIn(k.Cur), encIn(k.New)), common.L(enc(acc), enc(diff))
	})
}

// ---------------------------------------------------------------- changeover part

// TestChangeover drives the real consumer AppModule.EndBlock of a previously standalone chain in the PreCCV state
// (ChangeoverToConsumer, GetLastBondedValidatorsUtil, ApplyCCValidatorChanges, ChangeoverIsComplete) with a second
// fake World as the standalone chain's staking module.  Key ids: standalone validator i = i, extra provider key j = 100+j.
type coCase struct {
	Init    [][]int64 `json:"init"`    // provider initial validator set: [key id, power], in stored order
	Tokens  []int64   `json:"tokens"`  // standalone validators' power (tokens = power * PowerReduction); 0 = not bonded
	MaxVals int64     `json:"maxvals"` // standalone staking MaxValidators
	Height  int64     `json:"height"`  // init genesis height
}

type saStaking struct {
	common.FakeStaking
	max uint32
}

func (s saStaking) MaxValidators(context.Context) (uint32, error) { return s.max, nil }

func TestChangeover(t *testing.T) {
	common.RunCases(t, func(c common.Case) (common.T, common.T) {
		var k coCase
		if err := json.Unmarshal(c.Raw, &k); err != nil {
			panic(err)
		}
		sw := common.NewWorld(0)
		for _, p := range k.Tokens {
			sw.AddVal(p * common.PowerReduction)
		}
		sw.StakingEndBlock()
		keyOf := func(id int64) cryptotypes.PubKey {
			if id >= 100 {
				return common.Key(3000 + int(id)).PubKey()
			}
			return sw.Vals[id].Priv.PubKey()
		}
		idOf := map[string]int64{}
		tmStr := func(pk cryptotypes.PubKey) string {
			k := common.TMKey(pk)
			return k.String()
		}
		for i := range sw.Vals {
			idOf[tmStr(keyOf(int64(i)))] = int64(i)
		}
		for j := int64(100); j < 140; j++ {
			idOf[tmStr(keyOf(j))] = j
		}
		// the oracle: what the standalone staking module reports as bonded, in its power order
		bondedVals, _ := common.FakeStaking{W: sw}.GetBondedValidatorsByPower(context.Background())
		bonded := make([]common.T, 0, len(bondedVals))
		for _, v := range bondedVals {
			pk, err := v.CmtConsPublicKey()
			if err != nil {
				panic(err)
			}
			bonded = append(bonded, common.L(idOf[pk.String()], v.ConsensusPower(math.NewInt(common.PowerReduction))))
		}
		init := make([]abci.ValidatorUpdate, len(k.Init))
		encInit := make([]common.T, len(k.Init))
		for i, e := range k.Init {
			init[i] = abci.ValidatorUpdate{PubKey: common.TMKey(keyOf(e[0])), Power: e[1]}
			encInit[i] = common.L(e[0], e[1])
		}
		w := common.NewWorld(0)
		env := common.NewConsumerEnv(t, w, "standalone-1")
		env.Ctx = env.Ctx.WithBlockHeight(k.Height)
		env.K.SetStandaloneStakingKeeper(saStaking{FakeStaking: common.FakeStaking{W: sw}, max: uint32(k.MaxVals)})
		// what InitGenesis does for state.PreCCV (x/ccv/consumer/keeper/genesis.go)
		env.K.SetPreCCVTrue(env.Ctx)
		env.K.MarkAsPrevStandaloneChain(env.Ctx)
		env.K.SetInitialValSet(env.Ctx, init)
		env.K.SetInitGenesisHeight(env.Ctx, env.Ctx.BlockHeight())
		env.Module = consumer.NewAppModule(*env.K, paramstypes.Subspace{})
		upds, err := env.Module.EndBlock(env.Ctx)
		if err != nil {
			panic(err)
		}
		encU := make([]common.T, len(upds))
		for i, u := range upds {
			encU[i] = common.L(idOf[u.PubKey.String()], u.Power)
		}
		type kv struct{ id, p int64 }
		var cc []kv
		for _, v := range env.K.GetAllCCValidator(env.Ctx) {
			pk, err := v.ConsPubKey()
			if err != nil {
				panic(err)
			}
			cc = append(cc, kv{idOf[tmStr(pk)], v.Power})
		}
		sort.Slice(cc, func(a, b int) bool { return cc[a].id < cc[b].id })
		encC := make([]common.T, len(cc))
		for i, e := range cc {
			encC[i] = common.L(e.id, e.p)
		}
		flags := []common.T{common.B(env.K.IsPreCCV(env.Ctx))}
		for d := int64(0); d < 4; d++ {
			flags = append(flags, common.B(env.K.ChangeoverIsComplete(env.Ctx.WithBlockHeight(k.Height+d))))
		}
		return common.L(3, common.T(encInit), common.T(bonded), k.MaxVals, k.Height), common.L(common.T(encU), common.T(encC), common.T(flags))
	})
}

// ---------------------------------------------------------------- replica part

type repCase struct {
	NVals     int       `json:"nvals"`
	Tokens    []int64   `json:"tokens"` // in units of 10^5 tokens (so ties in power with different tokens occur)
	MaxVals   uint32    `json:"maxvals"`
	M         int64     `json:"m"`
	Epoch     int64     `json:"epoch"`
	Consumers []repCons `json:"consumers"`
	Blocks    [][]repOp `json:"blocks"`
	Replicas  int       `json:"replicas"`
}

type repCons struct {
	AllowInactive bool    `json:"allow_inactive"`
	SetCap        uint32  `json:"set_cap"`
	PowerCap      uint32  `json:"power_cap"`
	MinStake      uint64  `json:"min_stake"`
	Allow         []int   `json:"allow"`
	Deny          []int   `json:"deny"`
	Prio          []int   `json:"prio"`
	OptIn         []int   `json:"optin"`
	OpenAt        int     `json:"open_at"` // block index at which the CCV channel is confirmed
	TopN          uint32  `json:"top_n"`
	Commission    []int64 `json:"commission"`
}

type repOp struct {
	Op string `json:"op"`
	C  int    `json:"c"`
	V  int    `json:"v"`
	N  int64  `json:"n"`
}

var rewardDenoms = []string{"stake", "uatom", "adenom", "zdenom", "ibc/0A1B", "ibc/FF00"}

func h64(parts ...[]byte) int64 {
	h := sha256.New()
	for _, p := range parts {
		var l [8]byte
		binary.BigEndian.PutUint64(l[:], uint64(len(p)))
		h.Write(l[:])
		h.Write(p)
	}
	s := h.Sum(nil)
	return int64(binary.BigEndian.Uint64(s[:8]) >> 2)
}

func storeDigest(m map[string]string) int64 {
	keys := make([]string, 0, len(m))
	for k := range m {
		keys = append(keys, k)
	}
	sort.Strings(keys)
	var parts [][]byte
	for _, k := range keys {
		parts = append(parts, []byte(k), []byte(m[k]))
	}
	return h64(parts...)
}

func updDigest(u []abci.ValidatorUpdate) int64 {
	var parts [][]byte
	for _, x := range u {
		bz, _ := x.Marshal()
		parts = append(parts, bz)
	}
	return h64(parts...)
}

func evDigest(ctx sdk.Context) int64 {
	var parts [][]byte
	for _, e := range ctx.EventManager().Events() {
		parts = append(parts, []byte(e.Type))
		for _, a := range e.Attributes {
			parts = append(parts, []byte(a.Key), []byte(a.Value))
		}
	}
	return h64(parts...)
}

// runReplica executes the history once and returns its digest trace.
func runReplica(t *testing.T, k repCase) []int64 {
	var trace []int64
	w := common.NewWorld(0)
	for i := 0; i < k.NVals; i++ {
		w.AddVal(k.Tokens[i%len(k.Tokens)] * 100_000)
	}
	w.MaxVals = k.MaxVals
	w.StakingEndBlock()
	env := common.NewProviderEnv(t, w)
	params := providertypes.DefaultParams()
	params.BlocksPerEpoch = k.Epoch
	params.MaxProviderConsensusValidators = k.M
	params.NumberOfEpochsToStartReceivingRewards = 1
	trace = append(trace, updDigest(env.InitGenesis(params)))
	// several registered reward denoms: a block then allocates more than one denom per consumer, so that the order of
	// the per-denom bank/distribution operations and of their events is observable (seeded change C18-2)
	for _, d := range rewardDenoms {
		env.K.SetConsumerRewardDenom(env.Ctx, d)
	}

	type cons struct {
		id      string
		env     *common.ConsumerEnv
		chanID  string
		opened  bool
		relayed int // index into the provider's Sent list for this channel
	}
	var cs []*cons
	for i, cc := range k.Consumers {
		ps := &providertypes.PowerShapingParameters{
			ValidatorSetCap: cc.SetCap, ValidatorsPowerCap: cc.PowerCap, MinStake: cc.MinStake, AllowInactiveVals: cc.AllowInactive,
		}
		for _, v := range cc.Allow {
			ps.Allowlist = append(ps.Allowlist, common.ConsBech32(w.Vals[v%k.NVals]))
		}
		for _, v := range cc.Deny {
			ps.Denylist = append(ps.Denylist, common.ConsBech32(w.Vals[v%k.NVals]))
		}
		for _, v := range cc.Prio {
			ps.Prioritylist = append(ps.Prioritylist, common.ConsBech32(w.Vals[v%k.NVals]))
		}
		owner := common.Account(i)
		if cc.TopN > 0 {
			owner = env.Authority
		}
		res := env.Deliver(common.MsgCreate(owner, fmt.Sprintf("cons%d", i), env.Ctx.BlockTime().Add(time.Second), ps))
		if !res.OK() {
			panic("create: " + res.String())
		}
		id := fmt.Sprintf("%d", i)
		if cc.TopN > 0 {
			ps2 := *ps
			ps2.Top_N = cc.TopN
			ps2.ValidatorSetCap = 0
			res = env.Deliver(&providertypes.MsgUpdateConsumer{Owner: owner, ConsumerId: id, PowerShapingParameters: &ps2})
			if !res.OK() {
				panic("update topn: " + res.String())
			}
		}
		for _, v := range cc.OptIn {
			env.Deliver(common.MsgOptIn(id, w.Vals[v%k.NVals], nil))
		}
		for j, r := range cc.Commission {
			env.Deliver(&providertypes.MsgSetConsumerCommissionRate{ConsumerId: id, ProviderAddr: w.Vals[j%k.NVals].Oper.String(),
				Rate: math.LegacyNewDecWithPrec(r%100, 2), Signer: common.OperAccount(w.Vals[j%k.NVals])})
		}
		cs = append(cs, &cons{id: id, chanID: fmt.Sprintf("channel-%d", i)})
	}

	provBlock := func() {
		trace = append(trace, storeDigest(env.DumpStore()))
		env.NextBlock(6 * time.Second)
		sentBefore := len(w.Sent)
		if r := env.BeginBlock(); !r.OK() {
			panic("provider BeginBlock: " + r.String())
		}
		trace = append(trace, evDigest(env.Ctx))
		_ = sentBefore
	}
	provEnd := func() {
		w.StakingEndBlock()
		sentBefore := len(w.Sent)
		upd, r := env.EndBlock()
		if !r.OK() {
			panic("provider EndBlock: " + r.String())
		}
		trace = append(trace, updDigest(upd), evDigest(env.Ctx))
		for _, p := range w.Sent[sentBefore:] {
			trace = append(trace, h64([]byte(p.Channel), p.Data), int64(p.Seq), int64(p.TimeoutTimestamp>>10))
		}
	}

	for bi, ops := range k.Blocks {
		provBlock()
		// consumers launched in this BeginBlock get their chain started
		for _, c := range cs {
			if c.env == nil && env.K.GetConsumerPhase(env.Ctx, c.id) == providertypes.CONSUMER_PHASE_LAUNCHED {
				gen, ok := env.K.GetConsumerGenesis(env.Ctx, c.id)
				if !ok {
					panic("no genesis")
				}
				c.env = common.NewConsumerEnv(t, common.NewWorld(0), "cons")
				trace = append(trace, updDigest(c.env.InitGenesis(gen)), storeDigest(c.env.DumpStore()))
			}
		}
		for ci, c := range cs {
			if c.env != nil && !c.opened && bi >= k.Consumers[ci].OpenAt {
				clientID, _ := env.K.GetConsumerClientId(env.Ctx, c.id)
				conn := fmt.Sprintf("connection-%d", ci)
				w.Connections[conn] = &common.Connection{ID: conn, ClientID: clientID}
				w.Channels[ccvtypes.ProviderPortID+"/"+c.chanID] = &common.Channel{Port: ccvtypes.ProviderPortID, ID: c.chanID,
					State: channeltypes.OPEN, Ordering: channeltypes.ORDERED, ConnectionID: conn, CpPort: ccvtypes.ConsumerPortID, CpID: "channel-0", Version: ccvtypes.Version}
				res := common.Tx(env.Ctx, func(ctx sdk.Context) error { return env.K.SetConsumerChain(ctx, c.chanID) })
				trace = append(trace, int64(len(res.String())))
				c.opened = res.OK()
			}
		}
		for _, op := range ops {
			v := w.Vals[op.V%k.NVals]
			var c *cons
			if len(cs) > 0 {
				c = cs[op.C%len(cs)]
			}
			switch op.Op {
			case "delegate":
				v.Tokens = v.Tokens.AddRaw(op.N * 100_000)
				if v.Tokens.IsNegative() {
					v.Tokens = math.ZeroInt()
				}
			case "jail":
				v.Jailed = true
			case "unjail":
				v.Jailed = false
			case "optin":
				trace = append(trace, int64(len(env.Deliver(common.MsgOptIn(c.id, v, nil)).String())))
			case "optout":
				trace = append(trace, int64(len(env.Deliver(common.MsgOptOut(c.id, v)).String())))
			case "assign":
				trace = append(trace, int64(len(env.Deliver(common.MsgAssignKey(c.id, v, common.Key(2000+int(op.N)%40).PubKey())).String())))
			case "fund":
				for _, d := range []string{"stake", rewardDenoms[op.N%int64(len(rewardDenoms))], rewardDenoms[(op.N/7)%int64(len(rewardDenoms))]} {
					amt := sdk.NewCoins(sdk.NewInt64Coin(d, op.N))
					w.Fund(providertypes.ConsumerRewardsPool, amt)
					cur, _ := env.K.GetConsumerRewardsAllocationByDenom(env.Ctx, c.id, d)
					cur.Rewards = cur.Rewards.Add(sdk.NewDecCoinsFromCoins(amt...)...)
					_ = env.K.SetConsumerRewardsAllocationByDenom(env.Ctx, c.id, d, cur)
				}
			case "slash":
				if c.env == nil || !c.opened {
					continue
				}
				// a downtime report for v's consumer key, with the latest vsc id the consumer knows
				key, found := env.K.GetValidatorConsumerPubKey(env.Ctx, c.id, providertypes.NewProviderConsAddress(v.ConsAddr()))
				addr := []byte(v.ConsAddr())
				if found {
					a, _ := ccvtypes.TMCryptoPublicKeyToConsAddr(key)
					addr = a
				}
				data := ccvtypes.SlashPacketData{Validator: abci.Validator{Address: addr, Power: v.LastPower},
					ValsetUpdateId: c.env.K.GetHeightValsetUpdateID(c.env.Ctx, uint64(c.env.Ctx.BlockHeight())), Infraction: stakingtypes.Infraction_INFRACTION_DOWNTIME}
				pkt := channeltypes.Packet{DestinationChannel: c.chanID, DestinationPort: ccvtypes.ProviderPortID}
				var ack ccvtypes.PacketAckResult
				res := common.Tx(env.Ctx, func(ctx sdk.Context) (err error) { ack, err = env.K.OnRecvSlashPacket(ctx, pkt, data); return err })
				trace = append(trace, int64(len(res.String())), h64(ack))
			case "relay":
				if c.env == nil || !c.opened {
					continue
				}
				n := int(op.N)
				for i := c.relayed; i < len(w.Sent) && n > 0; i++ {
					c.relayed = i + 1
					if w.Sent[i].Channel != c.chanID {
						continue
					}
					var d ccvtypes.ValidatorSetChangePacketData
					if err := ccvtypes.ModuleCdc.UnmarshalJSON(w.Sent[i].Data, &d); err != nil {
						panic(err)
					}
					pkt := channeltypes.Packet{DestinationChannel: "channel-0", DestinationPort: ccvtypes.ConsumerPortID, Data: w.Sent[i].Data}
					res := common.Tx(c.env.Ctx, func(ctx sdk.Context) error { return c.env.K.OnRecvVSCPacket(ctx, pkt, d) })
					trace = append(trace, int64(len(res.String())))
					n--
				}
			case "cblock":
				if c.env == nil {
					continue
				}
				c.env.NextBlock(5 * time.Second)
				if r := c.env.BeginBlock(); !r.OK() {
					panic("consumer BeginBlock: " + r.String())
				}
				upd, r := c.env.EndBlock()
				if !r.OK() {
					panic("consumer EndBlock: " + r.String())
				}
				trace = append(trace, updDigest(upd), storeDigest(c.env.DumpStore()), evDigest(c.env.Ctx))
			}
		}
		provEnd()
	}
	trace = append(trace, storeDigest(env.DumpStore()))
	for _, v := range w.Vals {
		trace = append(trace, h64([]byte(v.Tokens.String()), []byte(v.Rewards.String()), []byte(fmt.Sprint(v.Jailed, v.LastPower))))
	}
	return trace
}

func TestReplica(t *testing.T) {
	common.RunCases(t, func(c common.Case) (common.T, common.T) {
		var k repCase
		if err := json.Unmarshal(c.Raw, &k); err != nil {
			panic(err)
		}
		if k.Replicas < 2 {
			k.Replicas = 2
		}
		traces := make([][]int64, k.Replicas)
		var wg sync.WaitGroup
		var perr interface{}
		for r := 0; r < k.Replicas; r++ {
			wg.Add(1)
			go func(r int) {
				defer wg.Done()
				defer func() {
					if e := recover(); e != nil {
						perr = e
					}
				}()
				traces[r] = runReplica(t, k)
			}(r)
		}
		wg.Wait()
		if perr != nil {
			panic(perr)
		}
		obs := make([]common.T, len(traces))
		for i, tr := range traces {
			obs[i] = common.Ints(tr)
		}
		// the model only states that all replicas equal the first one; its input is the digest list itself
		return common.L(1, obs), obs
	})
}

// ---------------------------------------------------------------- lint part

type lintCase struct {
	Expected []string `json:"expected"`
}

func repoDir() string {
	if d := os.Getenv("VERIF_REPO"); d != "" {
		return d
	}
	return "/repo"
}

// mapIdents collects identifiers that certainly denote maps inside fn: parameters / vars with a map type,
// and variables assigned from make(map...) or a map composite literal.
func mapIdents(fn *ast.FuncDecl) map[string]bool {
	m := map[string]bool{}
	isMapType := func(e ast.Expr) bool { _, ok := e.(*ast.MapType); return ok }
	if fn.Type.Params != nil {
		for _, f := range fn.Type.Params.List {
			if isMapType(f.Type) {
				for _, n := range f.Names {
					m[n.Name] = true
				}
			}
		}
	}
	ast.Inspect(fn, func(n ast.Node) bool {
		switch x := n.(type) {
		case *ast.AssignStmt:
			for i, rhs := range x.Rhs {
				if i >= len(x.Lhs) {
					break
				}
				id, ok := x.Lhs[i].(*ast.Ident)
				if !ok {
					continue
				}
				switch r := rhs.(type) {
				case *ast.CallExpr:
					if f, ok := r.Fun.(*ast.Ident); ok && f.Name == "make" && len(r.Args) > 0 && isMapType(r.Args[0]) {
						m[id.Name] = true
					}
				case *ast.CompositeLit:
					if isMapType(r.Type) {
						m[id.Name] = true
					}
				}
			}
		case *ast.ValueSpec:
			if x.Type != nil && isMapType(x.Type) {
				for _, n := range x.Names {
					m[n.Name] = true
				}
			}
		}
		return true
	})
	return m
}

func scan() []string {
	root := filepath.Join(repoDir(), "x", "ccv")
	var out []string
	fset := token.NewFileSet()
	_ = filepath.Walk(root, func(p string, info os.FileInfo, err error) error {
		if err != nil || info.IsDir() || !strings.HasSuffix(p, ".go") || strings.HasSuffix(p, "_test.go") ||
			strings.HasSuffix(p, ".pb.go") || strings.HasSuffix(p, ".pb.gw.go") || strings.Contains(p, "/simulation/") ||
			strings.Contains(p, "/client/cli/") || strings.Contains(p, "/migrations/") {
			return nil
		}
		f, err := parser.ParseFile(fset, p, nil, 0)
		if err != nil {
			out = append(out, "parse-error:"+p)
			return nil
		}
		rel, _ := filepath.Rel(repoDir(), p)
		for _, imp := range f.Imports {
			switch strings.Trim(imp.Path.Value, `"`) {
			case "math/rand", "math/rand/v2", "unsafe", "crypto/rand":
				out = append(out, "import:"+strings.Trim(imp.Path.Value, `"`)+":"+rel)
			}
		}
		for _, d := range f.Decls {
			fn, ok := d.(*ast.FuncDecl)
			if !ok || fn.Body == nil {
				continue
			}
			maps := mapIdents(fn)
			ast.Inspect(fn.Body, func(n ast.Node) bool {
				switch x := n.(type) {
				case *ast.RangeStmt:
					if id, ok := x.X.(*ast.Ident); ok && maps[id.Name] {
						out = append(out, "maprange:"+rel+":"+fn.Name.Name)
					}
				case *ast.GoStmt:
					out = append(out, "go:"+rel+":"+fn.Name.Name)
				case *ast.SelectStmt:
					out = append(out, "select:"+rel+":"+fn.Name.Name)
				case *ast.CallExpr:
					if sel, ok := x.Fun.(*ast.SelectorExpr); ok {
						if pk, ok := sel.X.(*ast.Ident); ok && pk.Name == "time" && (sel.Sel.Name == "Now" || sel.Sel.Name == "Since" || sel.Sel.Name == "Until") {
							out = append(out, "wallclock:"+rel+":"+fn.Name.Name)
						}
					}
					for _, a := range x.Args {
						if bl, ok := a.(*ast.BasicLit); ok && bl.Kind == token.STRING && strings.Contains(bl.Value, "%p") {
							out = append(out, "percent-p:"+rel+":"+fn.Name.Name)
						}
					}
				}
				return true
			})
		}
		return nil
	})
	sort.Strings(out)
	return out
}

func crc(s string) int64 { return int64(crc32.ChecksumIEEE([]byte(s))) }

func TestLint(t *testing.T) {
	common.RunCases(t, func(c common.Case) (common.T, common.T) {
		var k lintCase
		if err := json.Unmarshal(c.Raw, &k); err != nil {
			panic(err)
		}
		found := scan()
		exp := append([]string{}, k.Expected...)
		sort.Strings(exp)
		for _, s := range found {
			fmt.Fprintf(os.Stderr, "lint-site %s\n", s)
		}
		enc := func(l []string) common.T {
			out := make([]common.T, len(l))
			for i, s := range l {
				out[i] = crc(s)
			}
			return out
		}
		return common.L(2, enc(exp)), enc(found)
	})
}
