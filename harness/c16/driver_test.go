package c16

// Correspondence driver for C16 (reward pipeline).  One case = a provider (real provider keeper, message
// server, module BeginBlock, real transfer middleware provider.NewIBCMiddleware around a stub ICS-20 app)
// plus nc consumer chains (real consumer keeper, module EndBlock -> EndBlockRD), connected by the driver's
// relay of the transfers the consumer keepers actually produced.  Bank, x/distribution and the ICS-20
// keeper are the store-backed fakes of fakes_test.go.

import (
	"crypto/sha256"
	"encoding/json"
	"errors"
	"fmt"
	"math/big"
	"sort"
	"strings"
	"testing"

	dbm "github.com/cosmos/cosmos-db"

	transfertypes "github.com/cosmos/ibc-go/v10/modules/apps/transfer/types"
	clienttypes "github.com/cosmos/ibc-go/v10/modules/core/02-client/types"
	channeltypes "github.com/cosmos/ibc-go/v10/modules/core/04-channel/types"
	"github.com/cosmos/ibc-go/v10/modules/core/exported"

	"cosmossdk.io/log"
	"cosmossdk.io/math"
	"cosmossdk.io/store"
	"cosmossdk.io/store/metrics"
	storetypes "cosmossdk.io/store/types"

	"github.com/cosmos/cosmos-sdk/codec"
	"github.com/cosmos/cosmos-sdk/codec/address"
	codectypes "github.com/cosmos/cosmos-sdk/codec/types"
	cryptocodec "github.com/cosmos/cosmos-sdk/crypto/codec"
	sdk "github.com/cosmos/cosmos-sdk/types"
	authtypes "github.com/cosmos/cosmos-sdk/x/auth/types"
	distrtypes "github.com/cosmos/cosmos-sdk/x/distribution/types"
	govkeeper "github.com/cosmos/cosmos-sdk/x/gov/keeper"
	govtypes "github.com/cosmos/cosmos-sdk/x/gov/types"
	paramstypes "github.com/cosmos/cosmos-sdk/x/params/types"
	slashingtypes "github.com/cosmos/cosmos-sdk/x/slashing/types"

	tmproto "github.com/cometbft/cometbft/proto/tendermint/types"

	"verifharness/common"

	consumer "github.com/cosmos/interchain-security/v7/x/ccv/consumer"
	consumerkeeper "github.com/cosmos/interchain-security/v7/x/ccv/consumer/keeper"
	consumertypes "github.com/cosmos/interchain-security/v7/x/ccv/consumer/types"
	provider "github.com/cosmos/interchain-security/v7/x/ccv/provider"
	providerkeeper "github.com/cosmos/interchain-security/v7/x/ccv/provider/keeper"
	providertypes "github.com/cosmos/interchain-security/v7/x/ccv/provider/types"
	ccvtypes "github.com/cosmos/interchain-security/v7/x/ccv/types"
)

type T = common.T

const consChan = "channel-1" // transfer channel id on every consumer chain

func provChan(k int) string { return fmt.Sprintf("channel-%d", 10+k) }

func ibcDenom(path string) string {
	h := sha256.Sum256([]byte(path))
	return "ibc/" + strings.ToUpper(fmt.Sprintf("%x", h[:]))
}

// ------------------------------------------------------------------ environments

func newStores(tb testing.TB) (storetypes.CommitMultiStore, *storetypes.KVStoreKey, *storetypes.MemoryStoreKey, *storetypes.KVStoreKey) {
	storeKey := storetypes.NewKVStoreKey(ccvtypes.StoreKey)
	memStoreKey := storetypes.NewMemoryStoreKey(ccvtypes.MemStoreKey)
	worldKey := storetypes.NewKVStoreKey("fakeworld")
	db := dbm.NewMemDB()
	ms := store.NewCommitMultiStore(db, log.NewNopLogger(), metrics.NewNoOpMetrics())
	ms.MountStoreWithDB(storeKey, storetypes.StoreTypeIAVL, db)
	ms.MountStoreWithDB(worldKey, storetypes.StoreTypeIAVL, db)
	ms.MountStoreWithDB(memStoreKey, storetypes.StoreTypeMemory, nil)
	if err := ms.LoadLatestVersion(); err != nil {
		tb.Fatal(err)
	}
	return ms, storeKey, memStoreKey, worldKey
}

type provEnv struct {
	*common.ProviderEnv
	sw sworld
	mw provider.IBCMiddleware
	ap *stubApp
}

func newProvEnv(tb testing.TB, w *common.World, f *faults) *provEnv {
	ms, storeKey, memStoreKey, worldKey := newStores(tb)
	registry := codectypes.NewInterfaceRegistry()
	cryptocodec.RegisterInterfaces(registry)
	cdc := codec.NewProtoCodec(registry)
	subspace := paramstypes.NewSubspace(cdc, codec.NewLegacyAmino(), storeKey, memStoreKey, paramstypes.ModuleName)
	ctx := sdk.NewContext(ms, tmproto.Header{ChainID: "provider", Height: 1, Time: common.T0}, false, log.NewNopLogger())
	authority := authtypes.NewModuleAddress(govtypes.ModuleName).String()
	sw := sworld{key: worldKey, f: f}
	sl := common.FakeSlashing{W: w}
	k := providerkeeper.NewKeeper(cdc, storeKey, subspace,
		common.FakeChannel{W: w}, common.FakeConnection{W: w}, common.FakeClient{W: w},
		sstaking{FakeStaking: common.FakeStaking{W: w}, f: f}, sl, common.FakeAccount{W: w}, sdistr{sw}, sbank{sw},
		govkeeper.Keeper{}, authority,
		address.NewBech32Codec("cosmosvaloper"), address.NewBech32Codec("cosmosvalcons"),
		authtypes.FeeCollectorName)
	e := &common.ProviderEnv{TB: tb, W: w, StoreKey: storeKey, Ctx: ctx, K: &k, Authority: authority, Slashing: sl}
	e.Msg = providerkeeper.NewMsgServerImpl(e.K)
	e.Module = provider.NewAppModule(e.K, subspace, storeKey)
	ap := &stubApp{sw: sw}
	return &provEnv{ProviderEnv: e, sw: sw, ap: ap, mw: provider.NewIBCMiddleware(ap, k)}
}

type consEnv struct {
	w      *common.World
	ctx    sdk.Context
	k      *consumerkeeper.Keeper
	module consumer.AppModule
	sw     sworld
	xf     stransfer
	f      *faults
	params ccvtypes.ConsumerParams
}

func newConsEnv(tb testing.TB, chainID string) *consEnv {
	ms, storeKey, memStoreKey, worldKey := newStores(tb)
	registry := codectypes.NewInterfaceRegistry()
	cryptocodec.RegisterInterfaces(registry)
	cdc := codec.NewProtoCodec(registry)
	subspace := paramstypes.NewSubspace(cdc, codec.NewLegacyAmino(), storeKey, memStoreKey, paramstypes.ModuleName)
	ctx := sdk.NewContext(ms, tmproto.Header{ChainID: chainID, Height: 1, Time: common.T0}, false, log.NewNopLogger())
	w := common.NewWorld(0)
	f := newFaults()
	sw := sworld{key: worldKey, f: f}
	sl := common.FakeSlashing{W: w, ConsumerSigning: map[string]slashingtypes.ValidatorSigningInfo{}}
	xf := stransfer{sw}
	k := consumerkeeper.NewKeeper(cdc, storeKey,
		common.FakeChannel{W: w}, common.FakeConnection{W: w}, common.FakeClient{W: w}, sl, sbank{sw}, common.FakeAccount{W: w},
		xf, common.FakeIBCCore{W: w},
		authtypes.FeeCollectorName, authtypes.NewModuleAddress(govtypes.ModuleName).String(),
		address.NewBech32Codec("consumervaloper"), address.NewBech32Codec("consumervalcons"))
	return &consEnv{w: w, ctx: ctx, k: &k, module: consumer.NewAppModule(k, subspace), sw: sw, xf: xf, f: f}
}

// stubApp stands for the ICS-20 transfer module below the provider middleware: on success it credits the
// receiver with the received voucher / unescrowed coin (denom computed as ICS-20 does) and returns a
// result acknowledgement; when told to fail it changes nothing and returns an error acknowledgement.
type stubApp struct {
	sw   sworld
	fail bool
}

// ics20Denom is the denom under which ibc-go v10's transfer keeper unescrows / mints a received token
// (keeper/relay.go OnRecvPacket), computed with ibc-go's own functions.
func ics20Denom(p channeltypes.Packet, denom string) string {
	d := transfertypes.ExtractDenomFromPath(denom)
	if d.HasPrefix(p.SourcePort, p.SourceChannel) {
		d.Trace = d.Trace[1:]
		return d.IBCDenom()
	}
	d.Trace = append([]transfertypes.Hop{transfertypes.NewHop(p.DestinationPort, p.DestinationChannel)}, d.Trace...)
	return d.IBCDenom()
}

// segs encodes a denom string for the model: "/"-separated segments, transfer = 1, channel-N = 1000+N,
// 07-tendermint-N = 2000+N, base-denom words = small numbers.
var baseSeg = map[string]int64{"stake": 10, "photon": 11, "ucons": 12, "ufoo": 13, "uusdc": 14, "uosmo": 15}

func segs(denom string) T {
	out := []T{}
	for _, w := range strings.Split(denom, "/") {
		var n int64
		switch {
		case w == "transfer":
			n = 1
		case strings.HasPrefix(w, "channel-"):
			fmt.Sscanf(w, "channel-%d", &n)
			n += 1000
		case strings.HasPrefix(w, "07-tendermint-"):
			fmt.Sscanf(w, "07-tendermint-%d", &n)
			n += 2000
		default:
			v, ok := baseSeg[w]
			if !ok {
				panic("unknown denom segment " + w)
			}
			n = v
		}
		out = append(out, n)
	}
	return out
}

func (a *stubApp) OnRecvPacket(ctx sdk.Context, _ string, p channeltypes.Packet, _ sdk.AccAddress) exported.Acknowledgement {
	if a.fail {
		return channeltypes.NewErrorAcknowledgement(errors.New("stub transfer failure"))
	}
	var d transfertypes.FungibleTokenPacketData
	if err := json.Unmarshal(p.GetData(), &d); err != nil {
		return channeltypes.NewErrorAcknowledgement(err)
	}
	amt, ok := new(big.Int).SetString(d.Amount, 10)
	if !ok {
		return channeltypes.NewErrorAcknowledgement(errors.New("bad amount"))
	}
	a.sw.addBal(ctx, d.Receiver, ics20Denom(p, d.Denom), amt)
	return channeltypes.NewResultAcknowledgement([]byte{1})
}

func (a *stubApp) OnChanOpenInit(sdk.Context, channeltypes.Order, []string, string, string, channeltypes.Counterparty, string) (string, error) {
	return "", nil
}

func (a *stubApp) OnChanOpenTry(sdk.Context, channeltypes.Order, []string, string, string, channeltypes.Counterparty, string) (string, error) {
	return "", nil
}
func (a *stubApp) OnChanOpenAck(sdk.Context, string, string, string, string) error { return nil }
func (a *stubApp) OnChanOpenConfirm(sdk.Context, string, string) error            { return nil }
func (a *stubApp) OnChanCloseInit(sdk.Context, string, string) error              { return nil }
func (a *stubApp) OnChanCloseConfirm(sdk.Context, string, string) error           { return nil }
func (a *stubApp) OnAcknowledgementPacket(sdk.Context, string, channeltypes.Packet, []byte, sdk.AccAddress) error {
	return nil
}

func (a *stubApp) OnTimeoutPacket(sdk.Context, string, channeltypes.Packet, sdk.AccAddress) error {
	return nil
}

// ------------------------------------------------------------------ case

type chainCfg struct {
	Frac   json.Number `json:"frac"`
	Bpdt   int64       `json:"bpdt"`
	Rd     []int       `json:"rd"`
	Prd    []int       `json:"prd"`
	Memo   int         `json:"memo"`
	ToPool int         `json:"to_pool"`
}

type kase struct {
	ID   int64   `json:"id"`
	NC   int     `json:"nc"`
	NV   int     `json:"nv"`
	Cons [][]int `json:"cons"` // [chain, client, ccv, active]
	Prov struct {
		Epochs     int64       `json:"epochs"`
		Bpe        int64       `json:"bpe"`
		Registered []int       `json:"registered"`
		MinRate    json.Number `json:"minrate"`
	} `json:"prov"`
	Chains []chainCfg        `json:"chains"`
	Ops    []json.RawMessage `json:"ops"`
}

func bigOf(n json.Number) *big.Int {
	b, ok := new(big.Int).SetString(n.String(), 10)
	if !ok {
		panic("bad integer " + n.String())
	}
	return b
}

func decOf(raw *big.Int) math.LegacyDec { return math.LegacyNewDecFromBigIntWithPrec(raw, 18) }

// generic op argument access
type args []interface{}

func (a args) i(n int) int          { return int(a.b(n).Int64()) }
func (a args) b(n int) *big.Int     { return bigOf(a[n].(json.Number)) }
func (a args) l(n int) args         { return args(a[n].([]interface{})) }
func (a args) ints(n int) []int {
	var out []int
	for j := range a.l(n) {
		out = append(out, a.l(n).i(j))
	}
	return out
}

type drv struct {
	k      kase
	w      *common.World
	f      *faults
	p      *provEnv
	cs     []*consEnv
	denoms []string       // provider denom universe, sorted: index = model denom
	rank   map[string]int // denom string -> model denom
	height int64
	pool   string
	other  string
	cden   [][]string // per chain: consumer denoms [ucons, ufoo, voucher(stake), voucher(usdc via provider)]
	syms   []int
}

// provider denom symbol of the case -> full trace path ("" path = native) of the denom
func (d *drv) ppath(sym int) string {
	switch {
	case sym == 0:
		return "stake"
	case sym == 1:
		return "photon"
	case sym == 2: // third-chain token the provider received over its channel-7 (multi-hop when a consumer returns it)
		return "transfer/channel-7/uusdc"
	case sym == 3: // the same over an IBC v2 "channel" named by a client id
		return "transfer/07-tendermint-3/uusdc"
	case sym >= 30: // third-chain token the consumer on provider channel (sym-30) received over its channel-9
		return "transfer/" + provChan(sym-30) + "/transfer/channel-9/uosmo"
	default:
		k := (sym - 10) / 2
		base := "ucons"
		if (sym-10)%2 == 1 {
			base = "ufoo"
		}
		return "transfer/" + provChan(k) + "/" + base
	}
}

// provider denom symbol of the case -> denom string held by the bank
func (d *drv) psym(sym int) string {
	p := d.ppath(sym)
	if !strings.Contains(p, "/") {
		return p
	}
	return ibcDenom(p)
}

func (d *drv) prank(sym int) int64 {
	r, ok := d.rank[d.psym(sym)]
	if !ok {
		panic(fmt.Sprintf("denom symbol %d outside the universe", sym))
	}
	return int64(r)
}

func (d *drv) pranks(syms []int) T {
	out := []T{}
	for _, s := range syms {
		out = append(out, d.prank(s))
	}
	return out
}

func operOf(w *common.World, v int) sdk.ValAddress {
	if v < len(w.Vals) {
		return w.Vals[v].Oper
	}
	b := make([]byte, 20)
	b[0], b[19] = byte(v+1), 0x66
	return sdk.ValAddress(b)
}

func (d *drv) valIdx(consAddr []byte) int64 {
	for i, v := range d.w.Vals {
		if string(v.ConsAddr()) == string(consAddr) {
			return int64(i)
		}
	}
	return -1
}

func cid(c int) string { return fmt.Sprint(c) }

func intsT(xs []int) T {
	out := []T{}
	for _, x := range xs {
		out = append(out, int64(x))
	}
	return out
}

func (d *drv) setup(tb testing.TB) {
	k := d.k
	d.w = common.NewWorld(k.NV)
	d.w.MinCommission = decOf(bigOf(k.Prov.MinRate))
	d.f = newFaults()
	d.p = newProvEnv(tb, d.w, d.f)
	params := providertypes.DefaultParams()
	params.BlocksPerEpoch = k.Prov.Bpe
	params.NumberOfEpochsToStartReceivingRewards = k.Prov.Epochs
	d.p.InitGenesis(params)
	d.p.K.SetParams(d.p.Ctx, params)
	d.height = 1
	d.pool = modAddr(providertypes.ConsumerRewardsPool)
	d.other = sdk.AccAddress([]byte("someoneelse000000001")).String()

	// denom universe
	syms := []int{0, 1, 2, 3}
	for c := 0; c < k.NC; c++ {
		syms = append(syms, 10+2*c, 11+2*c)
	}
	syms = append(syms, 10+2*k.NC)
	for c := 0; c <= k.NC; c++ {
		syms = append(syms, 30+c)
	}
	d.syms = syms
	for _, s := range syms {
		d.denoms = append(d.denoms, d.psym(s))
	}
	sort.Strings(d.denoms)
	d.rank = map[string]int{}
	for i, s := range d.denoms {
		d.rank[s] = i
	}

	// consumers on the provider; transfer channels channel-(10+k) over the consumer's client;
	// channel-(10+nc) over a client that belongs to no consumer
	for c := 0; c <= k.NC; c++ {
		cl := d.w.AddClient(fmt.Sprintf("cons%d-1", c), 10)
		conn := fmt.Sprintf("connection-%d", c)
		d.w.Connections[conn] = &common.Connection{ID: conn, ClientID: cl.ID}
		d.w.Channels[transfertypes.PortID+"/"+provChan(c)] = &common.Channel{Port: transfertypes.PortID, ID: provChan(c),
			State: channeltypes.OPEN, Ordering: channeltypes.UNORDERED, ConnectionID: conn,
			CpPort: transfertypes.PortID, CpID: consChan, Version: "ics20-1"}
		if c == k.NC {
			break
		}
		if got := d.p.K.FetchAndIncrementConsumerId(d.p.Ctx); got != cid(c) {
			panic("unexpected consumer id " + got)
		}
		fl := k.Cons[c]
		if fl[0] != 0 {
			d.p.K.SetConsumerChainId(d.p.Ctx, cid(c), fmt.Sprintf("cons%d-1", c))
		}
		if fl[1] != 0 {
			d.p.K.SetConsumerClientId(d.p.Ctx, cid(c), cl.ID)
		}
		if fl[2] != 0 {
			d.p.K.SetConsumerIdToChannelId(d.p.Ctx, cid(c), fmt.Sprintf("channel-%d", c))
		}
		if fl[3] != 0 {
			d.p.K.SetConsumerPhase(d.p.Ctx, cid(c), providertypes.CONSUMER_PHASE_LAUNCHED)
		} else {
			d.p.K.SetConsumerPhase(d.p.Ctx, cid(c), providertypes.CONSUMER_PHASE_STOPPED)
		}
	}
	for _, s := range k.Prov.Registered {
		d.p.K.SetConsumerRewardDenom(d.p.Ctx, d.psym(s))
	}

	// consumer chains
	for c := 0; c < k.NC; c++ {
		ce := newConsEnv(tb, fmt.Sprintf("cons%d-1", c))
		cfg := k.Chains[c]
		d.cden = append(d.cden, []string{"ucons", "ufoo", ibcDenom("transfer/" + consChan + "/stake"),
			ibcDenom("transfer/" + consChan + "/transfer/channel-7/uusdc")})
		p := ccvtypes.DefaultParams()
		p.Enabled = true
		p.DistributionTransmissionChannel = consChan
		p.ProviderFeePoolAddrStr = d.pool
		if cfg.ToPool == 0 {
			p.ProviderFeePoolAddrStr = d.other
		}
		p.ConsumerId = cid(cfg.Memo)
		ce.params = p
		d.cs = append(d.cs, ce)
		d.setConsParams(c, bigOf(cfg.Frac), cfg.Bpdt, cfg.Rd, cfg.Prd)
		ce.w.Channels[transfertypes.PortID+"/"+consChan] = &common.Channel{Port: transfertypes.PortID, ID: consChan,
			State: channeltypes.OPEN, Ordering: channeltypes.UNORDERED, ConnectionID: "connection-0",
			CpPort: transfertypes.PortID, CpID: provChan(c), Version: "ics20-1"}
	}
}

func (d *drv) setConsParams(c int, frac *big.Int, bpdt int64, rd, prd []int) {
	ce := d.cs[c]
	p := ce.params
	p.ConsumerRedistributionFraction = decOf(frac).String()
	p.BlocksPerDistributionTransmission = bpdt
	p.RewardDenoms = nil
	for _, x := range rd {
		p.RewardDenoms = append(p.RewardDenoms, d.cden[c][x])
	}
	p.ProviderRewardDenoms = nil
	for _, x := range prd {
		if x == 3 {
			p.ProviderRewardDenoms = append(p.ProviderRewardDenoms, "transfer/channel-7/uusdc")
		} else {
			p.ProviderRewardDenoms = append(p.ProviderRewardDenoms, "stake")
		}
	}
	ce.params = p
	ce.k.SetParams(ce.ctx, p)
}

func allowedOf(rd, prd []int) T {
	out := []T{}
	for _, x := range rd {
		out = append(out, int64(x))
	}
	for _, x := range prd {
		if x == 3 {
			out = append(out, int64(3))
		} else {
			out = append(out, int64(2))
		}
	}
	return out
}

// ------------------------------------------------------------------ snapshots

func (d *drv) psnap() T {
	ctx := d.p.Ctx
	sw := d.p.sw
	row := func(f func(denom string) *big.Int) T {
		out := []T{}
		for _, dn := range d.denoms {
			out = append(out, f(dn))
		}
		return out
	}
	bank := []T{}
	for _, a := range []string{d.pool, modAddr(distrtypes.ModuleName), d.other} {
		a := a
		bank = append(bank, row(func(dn string) *big.Int { return sw.bal(ctx, a, dn) }))
	}
	cp := row(func(dn string) *big.Int { return sw.getInt(ctx, "cp|"+dn) })
	outst, comm := []T{}, []T{}
	for _, v := range d.w.Vals {
		op := v.Oper.String()
		outst = append(outst, row(func(dn string) *big.Int { return sw.getInt(ctx, "ou|"+op+"|"+dn) }))
		comm = append(comm, row(func(dn string) *big.Int { return sw.getInt(ctx, "co|"+op+"|"+dn) }))
	}
	alloc := []T{}
	for c := 0; c < d.k.NC; c++ {
		c := c
		alloc = append(alloc, row(func(dn string) *big.Int {
			a, err := d.p.K.GetConsumerRewardsAllocationByDenom(ctx, cid(c), dn)
			if err != nil {
				return big.NewInt(-1)
			}
			return a.Rewards.AmountOf(dn).BigInt()
		}))
	}
	reg := []T{}
	for _, dn := range d.p.K.GetAllConsumerRewardDenoms(ctx) {
		r, ok := d.rank[dn]
		if !ok {
			r = -1
		}
		reg = append(reg, int64(r))
	}
	// credits stored under a denom outside the universe (a denom no account holds), per consumer
	foreign := []T{}
	for c := 0; c < d.k.NC; c++ {
		pre := providertypes.ConsumerRewardsAllocationByDenomKey(cid(c), "")
		it := storetypes.KVStorePrefixIterator(ctx.KVStore(d.p.StoreKey), pre)
		n := int64(0)
		for ; it.Valid(); it.Next() {
			if _, ok := d.rank[string(it.Key()[len(pre):])]; !ok {
				n++
			}
		}
		it.Close()
		foreign = append(foreign, n)
	}
	return common.L(bank, cp, outst, comm, alloc, reg, foreign)
}

// the ICS-20 packet denom (full trace path) under which a consumer denom travels
func (d *drv) cwire(c int, denom string) string {
	switch denom {
	case d.cden[c][2]:
		return "transfer/" + consChan + "/stake"
	case d.cden[c][3]:
		return "transfer/" + consChan + "/transfer/channel-7/uusdc"
	}
	return denom
}

func (d *drv) cdenIdx(c int, denom string) int64 {
	for i, s := range d.cden[c] {
		if s == denom {
			return int64(i)
		}
	}
	return -1
}

func (d *drv) csnap(c int) T {
	ce := d.cs[c]
	row := func(addr string) T {
		out := []T{}
		for _, dn := range d.cden[c] {
			out = append(out, ce.sw.bal(ce.ctx, addr, dn))
		}
		return out
	}
	q := []T{}
	_, xs := ce.xf.queue(ce.ctx)
	for _, x := range xs {
		a, _ := new(big.Int).SetString(x.Amount, 10)
		q = append(q, common.L(d.cdenIdx(c, x.Denom), a))
	}
	return common.L(row(modAddr(authtypes.FeeCollectorName)), row(modAddr(consumertypes.ConsumerRedistributeName)),
		row(modAddr(consumertypes.ConsumerToSendToProviderName)), row(escrowAddr(consChan)),
		ce.k.GetLastTransmissionBlockHeight(ce.ctx).Height, q)
}

// ------------------------------------------------------------------ provider receive

// recv runs the real middleware's OnRecvPacket for a transfer that arrives on provider channel ch.
func (d *drv) recv(ch int, wireDenom string, amt *big.Int, sender, receiver, memo string, ackOK bool) {
	data := transfertypes.NewFungibleTokenPacketData(wireDenom, amt.String(), sender, receiver, memo)
	pkt := channeltypes.NewPacket(data.GetBytes(), 1, transfertypes.PortID, consChan, transfertypes.PortID, provChan(ch),
		clienttypes.ZeroHeight(), uint64(common.T0.UnixNano())+1e12)
	d.p.ap.fail = !ackOK
	// The middleware is run on the block context itself: whatever it writes although the wrapped
	// application failed is observed (IBC core would discard it together with the failed application state).
	ack := d.p.mw.OnRecvPacket(d.p.Ctx, "ics20-1", pkt, sdk.AccAddress([]byte("relayer0000000000001")))
	if ack.Success() != ackOK {
		panic("middleware changed the acknowledgement")
	}
}

func memoStr(m int) string {
	switch {
	case m == -1:
		return "consumer chain rewards distribution" // legacy, not JSON
	case m == -2:
		return `{"forward":{"receiver":"x"}}`
	default:
		s, err := ccvtypes.CreateTransferMemo(cid(m), fmt.Sprintf("cons%d-1", m))
		if err != nil {
			panic(err)
		}
		return s
	}
}

// ------------------------------------------------------------------ interpreter

func (d *drv) exec(raw json.RawMessage) (in T, entry T) {
	var a args
	dec := json.NewDecoder(strings.NewReader(string(raw)))
	dec.UseNumber()
	var gen []interface{}
	if err := dec.Decode(&gen); err != nil {
		panic(err)
	}
	a = args(gen)
	tag := a.i(0)
	rc := int64(0)
	chain := int64(-1)
	touchesProv := true
	ctx := d.p.Ctx
	switch tag {
	case 1: // PFund dsym amt
		d.p.sw.addBal(ctx, d.pool, d.psym(a.i(1)), a.b(2))
		in = common.L(1, d.prank(a.i(1)), a.b(2))
	case 2: // PCredit c dsym raw
		dn := d.psym(a.i(2))
		al, err := d.p.K.GetConsumerRewardsAllocationByDenom(ctx, cid(a.i(1)), dn)
		if err != nil {
			panic(err)
		}
		al.Rewards = al.Rewards.Add(sdk.NewDecCoinFromDec(dn, decOf(a.b(3))))
		if err := d.p.K.SetConsumerRewardsAllocationByDenom(ctx, cid(a.i(1)), dn, al); err != nil {
			panic(err)
		}
		in = common.L(2, a.i(1), d.prank(a.i(2)), a.b(3))
	case 3: // PReceive ch memo dkind amt ack to_pool
		ch, kind := a.i(1), a.i(3)
		if ch > d.k.NC && (kind == 2 || kind == 3 || kind == 5) {
			kind = 0 // unknown channel: no per-channel denoms
		}
		if ch == d.k.NC && kind == 3 {
			kind = 2
		}
		var wire string
		switch kind {
		case 0: // provider-native coin returned by the consumer
			wire = "transfer/" + consChan + "/stake"
		case 1:
			wire = "transfer/" + consChan + "/photon"
		case 2: // consumer-native tokens
			wire = "ucons"
		case 3:
			wire = "ufoo"
		case 4: // third-chain voucher that passed through the provider: a trace remains after the consumer's hop
			wire = "transfer/" + consChan + "/transfer/channel-7/uusdc"
		case 5: // third-chain token that reached the consumer directly
			wire = "transfer/channel-9/uosmo"
		default: // voucher whose remaining first hop is an IBC v2 client id
			wire = "transfer/" + consChan + "/transfer/07-tendermint-3/uusdc"
		}
		rcv := d.pool
		if a.i(6) == 0 {
			rcv = d.other
		}
		d.recv(ch, wire, a.b(4), "consumer1sender", rcv, memoStr(a.i(2)), a.i(5) != 0)
		in = common.L(3, ch, a.i(2), segs(wire), a.b(4), a.i(5), a.i(6))
	case 4: // PBegin h tax [[ownrate, removed]..] fail_tax fail_send fail_fund fail_alloc
		d.height = int64(a.i(1))
		hdr := d.p.Ctx.BlockHeader()
		hdr.Height = d.height
		hdr.Time = common.T0.Add(6e9 * 1)
		d.p.Ctx = d.p.Ctx.WithBlockHeader(hdr).WithEventManager(sdk.NewEventManager())
		d.f.Tax = decOf(a.b(2))
		staking := []T{}
		for v, e := range a.l(3) {
			ea := args(e.([]interface{}))
			val := d.w.Vals[v]
			val.Removed = ea.i(1) != 0
			d.f.OwnRate[val.Oper.String()] = decOf(ea.b(0))
			if !val.Removed {
				staking = append(staking, common.L(v, ea.b(0)))
			}
		}
		d.f.FailTax = a.i(4) != 0
		d.f.FailSend, d.f.FailFund, d.f.FailVal = map[string]bool{}, map[string]bool{}, map[string]bool{}
		for _, s := range a.ints(5) {
			d.f.FailSend[d.psym(s)] = true
		}
		for _, s := range a.ints(6) {
			d.f.FailFund[d.psym(s)] = true
		}
		fa := []T{}
		for _, v := range a.ints(7) {
			d.f.FailVal[d.w.Vals[v].Oper.String()] = true
			fa = append(fa, v)
		}
		if r := d.p.BeginBlock(); !r.OK() {
			rc = 2
		}
		d.f.FailTax = false
		d.f.FailSend, d.f.FailFund, d.f.FailVal = map[string]bool{}, map[string]bool{}, map[string]bool{}
		in = common.L(4, d.height, a.b(2), staking, a.i(4), d.pranks(a.ints(5)), d.pranks(a.ints(6)), fa)
	case 5: // PChangeDenoms auth adds rems
		auth := d.p.Authority
		if a.i(1) == 0 {
			auth = sdk.AccAddress([]byte("notgov00000000000001")).String()
		}
		msg := &providertypes.MsgChangeRewardDenoms{Authority: auth}
		for _, s := range a.ints(2) {
			msg.DenomsToAdd = append(msg.DenomsToAdd, d.psym(s))
		}
		for _, s := range a.ints(3) {
			msg.DenomsToRemove = append(msg.DenomsToRemove, d.psym(s))
		}
		if r := d.p.Deliver(msg); !r.OK() {
			rc = 1
		}
		in = common.L(5, a.i(1), d.pranks(a.ints(2)), d.pranks(a.ints(3)))
	case 6: // PSetAllow c dsyms
		var dl []string
		for _, s := range a.ints(2) {
			dl = append(dl, d.psym(s))
		}
		if err := d.p.K.UpdateAllowlistedRewardDenoms(ctx, cid(a.i(1)), dl); err != nil {
			panic(err)
		}
		in = common.L(6, a.i(1), d.pranks(a.ints(2)))
	case 7: // PSetCommission c v rate
		v := a.i(2)
		oper := operOf(d.w, v)
		known := v < len(d.w.Vals) && !d.w.Vals[v].Removed
		msg := &providertypes.MsgSetConsumerCommissionRate{ProviderAddr: oper.String(), ConsumerId: cid(a.i(1)),
			Rate: decOf(a.b(3)), Signer: sdk.AccAddress(oper).String()}
		if r := d.p.Deliver(msg); !r.OK() {
			rc = 1
		}
		in = common.L(7, a.i(1), v, a.b(3), common.B(known))
	case 8: // PSetValset c [[v,p,jh]..]
		var vs []providertypes.ConsensusValidator
		for _, e := range a.l(2) {
			ea := args(e.([]interface{}))
			vs = append(vs, providertypes.ConsensusValidator{ProviderConsAddr: d.w.Vals[ea.i(0)].ConsAddr(),
				Power: int64(ea.i(1)), JoinHeight: int64(ea.i(2))})
		}
		if err := d.p.K.SetConsumerValSet(ctx, cid(a.i(1)), vs); err != nil {
			panic(err)
		}
		in = common.L(8, a.i(1), d.storedSet(a.i(1)))
	case 9: // PEpoch c [[v,p]..] : CreateConsumerValidator for each, then SetConsumerValSet
		var vs []providertypes.ConsensusValidator
		vps := []T{}
		seen := map[int]bool{}
		for _, e := range a.l(2) {
			ea := args(e.([]interface{}))
			v := ea.i(0)
			if seen[v] || d.w.Vals[v].Removed {
				continue
			}
			seen[v] = true
			d.w.Vals[v].LastPower = int64(ea.i(1))
			cv, err := d.p.K.CreateConsumerValidator(ctx, cid(a.i(1)), d.w.Vals[v].Staking())
			if err != nil {
				panic(err)
			}
			vs = append(vs, cv)
		}
		// the model receives the (validator, power) list in store order
		sort.SliceStable(vs, func(i, j int) bool { return string(vs[i].ProviderConsAddr) < string(vs[j].ProviderConsAddr) })
		for _, cv := range vs {
			vps = append(vps, common.L(d.valIdx(cv.ProviderConsAddr), cv.Power))
		}
		if err := d.p.K.SetConsumerValSet(ctx, cid(a.i(1)), vs); err != nil {
			panic(err)
		}
		in = common.L(9, a.i(1), d.height, vps)
	case 10: // PSetParams epochs bpe
		p := d.p.K.GetParams(ctx)
		p.NumberOfEpochsToStartReceivingRewards = int64(a.i(1))
		p.BlocksPerEpoch = int64(a.i(2))
		d.p.K.SetParams(ctx, p)
		in = common.L(10, a.i(1), a.i(2))
	case 11: // CBlock k h fees chan_open fail
		c := a.i(1)
		ce := d.cs[c]
		chain, touchesProv = int64(c), false
		hdr := ce.ctx.BlockHeader()
		hdr.Height = int64(a.i(2))
		ce.ctx = ce.ctx.WithBlockHeader(hdr).WithEventManager(sdk.NewEventManager())
		fees := []T{}
		for _, e := range a.l(3) {
			ea := args(e.([]interface{}))
			ce.sw.addBal(ce.ctx, modAddr(authtypes.FeeCollectorName), d.cden[c][ea.i(0)], ea.b(1))
			fees = append(fees, common.L(ea.i(0), ea.b(1)))
		}
		chn := ce.w.Channels[transfertypes.PortID+"/"+consChan]
		switch a.i(4) {
		case 0:
			chn.State = channeltypes.CLOSED
		case 2:
			chn.State = channeltypes.TRYOPEN
		default:
			chn.State = channeltypes.OPEN
		}
		ce.f.FailXfer = map[string]bool{}
		for _, x := range a.ints(5) {
			ce.f.FailXfer[d.cden[c][x]] = true
		}
		func() {
			defer func() {
				if r := recover(); r != nil {
					rc = 2
				}
			}()
			if _, err := ce.module.EndBlock(ce.ctx); err != nil {
				rc = 2
			}
		}()
		ce.f.FailXfer = map[string]bool{}
		in = common.L(11, c, a.i(2), fees, common.B(a.i(4) == 1), intsT(a.ints(5)))
	case 12: // CSetParams k frac bpdt rd prd
		c := a.i(1)
		chain, touchesProv = int64(c), false
		d.setConsParams(c, a.b(2), int64(a.i(3)), a.ints(4), a.ints(5))
		in = common.L(12, c, a.b(2), a.i(3), allowedOf(a.ints(4), a.ints(5)))
	case 13, 14: // Relay k ack_ok / Timeout k
		c := a.i(1)
		ce := d.cs[c]
		chain = int64(c)
		ackOK := tag == 13 && a.i(2) != 0
		if tag == 14 {
			touchesProv = false
		}
		x, ok := ce.xf.pop(ce.ctx)
		if !ok {
			rc = 1
		} else {
			amt, _ := new(big.Int).SetString(x.Amount, 10)
			if tag == 13 {
				wire := d.cwire(c, x.Denom)
				d.recv(c, wire, amt, x.Sender, x.Receiver, x.Memo, ackOK)
			}
			if !ackOK {
				// ICS-20 refund on timeout / error acknowledgement
				if err := ce.sw.send(ce.ctx, escrowAddr(x.Channel), x.Sender, sdk.NewCoins(sdk.NewCoin(x.Denom, math.NewIntFromBigInt(amt)))); err != nil {
					panic(err)
				}
			}
		}
		if tag == 13 {
			in = common.L(13, c, common.B(ackOK))
		} else {
			in = common.L(14, c)
		}
	default:
		panic(fmt.Sprintf("unknown op %d", tag))
	}
	var ps, csn T = common.L(), common.L()
	if touchesProv {
		ps = d.psnap()
	}
	if chain >= 0 {
		csn = d.csnap(int(chain))
	}
	return in, common.L(rc, ps, chain, csn)
}

func (d *drv) storedSet(c int) T {
	vs, err := d.p.K.GetConsumerValSet(d.p.Ctx, cid(c))
	if err != nil {
		panic(err)
	}
	out := []T{}
	for _, v := range vs {
		out = append(out, common.L(d.valIdx(v.ProviderConsAddr), v.Power, v.JoinHeight))
	}
	return out
}

func (d *drv) header() T {
	k := d.k
	cons, chans := []T{}, []T{}
	for c := 0; c < k.NC; c++ {
		fl := k.Cons[c]
		cons = append(cons, common.L(c, fl[0], fl[1], fl[2], fl[3]))
		chans = append(chans, common.L(c, c))
	}
	chans = append(chans, common.L(k.NC, -1))
	chains := []T{}
	for c := 0; c < k.NC; c++ {
		cfg := k.Chains[c]
		dmap := []T{}
		for i, dn := range d.cden[c] {
			dmap = append(dmap, common.L(i, segs(d.cwire(c, dn))))
		}
		chains = append(chains, common.L(bigOf(cfg.Frac), cfg.Bpdt, allowedOf(cfg.Rd, cfg.Prd), common.L(0, 1, 2, 3),
			cfg.Memo, c, cfg.ToPool, dmap))
	}
	// denom table of the model: key (0 :: segments of a native denom, 1 :: segments of the hashed path) -> denom id
	dtab := []T{}
	for _, sy := range d.syms {
		pth := d.ppath(sy)
		tag := int64(1)
		if !strings.Contains(pth, "/") {
			tag = 0
		}
		key := append([]T{tag}, segs(pth).([]T)...)
		dtab = append(dtab, common.L(key, d.prank(sy)))
	}
	return common.L(len(d.denoms), k.NV, cons, chans,
		common.L(k.Prov.Epochs, k.Prov.Bpe, d.pranks(sortedSyms(d, k.Prov.Registered)), bigOf(k.Prov.MinRate)), chains, dtab)
}

// registered denoms in store (ascending string) order, as symbols
func sortedSyms(d *drv, syms []int) []int {
	out := append([]int{}, syms...)
	sort.SliceStable(out, func(i, j int) bool { return d.psym(out[i]) < d.psym(out[j]) })
	// drop duplicates
	var res []int
	for i, s := range out {
		if i == 0 || s != out[i-1] {
			res = append(res, s)
		}
	}
	return res
}

func TestDriver(t *testing.T) {
	common.RunCases(t, func(c common.Case) (T, T) {
		d := &drv{}
		dec := json.NewDecoder(strings.NewReader(string(c.Raw)))
		dec.UseNumber()
		if err := dec.Decode(&d.k); err != nil {
			panic(err)
		}
		d.setup(t)
		ops := []T{}
		init := []T{}
		for k := range d.cs {
			init = append(init, d.csnap(k))
		}
		obs := []T{common.L(0, d.psnap(), -1, init)}
		for _, raw := range d.k.Ops {
			in, e := d.exec(raw)
			ops = append(ops, in)
			obs = append(obs, e)
		}
		return common.L(d.header(), ops), obs
	})
}
