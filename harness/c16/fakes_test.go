package c16

// Store-backed fakes of bank, x/distribution and the ICS-20 transfer keeper.  Unlike the World fakes of
// harness/common these keep their state in a KV store of the same multistore as the keeper under test, so
// that ctx.CacheContext() / writeCache() in AllocateTokens and EndBlockRD roll their effects back exactly as
// the real modules' effects would be rolled back.  FundCommunityPool and AllocateTokensToValidator mirror
// x/distribution (community pool funds sit in the distribution module account; commission =
// tokens.MulDec(val.GetCommission())).  Faults are selected by denom / validator, not by call count.

import (
	"context"
	"encoding/json"
	"fmt"
	"math/big"
	"sort"
	"strings"

	transfertypes "github.com/cosmos/ibc-go/v10/modules/apps/transfer/types"

	"cosmossdk.io/math"
	storetypes "cosmossdk.io/store/types"

	sdk "github.com/cosmos/cosmos-sdk/types"
	authtypes "github.com/cosmos/cosmos-sdk/x/auth/types"
	distrtypes "github.com/cosmos/cosmos-sdk/x/distribution/types"
	stakingtypes "github.com/cosmos/cosmos-sdk/x/staking/types"

	"verifharness/common"
)

type faults struct {
	Tax      math.LegacyDec
	FailTax  bool
	FailSend map[string]bool // denom -> SendCoinsFromModuleToModule fails
	FailFund map[string]bool // denom -> FundCommunityPool fails
	FailVal  map[string]bool // operator address -> AllocateTokensToValidator fails
	FailXfer map[string]bool // denom -> ibc transfer fails
	OwnRate  map[string]math.LegacyDec
}

func newFaults() *faults {
	return &faults{Tax: math.LegacyNewDecWithPrec(2, 2), FailSend: map[string]bool{}, FailFund: map[string]bool{},
		FailVal: map[string]bool{}, FailXfer: map[string]bool{}, OwnRate: map[string]math.LegacyDec{}}
}

type sworld struct {
	key storetypes.StoreKey
	f   *faults
}

func (s sworld) store(ctx context.Context) storetypes.KVStore {
	return sdk.UnwrapSDKContext(ctx).KVStore(s.key)
}

func (s sworld) getInt(ctx context.Context, k string) *big.Int {
	bz := s.store(ctx).Get([]byte(k))
	n := new(big.Int)
	if bz != nil {
		n.SetString(string(bz), 10)
	}
	return n
}

func (s sworld) setInt(ctx context.Context, k string, n *big.Int) {
	if n.Sign() == 0 {
		s.store(ctx).Delete([]byte(k))
		return
	}
	s.store(ctx).Set([]byte(k), []byte(n.String()))
}

func balKey(addr, denom string) string { return "b|" + addr + "|" + denom }

func (s sworld) bal(ctx context.Context, addr, denom string) *big.Int {
	return s.getInt(ctx, balKey(addr, denom))
}

func (s sworld) addBal(ctx context.Context, addr, denom string, d *big.Int) {
	s.setInt(ctx, balKey(addr, denom), new(big.Int).Add(s.bal(ctx, addr, denom), d))
}

func (s sworld) allBal(ctx context.Context, addr string) sdk.Coins {
	it := storetypes.KVStorePrefixIterator(s.store(ctx), []byte("b|"+addr+"|"))
	defer it.Close()
	var cs []sdk.Coin
	for ; it.Valid(); it.Next() {
		denom := strings.TrimPrefix(string(it.Key()), "b|"+addr+"|")
		n, _ := new(big.Int).SetString(string(it.Value()), 10)
		cs = append(cs, sdk.NewCoin(denom, math.NewIntFromBigInt(n)))
	}
	return sdk.NewCoins(cs...)
}

// send moves coins between two addresses; insufficient funds is an error and changes nothing.
func (s sworld) send(ctx context.Context, from, to string, amt sdk.Coins) error {
	if !amt.IsValid() {
		return fmt.Errorf("invalid coins %s", amt)
	}
	for _, c := range amt {
		if s.bal(ctx, from, c.Denom).Cmp(c.Amount.BigInt()) < 0 {
			return fmt.Errorf("insufficient funds")
		}
	}
	for _, c := range amt {
		s.addBal(ctx, from, c.Denom, new(big.Int).Neg(c.Amount.BigInt()))
		s.addBal(ctx, to, c.Denom, c.Amount.BigInt())
	}
	return nil
}

func modAddr(name string) string { return authtypes.NewModuleAddress(name).String() }

// ---- bank
type sbank struct{ sworld }

func (b sbank) GetBalance(ctx context.Context, a sdk.AccAddress, denom string) sdk.Coin {
	return sdk.NewCoin(denom, math.NewIntFromBigInt(b.bal(ctx, a.String(), denom)))
}

func (b sbank) GetAllBalances(ctx context.Context, a sdk.AccAddress) sdk.Coins {
	return b.allBal(ctx, a.String())
}

func (b sbank) SendCoinsFromModuleToModule(ctx context.Context, from, to string, amt sdk.Coins) error {
	for _, c := range amt {
		if b.f.FailSend[c.Denom] {
			return fmt.Errorf("injected fault in bank.SendCoinsFromModuleToModule")
		}
	}
	return b.send(ctx, modAddr(from), modAddr(to), amt)
}

// ---- distribution
type sdistr struct{ sworld }

func (d sdistr) FundCommunityPool(ctx context.Context, amt sdk.Coins, sender sdk.AccAddress) error {
	for _, c := range amt {
		if d.f.FailFund[c.Denom] {
			return fmt.Errorf("injected fault in distribution.FundCommunityPool")
		}
	}
	if err := d.send(ctx, sender.String(), modAddr(distrtypes.ModuleName), amt); err != nil {
		return err
	}
	for _, c := range amt {
		k := "cp|" + c.Denom
		d.setInt(ctx, k, new(big.Int).Add(d.getInt(ctx, k), math.LegacyNewDecFromInt(c.Amount).BigInt()))
	}
	return nil
}

func (d sdistr) GetCommunityTax(context.Context) (math.LegacyDec, error) {
	if d.f.FailTax {
		return math.LegacyDec{}, fmt.Errorf("injected fault in distribution.GetCommunityTax")
	}
	return d.f.Tax, nil
}

func (d sdistr) AllocateTokensToValidator(ctx context.Context, val stakingtypes.ValidatorI, tokens sdk.DecCoins) error {
	if d.f.FailVal[val.GetOperator()] {
		return fmt.Errorf("injected fault in distribution.AllocateTokensToValidator")
	}
	commission := tokens.MulDec(val.GetCommission())
	_ = tokens.Sub(commission) // shared (current rewards); panics like the SDK if commission > tokens
	for _, c := range commission {
		k := "co|" + val.GetOperator() + "|" + c.Denom
		d.setInt(ctx, k, new(big.Int).Add(d.getInt(ctx, k), c.Amount.BigInt()))
	}
	for _, c := range tokens {
		k := "ou|" + val.GetOperator() + "|" + c.Denom
		d.setInt(ctx, k, new(big.Int).Add(d.getInt(ctx, k), c.Amount.BigInt()))
	}
	return nil
}

// ---- staking: the World's registry with per-validator own commission rates
type sstaking struct {
	common.FakeStaking
	f *faults
}

func (s sstaking) patch(v stakingtypes.Validator, err error) (stakingtypes.Validator, error) {
	if err != nil {
		return v, err
	}
	if r, ok := s.f.OwnRate[v.OperatorAddress]; ok {
		v.Commission.CommissionRates.Rate = r
	}
	return v, nil
}

func (s sstaking) GetValidatorByConsAddr(ctx context.Context, c sdk.ConsAddress) (stakingtypes.Validator, error) {
	return s.patch(s.FakeStaking.GetValidatorByConsAddr(ctx, c))
}

func (s sstaking) GetValidator(ctx context.Context, a sdk.ValAddress) (stakingtypes.Validator, error) {
	return s.patch(s.FakeStaking.GetValidator(ctx, a))
}

// ---- ICS-20 transfer keeper of a consumer chain: escrow + FIFO of sent transfers
type xfer struct {
	Denom, Amount, Sender, Receiver, Memo, Channel string
}

type stransfer struct{ sworld }

func escrowAddr(ch string) string { return "escrow/" + ch }

func (t stransfer) Transfer(ctx context.Context, msg *transfertypes.MsgTransfer) (*transfertypes.MsgTransferResponse, error) {
	if t.f.FailXfer[msg.Token.Denom] {
		return nil, fmt.Errorf("injected fault in transfer.Transfer")
	}
	if err := t.send(ctx, msg.Sender, escrowAddr(msg.SourceChannel), sdk.NewCoins(msg.Token)); err != nil {
		return nil, err
	}
	n := t.getInt(ctx, "qn")
	bz, _ := json.Marshal(xfer{Denom: msg.Token.Denom, Amount: msg.Token.Amount.String(), Sender: msg.Sender,
		Receiver: msg.Receiver, Memo: msg.Memo, Channel: msg.SourceChannel})
	t.store(ctx).Set([]byte(fmt.Sprintf("q|%012d", n.Int64())), bz)
	t.setInt(ctx, "qn", n.Add(n, big.NewInt(1)))
	return &transfertypes.MsgTransferResponse{Sequence: n.Uint64()}, nil
}

func (t stransfer) queue(ctx context.Context) (keys []string, out []xfer) {
	it := storetypes.KVStorePrefixIterator(t.store(ctx), []byte("q|"))
	defer it.Close()
	for ; it.Valid(); it.Next() {
		var x xfer
		if err := json.Unmarshal(it.Value(), &x); err != nil {
			panic(err)
		}
		keys = append(keys, string(it.Key()))
		out = append(out, x)
	}
	return
}

func (t stransfer) pop(ctx context.Context) (xfer, bool) {
	keys, q := t.queue(ctx)
	if len(q) == 0 {
		return xfer{}, false
	}
	t.store(ctx).Delete([]byte(keys[0]))
	return q[0], true
}

func sortedKeys(m map[string]int) []string {
	var ks []string
	for k := range m {
		ks = append(ks, k)
	}
	sort.Strings(ks)
	return ks
}
