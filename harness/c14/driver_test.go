package c14

// Correspondence driver for C14 (only owners, governance and the validator itself can change what is
// theirs).  A case is a history of messages from arbitrary senders; every message goes through
// env.Deliver (ValidateBasic, cached context, write on success) on the REAL provider msg server; the
// consumer-chain MsgUpdateParams goes through the real consumer msg server the same way.  After every
// action the driver records the result class, owner / Top_N / phase of every consumer, the validator
// records (opted-in, assigned keys, consumer-address index, commission rates), the provider and consumer
// params, the reward denoms, and whether the raw store changed although the message was rejected.

import (
	"encoding/base64"
	"encoding/json"
	"errors"
	"fmt"
	"sort"
	"strconv"
	"strings"
	"testing"
	"time"

	"cosmossdk.io/math"

	sdk "github.com/cosmos/cosmos-sdk/types"
	govtypes "github.com/cosmos/cosmos-sdk/x/gov/types"

	"verifharness/common"

	consumerkeeper "github.com/cosmos/interchain-security/v7/x/ccv/consumer/keeper"
	consumertypes "github.com/cosmos/interchain-security/v7/x/ccv/consumer/types"
	providertypes "github.com/cosmos/interchain-security/v7/x/ccv/provider/types"
	ccvtypes "github.com/cosmos/interchain-security/v7/x/ccv/types"
)

type kase struct {
	ID       int64             `json:"id"`
	NVals    int               `json:"nvals"`
	MinRate  int64             `json:"minrate"`
	Params0  int64             `json:"params0"`
	CParams0 int64             `json:"cparams0"`
	Actions  []json.RawMessage `json:"actions"`
}

type hist struct {
	w     *common.World
	env   *common.ProviderEnv
	cenv  *common.ConsumerEnv
	cmsg  consumertypes.MsgServer
	keys  map[string]int64 // ed25519 public key bytes -> key id
	addrs map[string]int64 // consensus address of the key -> key id
}

// ---------------------------------------------------------------- naming

// operator address of validator v (v >= nvals: well-formed operator of an unregistered validator)
func (h *hist) oper(v int64) sdk.ValAddress {
	if v >= 0 && int(v) < len(h.w.Vals) {
		return h.w.Vals[v].Oper
	}
	b := make([]byte, 20)
	b[0], b[19] = byte(v+1), 0x77
	return sdk.ValAddress(b)
}

func (h *hist) operStr(v int64) string {
	if v < 0 {
		return "cosmosvaloper1notanaddress"
	}
	return h.oper(v).String()
}

// account a: 0 = gov authority, 1..9 users, 10+v = the account with validator v's operator bytes,
// 20+a = the upper-case spelling of account a (same bytes, different string)
func (h *hist) acct(a int64) string {
	switch {
	case a == 0:
		return h.env.Authority
	case a >= 1 && a <= 9:
		b := make([]byte, 20)
		b[0], b[19] = byte(a), 0x55
		return sdk.AccAddress(b).String()
	case a >= 10 && a <= 19:
		return sdk.AccAddress(h.oper(a - 10)).String()
	case a >= 20 && a <= 39:
		return strings.ToUpper(h.acct(a - 20))
	}
	return "cosmos1notanaddress"
}

func (h *hist) acctID(s string) int64 {
	for a := int64(0); a < 40; a++ {
		if h.acct(a) == s {
			return a
		}
	}
	return -1
}

func cid(c int64) string {
	if c < 0 {
		return "x"
	}
	return strconv.FormatInt(c, 10)
}

func keyJSON(k int64) string {
	if k == 0 {
		return ""
	}
	return fmt.Sprintf(`{"@type":"/cosmos.crypto.ed25519.PubKey","key":"%s"}`,
		base64.StdEncoding.EncodeToString(common.Key(int(k)).PubKey().Bytes()))
}

func denom(d int64) string { return "denom" + strconv.FormatInt(d, 10) }

func denomID(s string) int64 {
	n, err := strconv.ParseInt(strings.TrimPrefix(s, "denom"), 10, 64)
	if err != nil {
		return -1
	}
	return n
}

func (h *hist) valOfCons(addr []byte) int64 {
	if v := h.w.ValByCons(sdk.ConsAddress(addr)); v != nil {
		return int64(v.Idx)
	}
	return -1
}

// ---------------------------------------------------------------- result classes

func classify(r common.Result) int64 {
	switch {
	case r.OK():
		return 0
	case r.Panic != nil:
		return 7
	case strings.HasPrefix(r.Err.Error(), "validate-basic"):
		return 1
	case errors.Is(r.Err, providertypes.ErrUnauthorized), errors.Is(r.Err, govtypes.ErrInvalidSigner):
		return 2
	case errors.Is(r.Err, providertypes.ErrInvalidPhase):
		return 3
	case errors.Is(r.Err, providertypes.ErrInvalidTransformToTopN), errors.Is(r.Err, providertypes.ErrInvalidTransformToOptIn),
		errors.Is(r.Err, providertypes.ErrCannotCreateTopNChain):
		return 4
	}
	return 5
}

// ---------------------------------------------------------------- observation

func sortPairs(l [][2]int64) common.T {
	sort.Slice(l, func(i, j int) bool {
		if l[i][0] != l[j][0] {
			return l[i][0] < l[j][0]
		}
		return l[i][1] < l[j][1]
	})
	out := make([]common.T, len(l))
	for i, p := range l {
		out[i] = common.L(p[0], p[1])
	}
	return out
}

func (h *hist) nCons() int64 {
	n, _ := h.env.K.GetConsumerId(h.env.Ctx)
	return int64(n)
}

func (h *hist) opted(c string) []int64 {
	out := []int64{}
	for _, a := range h.env.K.GetAllOptedIn(h.env.Ctx, c) {
		out = append(out, h.valOfCons(a.ToSdkConsAddr()))
	}
	sort.Slice(out, func(i, j int) bool { return out[i] < out[j] })
	return out
}

func (h *hist) keyID(ed []byte) int64 {
	if id, ok := h.keys[string(ed)]; ok {
		return id
	}
	return -1
}

func (h *hist) observeCons(c string) common.T {
	k, ctx := h.env.K, h.env.Ctx
	owner := int64(-1)
	if o, err := k.GetConsumerOwnerAddress(ctx, c); err == nil {
		owner = h.acctID(o)
	}
	topn := int64(-1)
	if ps, err := k.GetConsumerPowerShapingParameters(ctx, c); err == nil {
		topn = int64(ps.Top_N)
	}
	keys := [][2]int64{}
	for _, e := range k.GetAllValidatorConsumerPubKeys(ctx, &c) {
		keys = append(keys, [2]int64{h.valOfCons(e.ProviderAddr), h.keyID(e.ConsumerKey.GetEd25519())})
	}
	used := [][2]int64{}
	for _, e := range k.GetAllValidatorsByConsumerAddr(ctx, &c) {
		kid, ok := h.addrs[string(e.ConsumerAddr)]
		if !ok {
			kid = -1
		}
		used = append(used, [2]int64{kid, h.valOfCons(e.ProviderAddr)})
	}
	comm := [][2]int64{}
	for _, a := range k.GetAllCommissionRateValidators(ctx, c) {
		r, _ := k.GetConsumerCommissionRate(ctx, c, a)
		comm = append(comm, [2]int64{h.valOfCons(a.ToSdkConsAddr()), r.MulInt64(100).TruncateInt64()})
	}
	return common.L(int64(k.GetConsumerPhase(ctx, c)), owner, topn, common.Ints(h.opted(c)),
		sortPairs(keys), sortPairs(used), sortPairs(comm))
}

func (h *hist) paramsFP() int64 {
	p := h.env.K.GetParams(h.env.Ctx)
	fp := p.BlocksPerEpoch
	d := providertypes.DefaultParams()
	p.BlocksPerEpoch = d.BlocksPerEpoch
	if p.String() != d.String() {
		return -1
	}
	return fp
}

func (h *hist) cparamsFP() int64 {
	p := h.cenv.K.GetConsumerParams(h.cenv.Ctx)
	fp := p.BlocksPerDistributionTransmission
	d := ccvtypes.DefaultParams()
	p.BlocksPerDistributionTransmission = d.BlocksPerDistributionTransmission
	if p.String() != d.String() {
		return -1
	}
	return fp
}

func (h *hist) observe(class, bit int64) common.T {
	n := h.nCons()
	cons := make([]common.T, n)
	for i := int64(0); i < n; i++ {
		cons[i] = h.observeCons(cid(i))
	}
	den := []int64{}
	for _, d := range h.env.K.GetAllConsumerRewardDenoms(h.env.Ctx) {
		den = append(den, denomID(d))
	}
	sort.Slice(den, func(i, j int) bool { return den[i] < den[j] })
	return common.L(class, cons, h.paramsFP(), common.Ints(den), h.cparamsFP(), bit)
}

func sameStore(a, b map[string]string) bool { return len(common.DiffStores(a, b)) == 0 }

// ---------------------------------------------------------------- messages

func metadata() providertypes.ConsumerMetadata {
	return providertypes.ConsumerMetadata{Name: "c14", Description: "c14", Metadata: "c14"}
}

func (h *hist) initParams(ini int64) *providertypes.ConsumerInitializationParameters {
	if ini == 0 {
		return nil
	}
	ip := providertypes.DefaultConsumerInitializationParameters()
	if ini == 1 {
		ip.SpawnTime = h.env.Ctx.BlockTime().Add(5 * time.Second)
	}
	return &ip
}

func psp(topn int64) *providertypes.PowerShapingParameters {
	if topn == -1 {
		return nil
	}
	return &providertypes.PowerShapingParameters{Top_N: uint32(topn)}
}

func (h *hist) newOwner(z int64) string {
	switch {
	case z == -1:
		return ""
	case z == -2:
		return "  "
	case z < 0:
		return "cosmos1notanaddress"
	}
	return h.acct(z)
}

func denoms(l []int64) []string {
	out := make([]string, len(l))
	for i, d := range l {
		out[i] = denom(d)
	}
	return out
}

// deliverConsumer: baseapp semantics for the consumer chain's MsgUpdateParams
func (h *hist) deliverConsumer(msg *consumertypes.MsgUpdateParams) common.Result {
	var m sdk.Msg = msg
	if vb, ok := m.(sdk.HasValidateBasic); ok {
		if err := vb.ValidateBasic(); err != nil {
			return common.Result{Err: fmt.Errorf("validate-basic: %w", err)}
		}
	}
	return common.Tx(h.cenv.Ctx, func(ctx sdk.Context) error {
		_, err := h.cmsg.UpdateParams(ctx, msg)
		return err
	})
}

type action struct {
	tag  int64
	n    []int64
	add  []int64
	rem  []int64
	full []json.RawMessage
}

func parse(raw json.RawMessage) action {
	var parts []json.RawMessage
	if err := json.Unmarshal(raw, &parts); err != nil {
		panic(err)
	}
	a := action{full: parts}
	for i, p := range parts {
		var x int64
		if err := json.Unmarshal(p, &x); err == nil {
			a.n = append(a.n, x)
			continue
		}
		var l []int64
		if err := json.Unmarshal(p, &l); err != nil {
			panic(err)
		}
		a.n = append(a.n, 0)
		if i == 2 {
			a.add = l
		} else {
			a.rem = l
		}
	}
	a.tag = a.n[0]
	return a
}

// tick: next block dt later, BeginBlock; returns the environment ops the model needs (oracle)
func (h *hist) tick(dt time.Duration) (common.T, common.Result) {
	n := h.nCons()
	before := make([]providertypes.ConsumerPhase, n)
	optedBefore := make([][]int64, n)
	for i := int64(0); i < n; i++ {
		before[i] = h.env.K.GetConsumerPhase(h.env.Ctx, cid(i))
		optedBefore[i] = h.opted(cid(i))
	}
	h.env.NextBlock(dt)
	r := h.env.BeginBlock()
	ops := []common.T{}
	for i := int64(0); i < n; i++ {
		after := h.env.K.GetConsumerPhase(h.env.Ctx, cid(i))
		switch {
		case before[i] == providertypes.CONSUMER_PHASE_INITIALIZED && after == providertypes.CONSUMER_PHASE_LAUNCHED:
			had := map[int64]bool{}
			for _, v := range optedBefore[i] {
				had[v] = true
			}
			auto := []int64{}
			for _, v := range h.opted(cid(i)) {
				if !had[v] {
					auto = append(auto, v)
				}
			}
			ops = append(ops, common.L(1, i, 1, common.Ints(auto)))
		case before[i] == providertypes.CONSUMER_PHASE_INITIALIZED && after == providertypes.CONSUMER_PHASE_REGISTERED:
			ops = append(ops, common.L(1, i, 0, common.L()))
		case before[i] == providertypes.CONSUMER_PHASE_STOPPED && after == providertypes.CONSUMER_PHASE_DELETED:
			ops = append(ops, common.L(2, i))
		}
	}
	return ops, r
}

func TestDriver(t *testing.T) {
	common.RunCases(t, func(c common.Case) (common.T, common.T) {
		var k kase
		if err := json.Unmarshal(c.Raw, &k); err != nil {
			panic(err)
		}
		w := common.NewWorld(k.NVals)
		w.MinCommission = math.LegacyNewDecWithPrec(k.MinRate, 2)
		env := common.NewProviderEnv(t, w)
		params := providertypes.DefaultParams()
		params.BlocksPerEpoch = k.Params0
		env.InitGenesis(params)
		cenv := common.NewConsumerEnv(t, common.NewWorld(0), "consumer-1")
		cp := ccvtypes.DefaultParams()
		cp.BlocksPerDistributionTransmission = k.CParams0
		cenv.K.SetParams(cenv.Ctx, cp)
		h := &hist{w: w, env: env, cenv: cenv, cmsg: consumerkeeper.NewMsgServerImpl(cenv.K), keys: map[string]int64{}, addrs: map[string]int64{}}
		for _, id := range []int{1, 2, 3, 4, 5, 6, 7, 8, 9, 10, 11, 12, 1000, 1001, 1002, 1003, 1004, 1005, 1006, 1007, 1008, 1009, 1010, 1011} {
			pk := common.Key(id).PubKey()
			h.keys[string(pk.Bytes())] = int64(id)
			h.addrs[string(pk.Address())] = int64(id)
		}

		input, obs := []common.T{}, []common.T{}
		for _, raw := range k.Actions {
			a := parse(raw)
			n := a.n
			pre := env.DumpStore()
			cpre := cenv.DumpStore()
			var r common.Result
			var in common.T
			switch a.tag {
			case 1: // Create [1, sender, topn, ini]
				in = common.L(1, n[1], n[2], n[3])
				r = env.Deliver(&providertypes.MsgCreateConsumer{Submitter: h.acct(n[1]), ChainId: "c14-1", Metadata: metadata(),
					InitializationParameters: h.initParams(n[3]), PowerShapingParameters: psp(n[2])})
			case 2: // Update [2, c, sender, newowner, topn, ini]
				in = common.L(2, n[1], n[2], n[3], n[4], n[5])
				r = env.Deliver(&providertypes.MsgUpdateConsumer{Owner: h.acct(n[2]), ConsumerId: cid(n[1]), NewOwnerAddress: h.newOwner(n[3]),
					InitializationParameters: h.initParams(n[5]), PowerShapingParameters: psp(n[4])})
			case 3: // Remove [3, c, sender]
				in = common.L(3, n[1], n[2])
				r = env.Deliver(&providertypes.MsgRemoveConsumer{Owner: h.acct(n[2]), ConsumerId: cid(n[1])})
			case 4: // UpdateParams [4, authority, p]
				in = common.L(4, n[1], n[2])
				p := providertypes.DefaultParams()
				p.BlocksPerEpoch = n[2]
				r = env.Deliver(&providertypes.MsgUpdateParams{Authority: h.acct(n[1]), Params: p})
			case 5: // ChangeDenoms [5, authority, [add], [rem]]
				in = common.L(5, n[1], common.Ints(a.add), common.Ints(a.rem))
				r = env.Deliver(&providertypes.MsgChangeRewardDenoms{Authority: h.acct(n[1]), DenomsToAdd: denoms(a.add), DenomsToRemove: denoms(a.rem)})
			case 6: // OptIn [6, c, v, signer, key]
				in = common.L(6, n[1], n[2], n[3], n[4])
				r = env.Deliver(&providertypes.MsgOptIn{ConsumerId: cid(n[1]), ProviderAddr: h.operStr(n[2]), Signer: h.acct(n[3]), ConsumerKey: keyJSON(n[4])})
			case 7: // OptOut [7, c, v, signer] + oracle: last power < minimum power in Top N
				below := int64(0)
				if n[2] >= 0 && int(n[2]) < len(w.Vals) {
					if m, found := env.K.GetMinimumPowerInTopN(env.Ctx, cid(n[1])); found && w.Vals[n[2]].LastPower < m {
						below = 1
					}
				}
				in = common.L(7, n[1], n[2], n[3], below)
				r = env.Deliver(&providertypes.MsgOptOut{ConsumerId: cid(n[1]), ProviderAddr: h.operStr(n[2]), Signer: h.acct(n[3])})
			case 8: // AssignKey [8, c, v, signer, key]
				in = common.L(8, n[1], n[2], n[3], n[4])
				r = env.Deliver(&providertypes.MsgAssignConsumerKey{ConsumerId: cid(n[1]), ProviderAddr: h.operStr(n[2]), Signer: h.acct(n[3]), ConsumerKey: keyJSON(n[4])})
			case 9: // SetCommission [9, c, v, signer, rate percent]
				in = common.L(9, n[1], n[2], n[3], n[4])
				r = env.Deliver(&providertypes.MsgSetConsumerCommissionRate{ConsumerId: cid(n[1]), ProviderAddr: h.operStr(n[2]), Signer: h.acct(n[3]),
					Rate: math.LegacyNewDecWithPrec(n[4], 2)})
			case 10: // Tick [10, dt seconds]: environment
				ops, br := h.tick(time.Duration(n[1]) * time.Second)
				in = common.L(10, ops)
				r = br
			case 11: // consumer chain UpdateParams [11, authority, p]
				in = common.L(11, n[1], n[2])
				p := ccvtypes.DefaultParams()
				p.BlocksPerDistributionTransmission = n[2]
				r = h.deliverConsumer(&consumertypes.MsgUpdateParams{Authority: h.acct(n[1]), Params: p})
			default:
				panic("bad action tag")
			}
			class := classify(r)
			bit := int64(0)
			if class != 0 && a.tag != 10 && (!sameStore(pre, env.DumpStore()) || !sameStore(cpre, cenv.DumpStore())) {
				bit = 1
			}
			input = append(input, in)
			obs = append(obs, h.observe(class, bit))
		}
		return common.L(common.L(int64(k.NVals), k.MinRate, k.Params0, k.CParams0), input), obs
	})
}
