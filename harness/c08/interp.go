// Package c08 holds the history interpreter shared by the C08 (slash handling) and C09 (throttle)
// provider-side correspondence drivers: it executes a generated history on the REAL provider keeper /
// module / IBC callback over the fake World and returns the model inputs (actions + oracle values
// observed at each step) and the implementation's observations for Model/Slash.v and Model/Throttle.v.
package c08

import (
	"encoding/base64"
	"encoding/json"
	"fmt"
	"sort"
	"sync"
	"testing"
	"time"

	clienttypes "github.com/cosmos/ibc-go/v10/modules/core/02-client/types"
	channeltypes "github.com/cosmos/ibc-go/v10/modules/core/04-channel/types"

	"cosmossdk.io/math"

	sdk "github.com/cosmos/cosmos-sdk/types"
	stakingtypes "github.com/cosmos/cosmos-sdk/x/staking/types"

	abci "github.com/cometbft/cometbft/abci/types"

	"verifharness/common"

	providertypes "github.com/cosmos/interchain-security/v7/x/ccv/provider/types"
	ccvtypes "github.com/cosmos/interchain-security/v7/x/ccv/types"
)

type ConsSpec struct {
	Direct   int       `json:"direct"`   // 1: created by direct setters (no client, never receives VSC packets)
	OptIn    []int     `json:"optin"`    // validators opted in before launch (real consumers)
	Keys     [][]int   `json:"keys"`     // [validator, key number] consumer keys assigned at opt-in
	DFrac    string    `json:"dfrac"`    // downtime slash fraction
	DJailNs  int64     `json:"djail_ns"` // downtime jail duration
	NoParams int       `json:"noparams"` // direct only: no infraction parameters stored
	Phase    int32     `json:"phase"`    // direct only
	Set      []int64   `json:"set"`      // direct only: stored validator set (validator ids or 2000+key)
	NoHeight int       `json:"noheight"` // direct only: init chain height not set
}

type Kase struct {
	ID       int64      `json:"id"`
	Pows     []int64    `json:"pows"`
	Frac     string     `json:"frac"`
	PeriodNs int64      `json:"period_ns"`
	Cons     []ConsSpec `json:"cons"`
	Acts     [][]int64  `json:"acts"`
}

// Out is everything the two drivers need.
type Out struct {
	SlashIn, SlashObs common.T
	ThrIn, ThrObs     common.T
}

func KeyJSON(n int) string {
	return fmt.Sprintf(`{"@type":"/cosmos.crypto.ed25519.PubKey","key":"%s"}`,
		base64.StdEncoding.EncodeToString(common.Key(n).PubKey().Bytes()))
}

func initParams(spawn time.Time) *providertypes.ConsumerInitializationParameters {
	return &providertypes.ConsumerInitializationParameters{
		InitialHeight:                     clienttypes.NewHeight(1, 5),
		GenesisHash:                       []byte("gen_hash"),
		BinaryHash:                        []byte("bin_hash"),
		SpawnTime:                         spawn,
		ConsumerRedistributionFraction:    ccvtypes.DefaultConsumerRedistributeFrac,
		BlocksPerDistributionTransmission: ccvtypes.DefaultBlocksPerDistributionTransmission,
		HistoricalEntries:                 ccvtypes.DefaultHistoricalEntries,
		CcvTimeoutPeriod:                  ccvtypes.DefaultCCVTimeoutPeriod,
		TransferTimeoutPeriod:             ccvtypes.DefaultTransferTimeoutPeriod,
		UnbondingPeriod:                   ccvtypes.DefaultConsumerUnbondingPeriod,
	}
}

// address code = key number: validator i's provider key is Key(1000+i); other keys are Key(k), k < 400.
var (
	addrOnce sync.Once
	addrTab  map[int64][]byte
	addrRev  map[string]int64
	bechRev  map[string]int64
)

func initAddrs() {
	addrTab, addrRev, bechRev = map[int64][]byte{}, map[string]int64{}, map[string]int64{}
	add := func(code int64) {
		a := common.Key(int(code)).PubKey().Address()
		addrTab[code] = a
		addrRev[string(a)] = code
		ca := providertypes.NewConsumerConsAddress(sdk.ConsAddress(a))
		bechRev[ca.String()] = code
	}
	for c := int64(0); c < 400; c++ {
		add(c)
	}
	for c := int64(1000); c < 1040; c++ {
		add(c)
	}
}

func addrOf(code int64) []byte {
	addrOnce.Do(initAddrs)
	return addrTab[code]
}

type interp struct {
	w      *common.World
	env    *common.ProviderEnv
	k      Kase
	ackStr map[string]int64 // bech32 consumer cons address -> address code
	ncons  int
	chanOf []string

	slashOps, slashObs []common.T
	thrOps, thrObs     []common.T
	lastCons           []string
}

func rel(t time.Time) int64 {
	if t.IsZero() {
		return 0
	}
	return t.UnixNano() - common.T0.UnixNano()
}

func (it *interp) rows(withLog bool) common.T {
	out := make([]common.T, len(it.w.Vals))
	for i, v := range it.w.Vals {
		log := []common.T{}
		if withLog {
			for _, r := range v.SlashLog {
				log = append(log, common.L(r.Height, r.Power, math.LegacyMustNewDecFromStr(r.Fraction).BigInt().Int64()))
			}
		}
		out[i] = common.L(common.B(!v.Removed), int64(v.Status), common.B(v.Jailed), common.B(v.Tombstoned),
			v.Tokens.Int64(), v.LastPower, rel(v.JailedUntil), log)
	}
	return out
}

// provider address -> validator id (index in the World, also for removed validators) or 2000+key number
func (it *interp) provID(a []byte) int64 {
	addrOnce.Do(initAddrs)
	code, ok := addrRev[string(a)]
	if !ok {
		return -1
	}
	if code >= 1000 {
		if int(code-1000) < len(it.w.Vals) {
			return code - 1000
		}
		return -1
	}
	return 2000 + code
}

func provAddrOfID(w *common.World, id int64) []byte {
	if id >= 2000 {
		return addrOf(id - 2000)
	}
	return w.Vals[id].ConsAddr()
}

func (it *interp) acks(c int) common.T {
	out := []common.T{}
	for _, s := range it.env.K.GetSlashAcks(it.env.Ctx, fmt.Sprint(c)) {
		code, ok := it.ackStr[s]
		if !ok {
			code = -7
		}
		out = append(out, code)
	}
	return out
}

func (it *interp) consRow(c int) (common.T, string) {
	cid := fmt.Sprint(c)
	phase := int64(it.env.K.GetConsumerPhase(it.env.Ctx, cid))
	set := []int64{}
	vs, err := it.env.K.GetConsumerValSet(it.env.Ctx, cid)
	if err == nil {
		for _, v := range vs {
			set = append(set, it.provID(v.ProviderConsAddr))
		}
	}
	sort.Slice(set, func(i, j int) bool { return set[i] < set[j] })
	var params common.T = common.L()
	if ip, err := it.env.K.GetInfractionParameters(it.env.Ctx, cid); err == nil && ip.Downtime != nil {
		params = common.L(ip.Downtime.SlashFraction.BigInt().Int64(), int64(ip.Downtime.JailDuration))
	}
	row := common.L(phase, common.Ints(set), params)
	bz, _ := json.Marshal(row)
	return row, string(bz)
}

func (it *interp) snapshot(result int64, emitted common.T) common.T {
	acks := make([]common.T, it.ncons)
	for c := 0; c < it.ncons; c++ {
		acks[c] = it.acks(c)
	}
	return common.L(result, emitted, it.rows(true), acks, it.env.K.GetSlashMeter(it.env.Ctx).Int64(),
		rel(it.env.K.GetSlashMeterReplenishTimeCandidate(it.env.Ctx)))
}

func (it *interp) emitSlash(op common.T, result int64, emitted common.T) {
	it.slashOps = append(it.slashOps, op)
	it.slashObs = append(it.slashObs, it.snapshot(result, emitted))
}

// emit OCons ops for consumers whose oracle-visible configuration changed
func (it *interp) syncCons() {
	for c := 0; c < it.ncons; c++ {
		row, key := it.consRow(c)
		if key != it.lastCons[c] {
			it.lastCons[c] = key
			r := row.([]common.T)
			it.emitSlash(common.L(5, int64(c), r[0], r[1], r[2]), 0, common.L())
		}
	}
}

func (it *interp) emitExt() {
	it.emitSlash(common.L(4, it.rows(false)), 0, common.L())
}

func (it *interp) now() int64 { return rel(it.env.Ctx.BlockTime()) }

func (it *interp) totalPower() int64 {
	t := int64(0)
	for _, v := range it.w.Vals {
		if !v.Removed {
			t += v.LastPower
		}
	}
	return t
}

func (it *interp) beginBlock() {
	res := it.env.BeginBlock()
	if !res.OK() {
		panic("provider BeginBlock failed: " + res.String())
	}
	now, total := it.now(), it.totalPower()
	it.emitSlash(common.L(3, now, total), 0, common.L())
	it.thrOps = append(it.thrOps, common.L(1, now, total))
	it.thrObs = append(it.thrObs, common.L(0, it.env.K.GetSlashMeter(it.env.Ctx).Int64(),
		rel(it.env.K.GetSlashMeterReplenishTimeCandidate(it.env.Ctx)), it.env.K.GetSlashMeterAllowance(it.env.Ctx).Int64(), 0))
}

func (it *interp) endBlock() {
	it.w.StakingEndBlock()
	it.emitExt()
	n := len(it.w.Sent)
	_, res := it.env.EndBlock()
	if !res.OK() {
		panic("provider EndBlock failed: " + res.String())
	}
	produced := make([]common.T, it.ncons)
	emitted := make([]common.T, it.ncons)
	for c := 0; c < it.ncons; c++ {
		produced[c] = 0
		emitted[c] = common.L()
	}
	for _, s := range it.w.Sent[n:] {
		for c := 0; c < it.ncons; c++ {
			if it.chanOf[c] != "" && s.Channel == it.chanOf[c] {
				var d ccvtypes.ValidatorSetChangePacketData
				ccvtypes.ModuleCdc.MustUnmarshalJSON(s.Data, &d)
				em := emitted[c].([]common.T)
				for _, a := range d.SlashAcks {
					code, ok := it.ackStr[a]
					if !ok {
						code = -7
					}
					em = append(em, code)
				}
				emitted[c] = em
				produced[c] = 1
			}
		}
	}
	it.emitSlash(common.L(2, produced), 0, emitted)
	it.syncCons()
}

func (it *interp) recv(a []int64) {
	// [1, c, addrcode, infraction, vsckind, power, addr_bad]
	c, code, infr, vsckind, power, addrBad := a[1], a[2], a[3], a[4], a[5], a[6]
	env := it.env
	dst := "channel-77"
	known := c >= 0 && int(c) < it.ncons
	if known {
		dst = it.chanOf[c]
	}
	cid := fmt.Sprint(c)
	addr := addrOf(code)
	if addrBad != 0 {
		addr = []byte{}
	}
	var vscid uint64
	switch vsckind {
	case 0:
		vscid = 0
	case 1:
		vscid = env.K.GetValidatorSetUpdateId(env.Ctx) - 1
	default:
		vscid = 999999
	}
	// oracle values from the pre-state
	var h common.T = common.L()
	res := int64(-1)
	reach := false
	vFound, vJailed, vLast, canJail := false, false, int64(0), false
	if known {
		var hh uint64
		var found bool
		if vscid == 0 {
			hh, found = env.K.GetInitChainHeight(env.Ctx, cid)
		} else {
			hh, found = env.K.GetValsetUpdateBlockHeight(env.Ctx, vscid)
		}
		if found {
			h = common.L(int64(hh))
		}
		if addrBad == 0 {
			pa := env.K.GetProviderAddrFromConsumerAddr(env.Ctx, cid, providertypes.NewConsumerConsAddress(addr))
			res = it.provID(pa.ToSdkConsAddr())
			// staking state of the reported validator (oracle for the throttle model, which computes the effective
			// power itself; never ask the keeper's GetEffectiveValPower here)
			if v := it.w.ValByCons(pa.ToSdkConsAddr()); v != nil {
				vFound, vJailed, vLast = true, v.Jailed, v.LastPower
				_, perr := env.K.GetInfractionParameters(env.Ctx, cid)
				canJail = v.Status != stakingtypes.Unbonded && !v.Tombstoned && perr == nil
			}
			reach = found && power != 0 && infr == 2 &&
				env.K.GetConsumerPhase(env.Ctx, cid) == providertypes.CONSUMER_PHASE_LAUNCHED &&
				env.K.IsConsumerValidator(env.Ctx, cid, pa)
		}
	}
	data := ccvtypes.NewSlashPacketData(abci.Validator{Address: addr, Power: power}, vscid, stakingtypes.Infraction(infr))
	cpd := ccvtypes.NewConsumerPacketData(ccvtypes.SlashPacket, &ccvtypes.ConsumerPacketData_SlashPacketData{SlashPacketData: data})
	pkt := channeltypes.NewPacket(cpd.GetBytes(), 1, ccvtypes.ConsumerPortID, "channel-9", ccvtypes.ProviderPortID, dst,
		clienttypes.NewHeight(1, 100000), 0)
	jailedBefore := make([]bool, len(it.w.Vals))
	for i, v := range it.w.Vals {
		jailedBefore[i] = v.Jailed
	}
	class := int64(0)
	// IBC core semantics: the callback runs on a cached context which is written only for a successful acknowledgement
	r := common.Tx(env.Ctx, func(ctx sdk.Context) error {
		ack := env.Module.OnRecvPacket(ctx, "", pkt, nil)
		if !ack.Success() {
			class = 4
			return fmt.Errorf("error acknowledgement")
		}
		ca, ok := ack.(channeltypes.Acknowledgement)
		if !ok || len(ca.GetResult()) != 1 {
			class = 9
			return nil
		}
		class = int64(ca.GetResult()[0])
		return nil
	})
	if r.Panic != nil {
		class = 0
	}
	it.emitSlash(common.L(1, c, code, infr, common.B(addrBad == 0), power, h, res, it.now()), class, common.L())
	tc := int64(0)
	if class == 3 {
		tc = 3
	} else if reach {
		tc = 2
	}
	jailedNow := false
	for i, v := range it.w.Vals {
		if v.Jailed && !jailedBefore[i] {
			jailedNow = true
		}
	}
	it.thrOps = append(it.thrOps, common.L(2, common.B(reach), common.B(vFound), common.B(vJailed), vLast, common.B(canJail)))
	it.thrObs = append(it.thrObs, common.L(tc, env.K.GetSlashMeter(env.Ctx).Int64(),
		rel(env.K.GetSlashMeterReplenishTimeCandidate(env.Ctx)), 0, common.B(jailedNow)))
}

// Run interprets one case.
func Run(tb testing.TB, raw json.RawMessage) Out {
	var k Kase
	if err := json.Unmarshal(raw, &k); err != nil {
		panic(err)
	}
	w := common.NewWorld(0)
	for _, p := range k.Pows {
		w.AddVal(p * common.PowerReduction)
	}
	w.StakingEndBlock()
	env := common.NewProviderEnv(tb, w)
	p := providertypes.DefaultParams()
	p.BlocksPerEpoch = 1
	p.SlashMeterReplenishFraction = k.Frac
	p.SlashMeterReplenishPeriod = time.Duration(k.PeriodNs)
	env.InitGenesis(p)
	addrOnce.Do(initAddrs)
	it := &interp{w: w, env: env, k: k, ackStr: bechRev, ncons: len(k.Cons),
		slashOps: []common.T{}, slashObs: []common.T{}, thrOps: []common.T{}, thrObs: []common.T{}}
	owner := sdk.AccAddress([]byte("owner000000000000001")).String()
	// consumer ids are allocated in order 0,1,...
	for c, cs := range k.Cons {
		cid := fmt.Sprint(c)
		if cs.Direct != 0 {
			got := env.K.FetchAndIncrementConsumerId(env.Ctx)
			if got != cid {
				panic("unexpected consumer id " + got)
			}
			env.K.SetConsumerChainId(env.Ctx, cid, fmt.Sprintf("direct-%d", c))
			env.K.SetConsumerPhase(env.Ctx, cid, providertypes.ConsumerPhase(cs.Phase))
			continue
		}
		r := env.Deliver(&providertypes.MsgCreateConsumer{Submitter: owner, ChainId: fmt.Sprintf("cons%d-1", c),
			Metadata:                 providertypes.ConsumerMetadata{Name: "n", Description: "d", Metadata: "m"},
			InitializationParameters: initParams(common.T0.Add(10 * time.Second))})
		if !r.OK() {
			panic("create consumer: " + r.String())
		}
		keys := map[int]int{}
		for _, kv := range cs.Keys {
			keys[kv[0]] = kv[1]
		}
		for _, v := range cs.OptIn {
			val := w.Vals[v]
			ck := ""
			if kn, ok := keys[v]; ok {
				ck = KeyJSON(kn)
			}
			r = env.Deliver(&providertypes.MsgOptIn{ConsumerId: cid, ProviderAddr: val.Oper.String(),
				Signer: sdk.AccAddress(val.Oper).String(), ConsumerKey: ck})
			if !r.OK() {
				panic("opt in: " + r.String())
			}
		}
	}
	env.NextBlock(20 * time.Second)
	if r := env.BeginBlock(); !r.OK() {
		panic("launch BeginBlock: " + r.String())
	}
	it.chanOf = make([]string, len(k.Cons))
	for c, cs := range k.Cons {
		cid := fmt.Sprint(c)
		ch := fmt.Sprintf("channel-%d", c)
		it.chanOf[c] = ch
		if cs.Direct != 0 {
			env.K.SetChannelToConsumerId(env.Ctx, ch, cid)
			env.K.SetConsumerIdToChannelId(env.Ctx, cid, ch)
			if cs.NoHeight == 0 {
				env.K.SetInitChainHeight(env.Ctx, cid, 2)
			}
			for _, id := range cs.Set {
				pa := provAddrOfID(w, id)
				if err := env.K.SetConsumerValidator(env.Ctx, cid, providertypes.ConsensusValidator{ProviderConsAddr: pa, Power: 1}); err != nil {
					panic(err)
				}
			}
		} else {
			if env.K.GetConsumerPhase(env.Ctx, cid) != providertypes.CONSUMER_PHASE_LAUNCHED {
				panic("consumer did not launch")
			}
			clid, _ := env.K.GetConsumerClientId(env.Ctx, cid)
			conn := fmt.Sprintf("connection-%d", c)
			w.Connections[conn] = &common.Connection{ID: conn, ClientID: clid}
			w.Channels[ccvtypes.ProviderPortID+"/"+ch] = &common.Channel{Port: ccvtypes.ProviderPortID, ID: ch,
				State: channeltypes.OPEN, Ordering: channeltypes.ORDERED, ConnectionID: conn,
				CpPort: ccvtypes.ConsumerPortID, CpID: "channel-9", Version: ccvtypes.Version}
			if err := env.K.SetConsumerChain(env.Ctx, ch); err != nil {
				panic(err)
			}
		}
		if cs.Direct == 0 || cs.NoParams == 0 {
			sj := &providertypes.SlashJailParameters{SlashFraction: math.LegacyMustNewDecFromStr(cs.DFrac),
				JailDuration: time.Duration(cs.DJailNs)}
			ds := &providertypes.SlashJailParameters{SlashFraction: math.LegacyNewDecWithPrec(5, 2),
				JailDuration: time.Duration(1<<63 - 1), Tombstone: true}
			if err := env.K.SetInfractionParameters(env.Ctx, cid, providertypes.InfractionParameters{DoubleSign: ds, Downtime: sj}); err != nil {
				panic(err)
			}
		}
	}
	// first epoch + next block: the recorded history starts from here
	w.StakingEndBlock()
	if _, r := env.EndBlock(); !r.OK() {
		panic("first EndBlock: " + r.String())
	}
	env.NextBlock(5 * time.Second)
	if r := env.BeginBlock(); !r.OK() {
		panic("BeginBlock: " + r.String())
	}

	initRows := it.rows(true)
	initCons := make([]common.T, it.ncons)
	it.lastCons = make([]string, it.ncons)
	for c := 0; c < it.ncons; c++ {
		row, key := it.consRow(c)
		it.lastCons[c] = key
		r := row.([]common.T)
		initCons[c] = common.L(r[0], r[1], r[2], it.acks(c))
	}
	m0 := env.K.GetSlashMeter(env.Ctx).Int64()
	c0 := rel(env.K.GetSlashMeterReplenishTimeCandidate(env.Ctx))
	fracDec := math.LegacyMustNewDecFromStr(k.Frac).BigInt().Int64()

	for _, a := range k.Acts {
		switch a[0] {
		case 1:
			it.recv(a)
		case 2: // [2, dt_ns]: end of block (epoch), next block, begin block
			it.endBlock()
			env.NextBlock(time.Duration(a[1]))
			it.beginBlock()
			it.syncCons()
		case 3: // [3, v, field, value]: external change of a validator
			v := w.Vals[a[1]]
			switch a[2] {
			case 1:
				v.Jailed = a[3] != 0
			case 2:
				v.Tombstoned = a[3] != 0
			case 3:
				v.Tokens = math.NewInt(a[3] * common.PowerReduction)
			case 4:
				v.Removed = a[3] != 0
			case 5:
				v.Status = stakingtypes.BondStatus(a[3])
				if v.Status != stakingtypes.Bonded {
					v.LastPower = 0
				}
			}
			it.emitExt()
		case 4: // [4, c, v, key]: assign a consumer key
			val := w.Vals[a[2]]
			env.Deliver(&providertypes.MsgAssignConsumerKey{ConsumerId: fmt.Sprint(a[1]), ProviderAddr: val.Oper.String(),
				Signer: sdk.AccAddress(val.Oper).String(), ConsumerKey: KeyJSON(int(a[3]))})
			it.syncCons()
		case 5: // [5, c, phase]
			env.K.SetConsumerPhase(env.Ctx, fmt.Sprint(a[1]), providertypes.ConsumerPhase(a[2]))
			it.syncCons()
		case 6: // [6, c, v, in]
			val := w.Vals[a[2]]
			if a[3] != 0 {
				env.Deliver(&providertypes.MsgOptIn{ConsumerId: fmt.Sprint(a[1]), ProviderAddr: val.Oper.String(),
					Signer: sdk.AccAddress(val.Oper).String()})
			} else {
				env.Deliver(&providertypes.MsgOptOut{ConsumerId: fmt.Sprint(a[1]), ProviderAddr: val.Oper.String(),
					Signer: sdk.AccAddress(val.Oper).String()})
			}
			it.syncCons()
		case 7: // [7, c, frac (dec * 10^18 / 10^14 = basis points of a percent), jail_ns]
			sj := &providertypes.SlashJailParameters{SlashFraction: math.LegacyNewDecWithPrec(a[2], 4), JailDuration: time.Duration(a[3])}
			ds := &providertypes.SlashJailParameters{SlashFraction: math.LegacyNewDecWithPrec(5, 2), JailDuration: time.Duration(1<<63 - 1), Tombstone: true}
			_ = env.K.SetInfractionParameters(env.Ctx, fmt.Sprint(a[1]), providertypes.InfractionParameters{DoubleSign: ds, Downtime: sj})
			it.syncCons()
		}
	}
	return Out{
		SlashIn:  common.L(common.L(fracDec, k.PeriodNs), initRows, initCons, common.L(m0, c0), it.slashOps),
		SlashObs: it.slashObs,
		ThrIn:    common.L(1, common.L(fracDec, k.PeriodNs), common.L(m0, c0), it.thrOps),
		ThrObs:   it.thrObs,
	}
}
