package c08

// Correspondence driver for C08 (provider half): real provider keeper, module Begin/EndBlock and the
// IBC callback AppModule.OnRecvPacket; see interp.go for the history format.

import (
	"testing"

	"verifharness/common"
)

func TestDriver(t *testing.T) {
	common.RunCases(t, func(c common.Case) (common.T, common.T) {
		out := Run(t, c.Raw)
		return out.SlashIn, out.SlashObs
	})
}
