package c04

// Correspondence driver for C04: runs the real PartitionBasedOnPriorityList, CapValidatorSet,
// CapValidatorsPower and NoMoreThanPercentOfTheSum on generated inputs.

import (
	"encoding/binary"
	"encoding/json"
	"testing"

	"verifharness/common"

	sdk "github.com/cosmos/cosmos-sdk/types"
	stakingtypes "github.com/cosmos/cosmos-sdk/x/staking/types"

	providerkeeper "github.com/cosmos/interchain-security/v7/x/ccv/provider/keeper"
	providertypes "github.com/cosmos/interchain-security/v7/x/ccv/provider/types"
)

type kase struct {
	ID       int64     `json:"id"`
	Vals     [][]int64 `json:"vals"`
	Prio     []int64   `json:"prio"`
	TopN     uint32    `json:"top_n"`
	SetCap   uint32    `json:"set_cap"`
	PowerCap uint32    `json:"power_cap"`
}

func addr(id int64) []byte {
	b := make([]byte, 20)
	binary.BigEndian.PutUint64(b[12:], uint64(id))
	return b
}

func idOf(a []byte) int64 { return int64(binary.BigEndian.Uint64(a[12:])) }

func mk(vals [][]int64) []providertypes.ConsensusValidator {
	out := make([]providertypes.ConsensusValidator, len(vals))
	for i, v := range vals {
		out[i] = providertypes.ConsensusValidator{ProviderConsAddr: addr(v[0]), Power: v[1]}
	}
	return out
}

func enc(vals []providertypes.ConsensusValidator) common.T {
	out := make([]common.T, len(vals))
	for i, v := range vals {
		out[i] = common.L(idOf(v.ProviderConsAddr), v.Power)
	}
	return out
}

func TestDriver(t *testing.T) {
	common.RunCases(t, func(c common.Case) (common.T, common.T) {
		var k kase
		if err := json.Unmarshal(c.Raw, &k); err != nil {
			panic(err)
		}
		env := common.NewProviderEnv(t, common.NewWorld(0))
		// consumer "1" is the one under test; another consumer "10" (id with "1" as textual prefix) gets its own
		// priority list written AFTER "1"'s, as a later MsgUpdateConsumer of that other consumer would do
		const cid = "1"
		for _, p := range k.Prio {
			env.K.SetPrioritylist(env.Ctx, cid, providertypes.NewProviderConsAddress(addr(p)))
		}
		env.K.UpdatePrioritylist(env.Ctx, "10", []string{sdk.ConsAddress(addr(9999)).String()})
		env.K.UpdatePrioritylist(env.Ctx, "0", []string{})
		params := providertypes.PowerShapingParameters{Top_N: k.TopN, ValidatorSetCap: k.SetCap, ValidatorsPowerCap: k.PowerCap}

		var nmp common.T = common.L()
		if k.PowerCap > 0 {
			nmp = enc(providerkeeper.NoMoreThanPercentOfTheSum(mk(k.Vals), k.PowerCap))
		}
		p, np := env.K.PartitionBasedOnPriorityList(env.Ctx, cid, mk(k.Vals))
		capped := env.K.CapValidatorSet(env.Ctx, params, append(append([]providertypes.ConsensusValidator{}, p...), np...))
		cappedCopy := append([]providertypes.ConsensusValidator{}, capped...)
		shaped := env.K.CapValidatorsPower(env.Ctx, k.PowerCap, cappedCopy)

		// composition: the real ComputeNextValidators on staking validators that are all eligible
		// (opted in, no lists, no min stake, inactive validators allowed), so that its result is the
		// three shaping stages applied to exactly k.Vals
		w := common.NewWorld(0)
		byAddr := map[string]int64{}
		var bonded []stakingtypes.Validator
		for _, v := range k.Vals {
			val := w.AddVal(v[1] * common.PowerReduction)
			val.Status = stakingtypes.Bonded
			val.LastPower = v[1]
			byAddr[string(val.ConsAddr())] = v[0]
			bonded = append(bonded, val.Staking())
		}
		env2 := common.NewProviderEnv(t, w)
		for _, val := range w.Vals {
			env2.K.SetOptedIn(env2.Ctx, cid, providertypes.NewProviderConsAddress(val.ConsAddr()))
		}
		for _, p := range k.Prio {
			for _, val := range w.Vals {
				if byAddr[string(val.ConsAddr())] == p {
					env2.K.SetPrioritylist(env2.Ctx, cid, providertypes.NewProviderConsAddress(val.ConsAddr()))
				}
			}
		}
		env2.K.UpdatePrioritylist(env2.Ctx, "10", []string{sdk.ConsAddress(addr(9999)).String()})
		env2.K.UpdatePrioritylist(env2.Ctx, "0", []string{})
		params2 := params
		params2.AllowInactiveVals = true
		var composed common.T = common.L()
		if next, err := env2.K.ComputeNextValidators(env2.Ctx, cid, bonded, params2, 0); err == nil {
			out := make([]common.T, len(next))
			for i, v := range next {
				out[i] = common.L(byAddr[string(v.ProviderConsAddr)], v.Power)
			}
			composed = out
		} else {
			composed = common.L(common.L(-1, -1))
		}

		vals := make([]common.T, len(k.Vals))
		for i, v := range k.Vals {
			vals[i] = common.L(v[0], v[1])
		}
		input := common.L(vals, common.Ints(k.Prio), int64(k.TopN), int64(k.SetCap), int64(k.PowerCap))
		obs := common.L(nmp, enc(p), enc(np), enc(capped), enc(shaped), composed)
		return input, obs
	})
}
