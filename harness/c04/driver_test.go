package c04

// Correspondence driver for C04: runs the real PartitionBasedOnPriorityList, CapValidatorSet,
// CapValidatorsPower and NoMoreThanPercentOfTheSum on generated inputs.

import (
	"encoding/binary"
	"encoding/json"
	"testing"

	"verifharness/common"

	providerkeeper "github.com/cosmos/interchain-security/v7/x/ccv/provider/keeper"
	providertypes "github.com/cosmos/interchain-security/v7/x/ccv/provider/types"
)

type kase struct {
	ID       int64     `json:"id"`
	Vals     [][]int64 `json:"vals"`
	Prio     []int64   `json:"prio"`
	TopN     uint32    `json:"top_n"`
	SetCap   uint32    `json:"set_cap"`
	PowerCap uint32    `json:"power_cap"`
}

func addr(id int64) []byte {
	b := make([]byte, 20)
	binary.BigEndian.PutUint64(b[12:], uint64(id))
	return b
}

func idOf(a []byte) int64 { return int64(binary.BigEndian.Uint64(a[12:])) }

func mk(vals [][]int64) []providertypes.ConsensusValidator {
	out := make([]providertypes.ConsensusValidator, len(vals))
	for i, v := range vals {
		out[i] = providertypes.ConsensusValidator{ProviderConsAddr: addr(v[0]), Power: v[1]}
	}
	return out
}

func enc(vals []providertypes.ConsensusValidator) common.T {
	out := make([]common.T, len(vals))
	for i, v := range vals {
		out[i] = common.L(idOf(v.ProviderConsAddr), v.Power)
	}
	return out
}

func TestDriver(t *testing.T) {
	common.RunCases(t, func(c common.Case) (common.T, common.T) {
		var k kase
		if err := json.Unmarshal(c.Raw, &k); err != nil {
			panic(err)
		}
		env := common.NewProviderEnv(t, common.NewWorld(0))
		const cid = "0"
		for _, p := range k.Prio {
			env.K.SetPrioritylist(env.Ctx, cid, providertypes.NewProviderConsAddress(addr(p)))
		}
		params := providertypes.PowerShapingParameters{Top_N: k.TopN, ValidatorSetCap: k.SetCap, ValidatorsPowerCap: k.PowerCap}

		var nmp common.T = common.L()
		if k.PowerCap > 0 {
			nmp = enc(providerkeeper.NoMoreThanPercentOfTheSum(mk(k.Vals), k.PowerCap))
		}
		p, np := env.K.PartitionBasedOnPriorityList(env.Ctx, cid, mk(k.Vals))
		capped := env.K.CapValidatorSet(env.Ctx, params, append(append([]providertypes.ConsensusValidator{}, p...), np...))
		cappedCopy := append([]providertypes.ConsensusValidator{}, capped...)
		shaped := env.K.CapValidatorsPower(env.Ctx, k.PowerCap, cappedCopy)

		vals := make([]common.T, len(k.Vals))
		for i, v := range k.Vals {
			vals[i] = common.L(v[0], v[1])
		}
		input := common.L(vals, common.Ints(k.Prio), int64(k.TopN), int64(k.SetCap), int64(k.PowerCap))
		obs := common.L(nmp, enc(p), enc(np), enc(capped), enc(shaped))
		return input, obs
	})
}
