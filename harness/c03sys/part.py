"""Part "system" of property C03: generator / monitor text for harness/c03sys and the composed model
Model/EligibilityTopN.v (Eligibility x TopN: the Top-N threshold is computed from the staking snapshot, not fed in).
Loaded by tools/props/c03.py."""
import json
from check import Part
from props import c02

MIL = 10 ** 6


def gen_cfg(rng, n, topn_p=0.85):
    g = c02.gen_cfg(rng, n, True)
    if rng.random() < topn_p:
        g[0] = rng.choice([50, 51, 60, 60, 66, 67, 75, 80, 90, 99, 100, rng.randint(50, 100)])
    else:
        g[0] = 0
    if rng.random() < 0.5:          # milder filters half of the time so that sets are not mostly empty
        g[5] = []
        g[3] = rng.choice([0, 0, MIL])
    if g[3] >= 2 ** 62:             # the c02 generator also draws min_stake values around 2^63 (they belong to the C02 check);
        g[3] = 3 * MIL              # this driver carries min_stake as a machine integer
    return g


def example_case():
    """Example C03_system_ex: 5 validators, N = 60, validator 1 denylisted above the threshold, validator 4 opted in below it."""
    return {"tokens": [40 * MIL, 30 * MIL, 15 * MIL, 10 * MIL, 5 * MIL], "max_vals": 100, "M": 5,
            "ops": [[11, 4, 0], [10, 60, 0, 0, 0, 0, [], [1], []], [14], [15], [12, 4], [12, 0], [15]]}


def blackout_case():
    """every validator jailed: the epoch of a launched Top-N consumer fails, a launch fails; both leave the records alone"""
    return {"tokens": [3 * MIL, 2 * MIL, MIL], "max_vals": 100, "M": 2,
            "ops": [[10, 67, 0, 0, 0, 0, [], [], []], [21, 0, 1], [21, 1, 1], [21, 2, 1], [22], [14],
                    [21, 0, 0], [21, 1, 0], [21, 2, 0], [22], [14], [15],
                    [21, 0, 1], [21, 1, 1], [21, 2, 1], [22], [15], [21, 1, 0], [22], [15], [10, 80, 0, 0, 0, 0, [], [], []], [15]]}


def gen_history(rng, tier):
    n = rng.choice([3, 4, 4, 5, 5, 6, 7, 8, 10])
    tokens = c02.gen_tokens(rng, n)
    max_vals = max(1, rng.choice([100, 100, 100, n, n - 1, n + 1]))
    M = max(1, rng.choice([1, 2, n // 2, n - 1, n - 1, n, n, n + 1, n + 2]))
    keyn = [2000]
    jailed = [False] * n

    def newkey():
        keyn[0] += 1
        return keyn[0] if keyn[0] < 2039 else 2039

    def staking():
        k = rng.random()
        ops = []
        if k < 0.6:
            kk = rng.choice([0, 1, 1, 2, 2, 3, 5, 10])
            ops.append([20, rng.randrange(n), kk * MIL + rng.choice([0, 0, 0, 1, 500000, 999999]) if kk else rng.choice([0, 999999])])
        elif k < 0.8:
            v = rng.randrange(n)
            jailed[v] = not jailed[v]
            ops.append([21, v, 1 if jailed[v] else 0])
        elif k < 0.9:
            ops.append([24, max(1, rng.choice([1, 2, n - 1, n, n + 1]))])
        else:
            ops.append([23, max(1, rng.choice([n, n - 1, n + 1, 100]))])
        if rng.random() < 0.85:
            ops.append([22])
        return ops

    ops = []
    for v in range(n):
        if rng.random() < rng.choice([0.0, 0.3, 0.6]):
            ops.append([11, v, newkey() if rng.random() < 0.2 else 0])
    for _ in range(rng.randint(0, 2)):
        ops.append([13, rng.randrange(n), newkey()])
    rng.shuffle(ops)
    pre = rng.random() < 0.8
    if pre:
        ops.append([10] + gen_cfg(rng, n, 0.95))
        if rng.random() < 0.3:
            ops += staking()
    if rng.random() < 0.04:                                  # launch during a blackout: fails, retried later
        ops += [[21, v, 1] for v in range(n)] + [[22], [14]] + [[21, v, 0] for v in range(n)] + [[22]]
    ops.append([14])
    if not pre or rng.random() < 0.25:
        ops.append([10] + gen_cfg(rng, n, 0.95))
    for _ in range(rng.randint(2, 6)):
        for _ in range(rng.randint(0, 4)):
            k = rng.random()
            if k < 0.4:
                ops += staking()
            elif k < 0.6:
                ops.append([12, rng.randrange(n)])
            elif k < 0.72:
                ops.append([11, rng.randrange(n), newkey() if rng.random() < 0.2 else 0])
            elif k < 0.8:
                ops.append([13, rng.randrange(n), rng.choice([newkey(), 2001, 1000 + rng.randrange(n)])])
            elif k < 0.97:
                ops.append([10] + gen_cfg(rng, n))
            else:
                ops.append([14])
        if rng.random() < 0.03:                              # blackout epoch
            ops += [[21, v, 1] for v in range(n)] + [[22], [15]] + [[21, v, 1 if jailed[v] else 0] for v in range(n)] + [[22]]
        ops.append([15])
    return {"tokens": tokens, "max_vals": max_vals, "M": M, "ops": ops}


def tie_inactive_case(rng):
    """all powers tie, M < n, inactive validators allowed, N high: inactive validators reach the threshold through
    HasMinPower only (no automatic opt-in); some of them are denylisted / not allowlisted / below the minimum stake"""
    n = rng.randint(3, 7)
    k = rng.choice([1, 2, 5])
    tokens = [k * MIL + (rng.choice([0, 1, 500000]) if rng.random() < 0.3 else 0) for _ in range(n)]
    M = rng.randint(1, n - 1)
    inactive = list(range(M, n))
    deny = [v for v in inactive if rng.random() < 0.6] or [n - 1]
    if rng.random() < 0.3:
        deny.append(rng.randrange(M))
    allow = [] if rng.random() < 0.6 else [v for v in range(n) if rng.random() < 0.7]
    cfg = [rng.choice([100, 100, 99, 90]), rng.choice([0, 1]), rng.choice([0, 0, 50]), rng.choice([0, 0, k * MIL + 1]), 1, allow, deny, []]
    ops = [[10] + cfg, [14], [15]]
    if rng.random() < 0.5:
        ops += [[11, rng.choice(inactive), 0], [15]]
    ops += [[20, rng.randrange(n), k * MIL], [22], [15], [12, rng.choice(inactive)], [15]]
    return {"tokens": tokens, "max_vals": 100, "M": M, "ops": ops}


def gen(rng, tier):
    total = 250 if tier == "quick" else 5000
    yield example_case()
    yield blackout_case()
    for _ in range(12 if tier == "quick" else 200):
        yield tie_inactive_case(rng)
    for _ in range(total):
        yield gen_history(rng, tier)


def nontrivial(case, inp, obs):
    keys = []
    for op, ob in zip(inp, obs):
        if op[0] in (4, 5) and ob[0] == 0 and ob[1] and ob[2][0]:
            m = ob[1][0]
            pw = {v[0]: v[2] for v in op[2][0]}
            members = {x[0] for x in ob[2][1]}
            below = any(pw.get(i, 0) < m for i in members)
            excluded = any(p >= m and i not in members for i, p in pw.items())
            if below or excluded:
                keys.append([op[2], m, sorted(members)])
    return json.dumps(keys[0]) if keys else None


CLAUSES = dict(c02.CLAUSES)
CLAUSES.update({
    20: "the staking list holds more validators than MaxValidators (hypothesis of C03_system_top_included)",
    21: "the stored Top-N threshold is not the exact threshold of the ACTIVE validators' last powers (share(p >= m) >= N% > share(p > m))",
    22: "an active validator with power >= m passing allowlist/denylist/min-stake is missing from the set, has a wrong key or "
        "(without power cap) a wrong power, or holds no opt-in record",
    23: "a member of the set with power below m held no opt-in record before the computation",
    24: "a Top-N consumer's set lacks an eligible candidate (the validator-set cap must be ignored for Top-N)",
    26: "opt-out outcome contradicts 'succeeds iff launched and (not Top-N or power < stored m)'",
    31: "power cap changed the validator identities", 32: "a capped power exceeds floor(p% of total) although achievable",
    33: "total power not preserved by the power cap although achievable", 34: "the power cap reduced a validator below 1",
    35: "the power cap does not preserve the order by power", 36: "cap not achievable but powers are not all equal to max(floor,1)",
})


def describe(codes):
    return "; ".join(CLAUSES.get(c, str(c)) for c in sorted(set(codes)))


PART = Part("system", "c03sys", "eligtopn", gen, nontrivial=nontrivial, describe=describe)
