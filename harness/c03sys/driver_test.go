package c03sys

// Correspondence driver for the composed model Model/EligibilityTopN.v (C03 on the system level:
// Eligibility x TopN, one consumer).  Real: the provider keeper, message server, module BeginBlock / EndBlock
// over the fake World.  Unlike harness/c02 the model input does NOT contain the value of ComputeMinPowerInTopN:
// it contains only the STAKING SNAPSHOT (GetBondedValidatorsByPower order, tokens, last power, provider key,
// MaxValidators, M) of every launch block, epoch block and Top-N parameter change; the model computes the
// threshold itself.  Observed after every op: the result class, GetMinimumPowerInTopN, the phase,
// GetConsumerValSet (id, consumer key, power, join height) and the opt-in records.
// (Snapshot format and helpers adapted from harness/c02, history engine from harness/c03.)

import (
	"encoding/base64"
	"encoding/json"
	"errors"
	"fmt"
	"sort"
	"testing"

	"cosmossdk.io/math"

	sdk "github.com/cosmos/cosmos-sdk/types"

	"verifharness/common"

	providertypes "github.com/cosmos/interchain-security/v7/x/ccv/provider/types"
	ccvtypes "github.com/cosmos/interchain-security/v7/x/ccv/types"
)

type kase struct {
	Tokens  []int64             `json:"tokens"`
	MaxVals uint32              `json:"max_vals"`
	M       int64               `json:"M"`
	Ops     [][]json.RawMessage `json:"ops"`
}

const cid = "0"

type cfg struct {
	topN, setCap, powerCap, minStake int64
	allowInactive                    bool
	allow, deny, prio                []int64
}

type drv struct {
	t    *testing.T
	w    *common.World
	env  *common.ProviderEnv
	keys map[string]int64 // consensus address of a public key -> key id
}

func num(raw json.RawMessage) int64 {
	var x int64
	if err := json.Unmarshal(raw, &x); err != nil {
		panic(err)
	}
	return x
}

func ints(raw json.RawMessage) []int64 {
	var l []int64
	if err := json.Unmarshal(raw, &l); err != nil {
		panic(err)
	}
	return l
}

const consumerKeyBase = 2000

func keyJSON(id int64) string {
	return fmt.Sprintf(`{"@type":"/cosmos.crypto.ed25519.PubKey","key":"%s"}`,
		base64.StdEncoding.EncodeToString(common.Key(int(id)).PubKey().Bytes()))
}

// consensus address (bech32) of validator id; ids beyond the world are well-formed unknown addresses
func (d *drv) consAddrStr(id int64) string {
	if id >= 0 && int(id) < len(d.w.Vals) {
		return d.w.Vals[id].ConsAddr().String()
	}
	return sdk.ConsAddress(common.Key(5000 + int(id)).PubKey().Address()).String()
}

func parseCfg(a []json.RawMessage) cfg {
	return cfg{topN: num(a[0]), setCap: num(a[1]), powerCap: num(a[2]), minStake: num(a[3]), allowInactive: num(a[4]) != 0,
		allow: ints(a[5]), deny: ints(a[6]), prio: ints(a[7])}
}

func (d *drv) shaping(g cfg) *providertypes.PowerShapingParameters {
	ps := &providertypes.PowerShapingParameters{Top_N: uint32(g.topN), ValidatorSetCap: uint32(g.setCap),
		ValidatorsPowerCap: uint32(g.powerCap), MinStake: uint64(g.minStake), AllowInactiveVals: g.allowInactive}
	for _, id := range g.allow {
		ps.Allowlist = append(ps.Allowlist, d.consAddrStr(id))
	}
	for _, id := range g.deny {
		ps.Denylist = append(ps.Denylist, d.consAddrStr(id))
	}
	for _, id := range g.prio {
		ps.Prioritylist = append(ps.Prioritylist, d.consAddrStr(id))
	}
	return ps
}

func (d *drv) idxOfOper(operator string) int64 {
	a, err := sdk.ValAddressFromBech32(operator)
	if err != nil {
		panic(err)
	}
	return int64(d.w.ValByOper(a).Idx)
}

// the staking snapshot: GetBondedValidatorsByPower with tokens, last power and provider key, plus
// MaxValidators and M.  No threshold.
func (d *drv) oracle() common.T {
	vals, err := common.FakeStaking{W: d.w}.GetBondedValidatorsByPower(d.env.Ctx)
	if err != nil {
		panic(err)
	}
	out := make([]common.T, len(vals))
	for i, sv := range vals {
		v := d.w.Vals[d.idxOfOper(sv.GetOperator())]
		out[i] = common.L(int64(v.Idx), sv.GetBondedTokens().Int64(), v.LastPower, int64(1000+v.Idx))
	}
	return common.L(out, int64(d.w.MaxVals), d.env.K.GetMaxProviderConsensusValidators(d.env.Ctx))
}

func (d *drv) observe(code int64) common.T {
	k, ctx := d.env.K, d.env.Ctx
	var thr common.T = common.L()
	if m, found := k.GetMinimumPowerInTopN(ctx, cid); found {
		thr = common.L(m)
	}
	launched := k.GetConsumerPhase(ctx, cid) == providertypes.CONSUMER_PHASE_LAUNCHED
	vs, err := k.GetConsumerValSet(ctx, cid)
	if err != nil {
		panic(err)
	}
	type ent struct{ id, key, pow, h int64 }
	ents := []ent{}
	for _, cv := range vs {
		e := ent{id: -1, key: -1, pow: cv.Power, h: cv.JoinHeight}
		if v := d.w.ValByCons(sdk.ConsAddress(cv.ProviderConsAddr)); v != nil {
			e.id = int64(v.Idx)
		}
		if cv.PublicKey != nil {
			a, err := ccvtypes.TMCryptoPublicKeyToConsAddr(*cv.PublicKey)
			if err != nil {
				panic(err)
			}
			if kid, ok := d.keys[string(a)]; ok {
				e.key = kid
			}
		}
		ents = append(ents, e)
	}
	sort.SliceStable(ents, func(i, j int) bool { return ents[i].id < ents[j].id })
	set := make([]common.T, len(ents))
	for i, e := range ents {
		set[i] = common.L(e.id, e.key, e.pow, e.h)
	}
	opted := []int64{}
	for _, v := range d.w.Vals {
		if k.IsOptedIn(ctx, cid, providertypes.NewProviderConsAddress(v.ConsAddr())) {
			opted = append(opted, int64(v.Idx))
		}
	}
	return common.L(code, thr, common.L(common.B(launched), set, common.Ints(opted)))
}

func TestDriver(t *testing.T) {
	common.RunCases(t, func(c common.Case) (common.T, common.T) {
		var k kase
		if err := json.Unmarshal(c.Raw, &k); err != nil {
			panic(err)
		}
		return runHistory(t, k)
	})
}

func runHistory(t *testing.T, k kase) (common.T, common.T) {
	w := common.NewWorld(0)
	for _, tk := range k.Tokens {
		w.AddVal(tk)
	}
	if k.MaxVals > 0 {
		w.MaxVals = k.MaxVals
	}
	w.StakingEndBlock()
	env := common.NewProviderEnv(t, w)
	params := providertypes.DefaultParams()
	params.BlocksPerEpoch = 1
	params.MaxProviderConsensusValidators = k.M
	env.InitGenesis(params)
	d := &drv{t: t, w: w, env: env, keys: map[string]int64{}}
	for i := range w.Vals {
		d.keys[string(common.Key(1000+i).PubKey().Address())] = int64(1000 + i)
	}
	for i := 0; i < 40; i++ {
		d.keys[string(common.Key(consumerKeyBase+i).PubKey().Address())] = int64(consumerKeyBase + i)
	}
	res := env.Deliver(&providertypes.MsgCreateConsumer{
		Submitter: env.Authority,
		ChainId:   "c03sys-1",
		Metadata:  providertypes.ConsumerMetadata{Name: "c03sys", Description: "c03sys", Metadata: "c03sys"},
	})
	if !res.OK() {
		panic("create consumer: " + res.String())
	}

	input, obs := []common.T{}, []common.T{}
	emit := func(op common.T, code int64) {
		input = append(input, op)
		obs = append(obs, d.observe(code))
	}
	for _, o := range k.Ops {
		switch num(o[0]) {
		case 10: // MsgUpdateConsumer with power-shaping parameters (owner = gov authority)
			g := parseCfg(o[1:])
			op := common.L(0, g.topN, g.setCap, g.powerCap, g.minStake, common.B(g.allowInactive),
				common.Ints(g.allow), common.Ints(g.deny), common.Ints(g.prio), d.oracle())
			r := env.Deliver(&providertypes.MsgUpdateConsumer{Owner: env.Authority, ConsumerId: cid, PowerShapingParameters: d.shaping(g)})
			switch {
			case r.OK():
				emit(op, 0)
			case r.Panic == nil && errors.Is(r.Err, providertypes.ErrCannotUpdateMinimumPowerInTopN):
				emit(op, 2)
			}
		case 11: // MsgOptIn (optionally with a consumer key)
			v, key := num(o[1]), num(o[2])
			val := w.Vals[v]
			msg := &providertypes.MsgOptIn{ConsumerId: cid, ProviderAddr: val.Oper.String(), Signer: sdk.AccAddress(val.Oper).String()}
			if key != 0 {
				msg.ConsumerKey = keyJSON(key)
			}
			if r := env.Deliver(msg); r.OK() {
				emit(common.L(1, v), 0)
				if key != 0 {
					emit(common.L(3, v, key), 0)
				}
			}
		case 12: // MsgOptOut: every attempt of a registered validator is a model op
			v := num(o[1])
			val := w.Vals[v]
			op := common.L(2, v, val.LastPower)
			r := env.Deliver(&providertypes.MsgOptOut{ConsumerId: cid, ProviderAddr: val.Oper.String(), Signer: sdk.AccAddress(val.Oper).String()})
			code := int64(9)
			switch {
			case r.OK():
				code = 0
			case r.Panic != nil:
				code = 8
			case errors.Is(r.Err, providertypes.ErrInvalidPhase):
				code = 2
			case errors.Is(r.Err, providertypes.ErrUnknownConsumerId):
				code = 3
			case errors.Is(r.Err, providertypes.ErrCannotOptOutFromTopN):
				code = 4
			}
			emit(op, code)
		case 13: // MsgAssignConsumerKey
			v, key := num(o[1]), num(o[2])
			val := w.Vals[v]
			msg := &providertypes.MsgAssignConsumerKey{ConsumerId: cid, ProviderAddr: val.Oper.String(),
				ConsumerKey: keyJSON(key), Signer: sdk.AccAddress(val.Oper).String()}
			if r := env.Deliver(msg); r.OK() {
				emit(common.L(3, v, key), 0)
			}
		case 14: // launch: spawn time = now, the next block's BeginBlock launches the consumer
			ip := providertypes.DefaultConsumerInitializationParameters()
			ip.SpawnTime = env.Ctx.BlockTime()
			r := env.Deliver(&providertypes.MsgUpdateConsumer{Owner: env.Authority, ConsumerId: cid, InitializationParameters: &ip})
			if !r.OK() { // already launched
				emit(common.L(4, env.Ctx.BlockHeight(), d.oracle()), 1)
				continue
			}
			env.NextBlock(6e9)
			op := common.L(4, env.Ctx.BlockHeight(), d.oracle())
			code := int64(0)
			if br := env.BeginBlock(); !br.OK() {
				code = 8
			} else if env.K.GetConsumerPhase(env.Ctx, cid) != providertypes.CONSUMER_PHASE_LAUNCHED {
				code = 2
			}
			emit(op, code)
		case 15: // epoch: EndBlock of the current block (BlocksPerEpoch = 1), then the next block begins
			op := common.L(5, env.Ctx.BlockHeight(), d.oracle())
			code := int64(0)
			if _, r := env.EndBlock(); !r.OK() {
				code = 3
			}
			emit(op, code)
			env.NextBlock(6e9)
			if br := env.BeginBlock(); !br.OK() {
				panic("begin block: " + br.String())
			}
		case 20: // staking: tokens of validator v
			w.Vals[num(o[1])].Tokens = math.NewInt(num(o[2]))
		case 21: // staking: jail / unjail (takes the validator out of the power index at once)
			w.Vals[num(o[1])].Jailed = num(o[2]) != 0
		case 22: // staking EndBlock: bonded set and last powers follow the power index
			w.StakingEndBlock()
		case 23: // staking MaxValidators
			w.MaxVals = uint32(num(o[1]))
		case 24: // MsgUpdateParams from the authority: MaxProviderConsensusValidators
			p := env.K.GetParams(env.Ctx)
			p.MaxProviderConsensusValidators = num(o[1])
			env.Deliver(&providertypes.MsgUpdateParams{Authority: env.Authority, Params: p})
		default:
			panic("bad opcode")
		}
	}
	return input, obs
}
