package c15

// Correspondence driver for C15 (the provider's own consensus set is the top-M bonded validators).
// A case is a staking history over the REAL provider keeper and module EndBlock on the fake World: InitGenesis,
// then blocks in which validators gain/lose tokens, get jailed/unjailed, enter/leave the bonded set, staking
// MaxValidators changes and M (MaxProviderConsensusValidators) is changed by MsgUpdateParams from the authority.
// The validator updates RETURNED by InitGenesis and by every EndBlock are folded into an engine-side map
// (power 0 deletes), and compared with GetLastProviderConsensusValSet and the staking oracle.  View ops call the
// keeper's IterateBondedValidatorsByPower / TotalBondedTokens / BondedRatio (the staking views given to gov/mint).

import (
	"bytes"
	"encoding/json"
	"sort"
	"testing"

	"cosmossdk.io/math"

	sdk "github.com/cosmos/cosmos-sdk/types"
	stakingtypes "github.com/cosmos/cosmos-sdk/x/staking/types"

	abci "github.com/cometbft/cometbft/abci/types"

	"verifharness/common"

	providertypes "github.com/cosmos/interchain-security/v7/x/ccv/provider/types"
	ccvtypes "github.com/cosmos/interchain-security/v7/x/ccv/types"
)

type kase struct {
	Tokens  []int64   `json:"tokens"`
	MaxVals uint32    `json:"max_vals"`
	M       int64     `json:"M"`
	Ops     [][]int64 `json:"ops"`
}

type drv struct {
	w      *common.World
	env    *common.ProviderEnv
	rank   map[string]int64 // consensus address -> rank in byte order (the store's iteration order)
	keys   map[string]int64 // consensus address of a public key -> key id
	engine map[int64]int64  // the consensus engine's side: key id -> power
}

func (d *drv) idxOfOper(operator string) int {
	a, err := sdk.ValAddressFromBech32(operator)
	if err != nil {
		panic(err)
	}
	return d.w.ValByOper(a).Idx
}

// GetBondedValidatorsByPower with consensus-address rank, provider key, last power and bonded tokens
func (d *drv) oracle() common.T {
	vals, err := common.FakeStaking{W: d.w}.GetBondedValidatorsByPower(d.env.Ctx)
	if err != nil {
		panic(err)
	}
	out := make([]common.T, len(vals))
	for i, sv := range vals {
		v := d.w.Vals[d.idxOfOper(sv.GetOperator())]
		out[i] = common.L(d.rank[string(v.ConsAddr())], int64(1000+v.Idx), v.LastPower, sv.GetBondedTokens().Int64())
	}
	return out
}

func (d *drv) apply(upd []abci.ValidatorUpdate) common.T {
	out := make([]common.T, len(upd))
	for i, u := range upd {
		a, err := ccvtypes.TMCryptoPublicKeyToConsAddr(u.PubKey)
		if err != nil {
			panic(err)
		}
		kid, ok := d.keys[string(a)]
		if !ok {
			kid = -1
		}
		out[i] = common.L(kid, u.Power)
		if u.Power == 0 {
			delete(d.engine, kid)
		} else {
			d.engine[kid] = u.Power
		}
	}
	return out
}

func (d *drv) observe(upd []abci.ValidatorUpdate) common.T {
	us := d.apply(upd)
	vs, err := d.env.K.GetLastProviderConsensusValSet(d.env.Ctx)
	if err != nil {
		panic(err)
	}
	rec := make([]common.T, len(vs))
	for i, cv := range vs {
		r, ok := d.rank[string(cv.ProviderConsAddr)]
		if !ok {
			r = -1
		}
		kid := int64(-1)
		if cv.PublicKey != nil {
			a, err := ccvtypes.TMCryptoPublicKeyToConsAddr(*cv.PublicKey)
			if err != nil {
				panic(err)
			}
			if k, ok := d.keys[string(a)]; ok {
				kid = k
			}
		}
		rec[i] = common.L(r, kid, cv.Power)
	}
	ks := make([]int64, 0, len(d.engine))
	for k := range d.engine {
		ks = append(ks, k)
	}
	sort.Slice(ks, func(i, j int) bool { return ks[i] < ks[j] })
	eng := make([]common.T, len(ks))
	for i, k := range ks {
		eng[i] = common.L(k, d.engine[k])
	}
	return common.L(us, rec, eng)
}

func TestDriver(t *testing.T) {
	common.RunCases(t, func(c common.Case) (common.T, common.T) {
		var k kase
		if err := json.Unmarshal(c.Raw, &k); err != nil {
			panic(err)
		}
		return runHistory(t, k)
	})
}

func runHistory(t *testing.T, k kase) (common.T, common.T) {
	w := common.NewWorld(0)
	for _, tk := range k.Tokens {
		w.AddVal(tk)
	}
	if k.MaxVals > 0 {
		w.MaxVals = k.MaxVals
	}
	w.StakingEndBlock()
	env := common.NewProviderEnv(t, w)
	d := &drv{w: w, env: env, rank: map[string]int64{}, keys: map[string]int64{}, engine: map[int64]int64{}}
	addrs := make([][]byte, len(w.Vals))
	for i, v := range w.Vals {
		addrs[i] = v.ConsAddr()
		d.keys[string(v.ConsAddr())] = int64(1000 + i)
	}
	sort.Slice(addrs, func(i, j int) bool { return bytes.Compare(addrs[i], addrs[j]) < 0 })
	for i, a := range addrs {
		d.rank[string(a)] = int64(i)
	}

	input, obs := []common.T{}, []common.T{}
	params := providertypes.DefaultParams()
	params.BlocksPerEpoch = 1
	params.MaxProviderConsensusValidators = k.M
	input = append(input, common.L(0, d.oracle(), k.M))
	obs = append(obs, d.observe(env.InitGenesis(params)))

	for _, o := range k.Ops {
		switch o[0] {
		case 1: // a block: the provider module's EndBlock returns the validator updates
			input = append(input, common.L(1, d.oracle(), env.K.GetMaxProviderConsensusValidators(env.Ctx)))
			upd, r := env.EndBlock()
			if !r.OK() {
				obs = append(obs, common.L(-3))
			} else {
				obs = append(obs, d.observe(upd))
			}
			env.NextBlock(6e9)
			if br := env.BeginBlock(); !br.OK() {
				panic("begin block: " + br.String())
			}
		case 2: // the staking views exposed to gov / mint
			supply, err := common.FakeStaking{W: w}.StakingTokenSupply(env.Ctx)
			if err != nil {
				panic(err)
			}
			input = append(input, common.L(2, d.oracle(), env.K.GetMaxProviderConsensusValidators(env.Ctx), supply.Int64()))
			visited := []int64{}
			err = env.K.IterateBondedValidatorsByPower(env.Ctx, func(_ int64, v stakingtypes.ValidatorI) bool {
				visited = append(visited, d.rank[string(w.Vals[d.idxOfOper(v.GetOperator())].ConsAddr())])
				return false
			})
			if err != nil {
				panic(err)
			}
			total, err := env.K.TotalBondedTokens(env.Ctx)
			if err != nil {
				panic(err)
			}
			ratio, err := env.K.BondedRatio(env.Ctx)
			if err != nil {
				panic(err)
			}
			obs = append(obs, common.L(common.Ints(visited), total.Int64(), ratio.BigInt()))
		case 20: // staking: tokens of validator v
			w.Vals[o[1]].Tokens = math.NewInt(o[2])
		case 21: // staking: jail / unjail
			w.Vals[o[1]].Jailed = o[2] != 0
		case 22: // staking EndBlock
			w.StakingEndBlock()
		case 23: // staking MaxValidators
			w.MaxVals = uint32(o[1])
		case 24: // MsgUpdateParams from the authority: MaxProviderConsensusValidators
			p := env.K.GetParams(env.Ctx)
			p.MaxProviderConsensusValidators = o[1]
			env.Deliver(&providertypes.MsgUpdateParams{Authority: env.Authority, Params: p})
		default:
			panic("bad opcode")
		}
	}
	return input, obs
}
