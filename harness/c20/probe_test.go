package c20

import (
	"fmt"
	"testing"
	"time"

	"cosmossdk.io/math"

	sdk "github.com/cosmos/cosmos-sdk/types"

	"verifharness/common"

	providertypes "github.com/cosmos/interchain-security/v7/x/ccv/provider/types"
)

func TestProbe(t *testing.T) {
	w := common.NewWorld(3)
	env := common.NewProviderEnv(t, w)
	p := providertypes.DefaultParams()
	p.BlocksPerEpoch = 1
	env.InitGenesis(p)
	owner := sdk.AccAddress([]byte("owner000000000000001")).String()
	t0 := time.Now()
	r := env.Deliver(&providertypes.MsgCreateConsumer{Submitter: owner, ChainId: "foo-1",
		Metadata:                 providertypes.ConsumerMetadata{Name: "n", Description: "d", Metadata: "m"},
		InitializationParameters: initParams(common.T0.Add(10 * time.Second)),
		InfractionParameters: &providertypes.InfractionParameters{Downtime: &providertypes.SlashJailParameters{
			JailDuration: 7 * time.Second, SlashFraction: math.LegacyNewDecWithPrec(3, 2)}}})
	fmt.Println("create:", r, env.K.GetConsumerPhase(env.Ctx, "0"))
	r = env.Deliver(&providertypes.MsgOptIn{ConsumerId: "0", ProviderAddr: w.Vals[0].Oper.String(), Signer: sdk.AccAddress(w.Vals[0].Oper).String()})
	fmt.Println("optin:", r)
	env.NextBlock(20 * time.Second)
	r = env.BeginBlock()
	fmt.Println("beginblock:", r, env.K.GetConsumerPhase(env.Ctx, "0"), time.Since(t0))
	ip, err := env.K.GetInfractionParameters(env.Ctx, "0")
	fmt.Println(ip, err)
	// update on launched
	r = env.Deliver(&providertypes.MsgUpdateConsumer{Owner: owner, ConsumerId: "0",
		InfractionParameters: &providertypes.InfractionParameters{Downtime: &providertypes.SlashJailParameters{
			JailDuration: 9 * time.Second, SlashFraction: math.LegacyNewDecWithPrec(4, 2)}}})
	fmt.Println("update:", r)
	fmt.Println(readSchedule(env))
	// downtime slash
	env.K.SetValsetUpdateBlockHeight(env.Ctx, 1, 1)
	fmt.Println(slashDowntime(env, "0", 0))
	fmt.Println(slashDoubleSign(env, "0", 1))
	env.NextBlock(w.Unbonding)
	r = env.BeginBlock()
	fmt.Println("beginblock:", r)
	fmt.Println(readSchedule(env))
	fmt.Println(slashDowntime(env, "0", 0))
	// stop + delete
	r = env.Deliver(&providertypes.MsgRemoveConsumer{Owner: owner, ConsumerId: "0"})
	fmt.Println("remove:", r, env.K.GetConsumerPhase(env.Ctx, "0"))
	env.NextBlock(w.Unbonding)
	r = env.BeginBlock()
	fmt.Println("beginblock:", r, env.K.GetConsumerPhase(env.Ctx, "0"))
	fmt.Println(slashDowntime(env, "0", 0))
	fmt.Println(slashDoubleSign(env, "0", 1))
}
