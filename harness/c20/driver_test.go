package c20

// Correspondence driver for C20 (infraction parameters in force; changes delayed by unbonding).
// A case is a history of small-integer actions executed on the REAL provider keeper / msg server /
// module BeginBlock.  After every action the driver records the result class and a snapshot of the
// three stores the property talks about (parameters in force, queued parameters, update schedule),
// and for infractions the slash fraction / jail-until / tombstone actually applied to the fake World.

import (
	"bytes"
	"encoding/json"
	"errors"
	"math/big"
	"strconv"
	"strings"
	"testing"
	"time"

	clienttypes "github.com/cosmos/ibc-go/v10/modules/core/02-client/types"

	"cosmossdk.io/math"
	storetypes "cosmossdk.io/store/types"

	sdk "github.com/cosmos/cosmos-sdk/types"
	stakingtypes "github.com/cosmos/cosmos-sdk/x/staking/types"

	abci "github.com/cometbft/cometbft/abci/types"
	tmproto "github.com/cometbft/cometbft/proto/tendermint/types"
	tmtypes "github.com/cometbft/cometbft/types"

	"verifharness/common"

	providertypes "github.com/cosmos/interchain-security/v7/x/ccv/provider/types"
	ccvtypes "github.com/cosmos/interchain-security/v7/x/ccv/types"
)

type kase struct {
	ID        int64             `json:"id"`
	Unbonding int64             `json:"unbonding"` // ns
	Actions   []json.RawMessage `json:"actions"`
}

// half = [jail ns, fraction raw (10^18 scale), tombstone]; nil = absent
type half []int64

var (
	owner    = sdk.AccAddress([]byte("owner000000000000001")).String()
	stranger = sdk.AccAddress([]byte("stranger000000000001")).String()
)

func initParams(spawn time.Time) *providertypes.ConsumerInitializationParameters {
	return &providertypes.ConsumerInitializationParameters{
		InitialHeight:                     clienttypes.NewHeight(1, 5),
		GenesisHash:                       []byte("gen_hash"),
		BinaryHash:                        []byte("bin_hash"),
		SpawnTime:                         spawn,
		ConsumerRedistributionFraction:    ccvtypes.DefaultConsumerRedistributeFrac,
		BlocksPerDistributionTransmission: ccvtypes.DefaultBlocksPerDistributionTransmission,
		DistributionTransmissionChannel:   "",
		HistoricalEntries:                 ccvtypes.DefaultHistoricalEntries,
		CcvTimeoutPeriod:                  ccvtypes.DefaultCCVTimeoutPeriod,
		TransferTimeoutPeriod:             ccvtypes.DefaultTransferTimeoutPeriod,
		UnbondingPeriod:                   ccvtypes.DefaultConsumerUnbondingPeriod,
	}
}

func decOfRaw(raw int64) math.LegacyDec {
	return math.LegacyNewDecFromBigIntWithPrec(big.NewInt(raw), math.LegacyPrecision)
}

func rawOfDec(d math.LegacyDec) int64 { return d.BigInt().Int64() }

func mkHalf(h half) *providertypes.SlashJailParameters {
	if h == nil {
		return nil
	}
	return &providertypes.SlashJailParameters{JailDuration: time.Duration(h[0]), SlashFraction: decOfRaw(h[1]), Tombstone: h[2] != 0}
}

// mkReq: nil = no InfractionParameters field; otherwise [ds, dt] with nil halves allowed
func mkReq(r []half) *providertypes.InfractionParameters {
	if r == nil {
		return nil
	}
	return &providertypes.InfractionParameters{DoubleSign: mkHalf(r[0]), Downtime: mkHalf(r[1])}
}

func encHalf(h *providertypes.SlashJailParameters) common.T {
	return common.L(int64(h.JailDuration), rawOfDec(h.SlashFraction), common.B(h.Tombstone))
}

func encParams(p providertypes.InfractionParameters) common.T {
	return common.L(encHalf(p.DoubleSign), encHalf(p.Downtime))
}

func encReqHalf(h half) common.T {
	if h == nil {
		return common.L()
	}
	return common.L(common.L(h[0], h[1], h[2]))
}

func encReq(r []half) common.T {
	if r == nil {
		return common.L()
	}
	return common.L(common.L(encReqHalf(r[0]), encReqHalf(r[1])))
}

func classify(r common.Result) int64 {
	switch {
	case r.OK():
		return 0
	case r.Panic != nil:
		return 7
	case strings.HasPrefix(r.Err.Error(), "validate-basic"):
		return 1
	case errors.Is(r.Err, providertypes.ErrInvalidPhase):
		return 2
	case errors.Is(r.Err, providertypes.ErrUnauthorized):
		return 3
	case errors.Is(r.Err, providertypes.ErrNoOwnerAddress):
		return 4
	}
	return 6
}

func phaseCode(p providertypes.ConsumerPhase) int64 {
	switch p {
	case providertypes.CONSUMER_PHASE_REGISTERED, providertypes.CONSUMER_PHASE_INITIALIZED:
		return 1
	case providertypes.CONSUMER_PHASE_LAUNCHED:
		return 2
	case providertypes.CONSUMER_PHASE_STOPPED:
		return 3
	case providertypes.CONSUMER_PHASE_DELETED:
		return 4
	}
	return 0
}

func cid(c int64) string { return strconv.FormatInt(c, 10) }

// readSchedule iterates the raw store under the InfractionScheduledTimeToConsumerIds prefix (ascending keys).
func readSchedule(env *common.ProviderEnv) common.T {
	store := env.Ctx.KVStore(env.StoreKey)
	prefix := providertypes.InfractionScheduledTimeToConsumerIdsKeyPrefix()
	it := storetypes.KVStorePrefixIterator(store, []byte{prefix})
	defer it.Close()
	out := []common.T{}
	for ; it.Valid(); it.Next() {
		ts, err := providertypes.ParseTime(prefix, it.Key())
		if err != nil {
			panic(err)
		}
		var ids providertypes.ConsumerIds
		if err := ids.Unmarshal(it.Value()); err != nil {
			panic(err)
		}
		l := []common.T{}
		for _, s := range ids.Ids {
			n, err := strconv.ParseInt(s, 10, 64)
			if err != nil {
				panic(err)
			}
			l = append(l, n)
		}
		out = append(out, common.L(ts.Sub(common.T0).Nanoseconds(), l))
	}
	return out
}

func snapshot(env *common.ProviderEnv, n int64) common.T {
	cons := []common.T{}
	for c := int64(0); c < n; c++ {
		var cur, queued common.T = common.L(), common.L()
		if p, err := env.K.GetInfractionParameters(env.Ctx, cid(c)); err == nil {
			cur = common.L(encParams(p))
		}
		if env.K.HasQueuedInfractionParameters(env.Ctx, cid(c)) {
			p, err := env.K.GetQueuedInfractionParameters(env.Ctx, cid(c))
			if err != nil {
				panic(err)
			}
			queued = common.L(encParams(p))
		}
		cons = append(cons, common.L(phaseCode(env.K.GetConsumerPhase(env.Ctx, cid(c))), cur, queued))
	}
	return common.L(cons, readSchedule(env))
}

// resetVal makes validator vi punishable again (the fake World is not rolled back by failed txs).
func resetVal(w *common.World, vi int) *common.Val {
	v := w.Vals[vi]
	v.Jailed, v.Tombstoned, v.JailedUntil = false, false, time.Time{}
	v.Tokens = math.NewInt(int64(1+vi) * common.PowerReduction)
	v.Status = stakingtypes.Bonded
	v.LastPower = v.Power()
	return v
}

// slashDowntime delivers a downtime slash for consumer c through the real HandleSlashPacket and reports
// [1, fraction, jail duration] as applied to the World, or [0] when nothing was slashed.
func slashDowntime(env *common.ProviderEnv, c string, vi int) common.T {
	v := resetVal(env.W, vi)
	n0 := len(v.SlashLog)
	data := ccvtypes.SlashPacketData{
		Validator:      abci.Validator{Address: v.ConsAddr(), Power: v.LastPower},
		ValsetUpdateId: 1,
		Infraction:     stakingtypes.Infraction_INFRACTION_DOWNTIME,
	}
	res := common.Tx(env.Ctx, func(ctx sdk.Context) error {
		env.K.HandleSlashPacket(ctx, c, data)
		return nil
	})
	if !res.OK() {
		return common.L(int64(-1))
	}
	if len(v.SlashLog) == n0 {
		return common.L(int64(0))
	}
	frac := math.LegacyMustNewDecFromStr(v.SlashLog[n0].Fraction)
	if !v.Jailed {
		return common.L(int64(-2))
	}
	return common.L(int64(1), rawOfDec(frac), int64(v.JailedUntil.Sub(env.Ctx.BlockTime())))
}

func hash32(b byte) []byte { return bytes.Repeat([]byte{b}, 32) }

// slashDoubleSign submits a real, correctly signed duplicate-vote evidence for consumer c through
// HandleConsumerDoubleVoting and reports [1, fraction, jail duration, tombstoned] as applied, or [0].
// pre tells whether the checks in front of the parameter read can pass (the consumer has a client).
func slashDoubleSign(env *common.ProviderEnv, c string, vi int) (obs common.T, pre bool) {
	v := resetVal(env.W, vi)
	n0 := len(v.SlashLog)
	_, pre = env.K.GetConsumerClientId(env.Ctx, c)
	chainID, err := env.K.GetConsumerChainId(env.Ctx, c)
	if err != nil {
		chainID = "unknown"
	}
	pk := v.Priv.PubKey()
	vote := func(h byte) *tmtypes.Vote {
		vt := &tmtypes.Vote{
			Type: tmproto.PrecommitType, Height: 1000, Round: 0,
			BlockID:          tmtypes.BlockID{Hash: hash32(h), PartSetHeader: tmtypes.PartSetHeader{Total: 1, Hash: hash32(h + 1)}},
			Timestamp:        common.T0,
			ValidatorAddress: pk.Address().Bytes(), ValidatorIndex: 0,
		}
		sig, err := v.Priv.Sign(tmtypes.VoteSignBytes(chainID, vt.ToProto()))
		if err != nil {
			panic(err)
		}
		vt.Signature = sig
		return vt
	}
	ev := &tmtypes.DuplicateVoteEvidence{VoteA: vote(1), VoteB: vote(3), TotalVotingPower: 10, ValidatorPower: 1, Timestamp: common.T0}
	res := common.Tx(env.Ctx, func(ctx sdk.Context) error {
		return env.K.HandleConsumerDoubleVoting(ctx, c, ev, pk)
	})
	if res.Panic != nil {
		return common.L(int64(-1)), pre
	}
	if !res.OK() || len(v.SlashLog) == n0 {
		return common.L(int64(0)), pre
	}
	frac := math.LegacyMustNewDecFromStr(v.SlashLog[n0].Fraction)
	return common.L(int64(1), rawOfDec(frac), int64(v.JailedUntil.Sub(env.Ctx.BlockTime())), common.B(v.Tombstoned)), pre
}

func parseHalves(raw json.RawMessage) []half {
	var r []half
	if err := json.Unmarshal(raw, &r); err != nil {
		panic(err)
	}
	return r
}

func TestDriver(t *testing.T) {
	common.RunCases(t, func(c common.Case) (common.T, common.T) {
		var k kase
		if err := json.Unmarshal(c.Raw, &k); err != nil {
			panic(err)
		}
		w := common.NewWorld(3)
		w.Unbonding = time.Duration(k.Unbonding)
		env := common.NewProviderEnv(t, w)
		p := providertypes.DefaultParams()
		p.BlocksPerEpoch = 1
		env.InitGenesis(p)
		// infraction height for vscId 1, so that HandleSlashPacket reaches the parameter read for any consumer
		env.K.SetValsetUpdateBlockHeight(env.Ctx, 1, 1)

		dflt := common.L(
			common.L(int64(1<<63-1), rawOfDec(env.Slashing.FracDoubleSign), int64(1)),
			common.L(int64(env.Slashing.DowntimeJail), int64(0), int64(0)))
		now := func() int64 { return env.Ctx.BlockTime().Sub(common.T0).Nanoseconds() }

		var created int64
		groups := []common.T{}
		obs := []common.T{}

		// do executes one action and returns the model ops it corresponds to and the observed result
		var do func(raw json.RawMessage) (ops []common.T, res common.T)
		do = func(raw json.RawMessage) (ops []common.T, res common.T) {
			var a []json.RawMessage
			if err := json.Unmarshal(raw, &a); err != nil {
				panic(err)
			}
			num := func(i int) int64 {
				var n int64
				if err := json.Unmarshal(a[i], &n); err != nil {
					panic(err)
				}
				return n
			}
			one := func(op common.T, res common.T) ([]common.T, common.T) { return []common.T{op}, res }
			switch num(0) {
			case 0: // create: [0, mode, req]  mode 0 registered only, 1 spawn now + opt-in (launches), 2 spawn now without opt-in (launch fails)
				mode, req := num(1), parseHalves(a[2])
				msg := &providertypes.MsgCreateConsumer{Submitter: owner, ChainId: "chain" + cid(created) + "-1",
					Metadata:             providertypes.ConsumerMetadata{Name: "n", Description: "d", Metadata: "m"},
					InfractionParameters: mkReq(req)}
				if mode != 0 {
					msg.InitializationParameters = initParams(env.Ctx.BlockTime().Add(time.Nanosecond))
				}
				r := env.Deliver(msg)
				if r.OK() {
					if mode == 1 {
						if rr := env.Deliver(&providertypes.MsgOptIn{ConsumerId: cid(created), ProviderAddr: w.Vals[0].Oper.String(),
							Signer: sdk.AccAddress(w.Vals[0].Oper).String()}); !rr.OK() {
							panic("opt-in failed: " + rr.String())
						}
					}
					created++
				}
				return one(common.L(int64(0), dflt, encReq(req)), common.L(classify(r)))
			case 1: // update: [1, c, sender, req]
				cc, sender, req := num(1), num(2), parseHalves(a[3])
				from := owner
				if sender != 0 {
					from = stranger
				}
				r := env.Deliver(&providertypes.MsgUpdateConsumer{Owner: from, ConsumerId: cid(cc), InfractionParameters: mkReq(req)})
				return one(common.L(int64(1), cc, common.B(sender == 0), encReq(req), int64(w.Unbonding)), common.L(classify(r)))
			case 2: // direct UpdateQueuedInfractionParams on a launched consumer: [2, c, [ds, dt]]
				cc, req := num(1), parseHalves(a[2])
				ip := *mkReq(req)
				code := int64(6)
				if env.K.GetConsumerPhase(env.Ctx, cid(cc)) == providertypes.CONSUMER_PHASE_LAUNCHED {
					r := common.Tx(env.Ctx, func(ctx sdk.Context) error {
						return env.K.UpdateQueuedInfractionParams(ctx, cid(cc), ip)
					})
					code = classify(r)
				}
				return one(common.L(int64(2), cc, common.L(common.L(req[0][0], req[0][1], req[0][2]), common.L(req[1][0], req[1][1], req[1][2])),
					int64(w.Unbonding)), common.L(code))
			case 3: // launch by setting the phase directly (cheap; for the histories with hundreds of consumers): [3, c]
				cc := num(1)
				code := int64(2)
				if phaseCode(env.K.GetConsumerPhase(env.Ctx, cid(cc))) == 1 {
					env.K.SetConsumerPhase(env.Ctx, cid(cc), providertypes.CONSUMER_PHASE_LAUNCHED)
					code = 0
				}
				return one(common.L(int64(3), cc), common.L(code))
			case 4: // MsgRemoveConsumer: [4, c, sender]
				cc, sender := num(1), num(2)
				from := owner
				if sender != 0 {
					from = stranger
				}
				r := env.Deliver(&providertypes.MsgRemoveConsumer{Owner: from, ConsumerId: cid(cc)})
				return one(common.L(int64(4), cc, common.B(sender == 0)), common.L(classify(r)))
			case 6: // next block dt ns later + module BeginBlock: [6, dt]
				before := make([]int64, created)
				for i := range before {
					before[i] = phaseCode(env.K.GetConsumerPhase(env.Ctx, cid(int64(i))))
				}
				env.NextBlock(time.Duration(num(1)))
				r := env.BeginBlock()
				group := []common.T{}
				var dels []common.T
				for i := range before {
					after := phaseCode(env.K.GetConsumerPhase(env.Ctx, cid(int64(i))))
					if before[i] == 1 && after == 2 {
						group = append(group, common.L(int64(3), int64(i)))
					}
					if before[i] == 3 && after == 4 {
						dels = append(dels, common.L(int64(5), int64(i)))
					}
				}
				group = append(group, dels...)
				group = append(group, common.L(int64(6), now()))
				code := int64(0)
				if !r.OK() {
					code = 5
				}
				return group, common.L(code)
			case 7: // infraction handled for consumer c: [7, c, kind]  kind 0 downtime, 1 double sign
				cc, kind := num(1), num(2)
				pre := true
				if kind == 0 {
					res = slashDowntime(env, cid(cc), 1)
				} else {
					res, pre = slashDoubleSign(env, cid(cc), 2)
				}
				return one(common.L(int64(7), cc, kind, common.B(pre)), res)
			case 8: // the provider's unbonding period changes (staking param): [8, ns]
				w.Unbonding = time.Duration(num(1))
				return []common.T{}, common.L()
			case 9: // batch: [9, [action...]] executed with a single observation at the end
				var sub []json.RawMessage
				if err := json.Unmarshal(a[1], &sub); err != nil {
					panic(err)
				}
				all := []common.T{}
				var last common.T = common.L()
				for _, s := range sub {
					o, r := do(s)
					all = append(all, o...)
					last = r
				}
				return all, last
			}
			panic("unknown action")
		}

		for _, raw := range k.Actions {
			ops, res := do(raw)
			groups = append(groups, common.T(ops))
			obs = append(obs, common.L(res, snapshot(env, created)))
		}
		return groups, obs
	})
}
