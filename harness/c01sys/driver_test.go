package c01sys

// Correspondence driver for the composed model Model/System.v (C01 end to end: Eligibility x Vsc, one consumer).
// Real: the provider keeper (MsgCreateConsumer / MsgUpdateConsumer / MsgOptIn / MsgOptOut / MsgAssignConsumerKey /
// MsgRemoveConsumer through env.Deliver, module BeginBlock / EndBlock, SetConsumerChain) and one real consumer keeper
// (InitGenesis from the provider-made genesis, module BeginBlock / EndBlock, OnRecvVSCPacket).  The driver is the relayer.
// Scripted: staking (fake World) and IBC.  Unlike harness/c01 the model input does NOT contain the computed set:
// it contains the STAKING SNAPSHOT (GetBondedValidatorsByPower order, tokens, last power, provider key,
// MaxValidators, M, ComputeMinPowerInTopN) of the launch block and of every epoch block, the accepted
// eligibility messages, and the relay schedule.  (Code adapted from harness/c01 and harness/c02.)

import (
	"encoding/base64"
	"encoding/json"
	"fmt"
	"sort"
	"testing"
	"time"

	clienttypes "github.com/cosmos/ibc-go/v10/modules/core/02-client/types"
	channeltypes "github.com/cosmos/ibc-go/v10/modules/core/04-channel/types"

	"cosmossdk.io/math"

	sdk "github.com/cosmos/cosmos-sdk/types"

	abci "github.com/cometbft/cometbft/abci/types"

	"verifharness/common"

	providertypes "github.com/cosmos/interchain-security/v7/x/ccv/provider/types"
	ccvtypes "github.com/cosmos/interchain-security/v7/x/ccv/types"
)

type kase struct {
	Tokens  []int64             `json:"tokens"`
	MaxVals uint32              `json:"max_vals"`
	M       int64               `json:"M"`
	BPE     int64               `json:"bpe"`
	Cfg     []json.RawMessage   `json:"cfg"` // power shaping at creation (top_n forced to 0)
	Pre     [][]json.RawMessage `json:"pre"` // ops before the launch
	Ops     [][]json.RawMessage `json:"ops"`
}

type cfg struct {
	topN, setCap, powerCap, minStake int64
	allowInactive                    bool
	allow, deny, prio                []int64
}

const (
	cid    = "0"
	chanID = "channel-0"
	nKeys  = 64
)

var (
	keyByPub  = map[string]int64{}
	keyByAddr = map[string]int64{}
)

func init() {
	reg := func(n int) {
		pk := common.Key(n).PubKey()
		keyByPub[string(pk.Bytes())] = int64(n)
		keyByAddr[string(pk.Address())] = int64(n)
	}
	for n := 1; n <= nKeys; n++ {
		reg(n)
	}
	for n := 1000; n < 1000+40; n++ {
		reg(n)
	}
}

func pubID(bz []byte) int64 {
	if id, ok := keyByPub[string(bz)]; ok {
		return id
	}
	return -7
}

func addrID(bz []byte) int64 {
	if id, ok := keyByAddr[string(bz)]; ok {
		return id
	}
	return -7
}

func keyJSON(n int64) string {
	return fmt.Sprintf(`{"@type":"/cosmos.crypto.ed25519.PubKey","key":"%s"}`,
		base64.StdEncoding.EncodeToString(common.Key(int(n)).PubKey().Bytes()))
}

func num(raw json.RawMessage) int64 {
	var x int64
	if err := json.Unmarshal(raw, &x); err != nil {
		panic(err)
	}
	return x
}

func ints(raw json.RawMessage) []int64 {
	var l []int64
	if err := json.Unmarshal(raw, &l); err != nil {
		panic(err)
	}
	return l
}

func sortedPairs(m map[int64]int64) common.T {
	keys := make([]int64, 0, len(m))
	for k := range m {
		keys = append(keys, k)
	}
	sort.Slice(keys, func(i, j int) bool { return keys[i] < keys[j] })
	out := make([]common.T, len(keys))
	for i, k := range keys {
		out[i] = common.L(k, m[k])
	}
	return out
}

type drv struct {
	t        *testing.T
	k        kase
	w        *common.World
	env      *common.ProviderEnv
	g        cfg
	clientID string
	cw       *common.World
	cenv     *common.ConsumerEnv
	engine   map[int64]int64
	inflight []common.SentPacket
	nopen    int
	ops      []common.T
	obs      []common.T
}

func (d *drv) consAddrStr(id int64) string {
	if id >= 0 && int(id) < len(d.w.Vals) {
		return d.w.Vals[id].ConsAddr().String()
	}
	return sdk.ConsAddress(common.Key(5000 + int(id)).PubKey().Address()).String()
}

func parseCfg(a []json.RawMessage) cfg {
	return cfg{topN: num(a[0]), setCap: num(a[1]), powerCap: num(a[2]), minStake: num(a[3]), allowInactive: num(a[4]) != 0,
		allow: ints(a[5]), deny: ints(a[6]), prio: ints(a[7])}
}

func (d *drv) shaping(g cfg) *providertypes.PowerShapingParameters {
	ps := &providertypes.PowerShapingParameters{Top_N: uint32(g.topN), ValidatorSetCap: uint32(g.setCap),
		ValidatorsPowerCap: uint32(g.powerCap), MinStake: uint64(g.minStake), AllowInactiveVals: g.allowInactive}
	for _, id := range g.allow {
		ps.Allowlist = append(ps.Allowlist, d.consAddrStr(id))
	}
	for _, id := range g.deny {
		ps.Denylist = append(ps.Denylist, d.consAddrStr(id))
	}
	for _, id := range g.prio {
		ps.Prioritylist = append(ps.Prioritylist, d.consAddrStr(id))
	}
	return ps
}

// eligibility op in the encoding of Model/Eligibility.v (consumer index 0)
func cfgTree(g cfg) common.T {
	return common.L(0, 0, g.topN, g.setCap, g.powerCap, g.minStake, common.B(g.allowInactive),
		common.Ints(g.allow), common.Ints(g.deny), common.Ints(g.prio))
}

func (d *drv) launched() bool {
	return d.env.K.GetConsumerPhase(d.env.Ctx, cid) == providertypes.CONSUMER_PHASE_LAUNCHED
}

func (d *drv) someBonded() bool {
	vals, err := common.FakeStaking{W: d.w}.GetBondedValidatorsByPower(d.env.Ctx)
	return err == nil && len(vals) > 0
}

func (d *drv) oracle() common.T {
	vals, err := common.FakeStaking{W: d.w}.GetBondedValidatorsByPower(d.env.Ctx)
	if err != nil {
		panic(err)
	}
	out := make([]common.T, len(vals))
	for i, sv := range vals {
		a, err := sdk.ValAddressFromBech32(sv.GetOperator())
		if err != nil {
			panic(err)
		}
		v := d.w.ValByOper(a)
		out[i] = common.L(int64(v.Idx), v.Tokens.Int64(), v.LastPower, int64(1000+v.Idx))
	}
	return common.L(out, int64(d.w.MaxVals), d.env.K.GetMaxProviderConsensusValidators(d.env.Ctx))
}

func (d *drv) minPower() int64 {
	if d.g.topN <= 0 {
		return 0
	}
	active, err := d.env.K.GetLastProviderConsensusActiveValidators(d.env.Ctx)
	if err != nil {
		panic(err)
	}
	m, err := d.env.K.ComputeMinPowerInTopN(d.env.Ctx, active, uint32(d.g.topN))
	if err != nil {
		return 0
	}
	return m
}

// the provider's record of the consumer: [launched, [[validator, key, power, join height]... by validator], [opted-in]]
func (d *drv) record() (common.T, map[int64]int64) {
	k, ctx := d.env.K, d.env.Ctx
	vs, err := k.GetConsumerValSet(ctx, cid)
	if err != nil {
		panic(err)
	}
	type ent struct{ id, key, pow, h int64 }
	ents := []ent{}
	stored := map[int64]int64{}
	for _, cv := range vs {
		e := ent{id: -1, key: pubID(cv.PublicKey.GetEd25519()), pow: cv.Power, h: cv.JoinHeight}
		if v := d.w.ValByCons(sdk.ConsAddress(cv.ProviderConsAddr)); v != nil {
			e.id = int64(v.Idx)
		}
		ents = append(ents, e)
		stored[e.key] = e.pow
	}
	sort.SliceStable(ents, func(i, j int) bool { return ents[i].id < ents[j].id })
	set := make([]common.T, len(ents))
	for i, e := range ents {
		set[i] = common.L(e.id, e.key, e.pow, e.h)
	}
	opted := []int64{}
	for _, v := range d.w.Vals {
		if k.IsOptedIn(ctx, cid, providertypes.NewProviderConsAddress(v.ConsAddr())) {
			opted = append(opted, int64(v.Idx))
		}
	}
	return common.L(common.B(d.launched()), set, common.Ints(opted)), stored
}

func (d *drv) vsc2h() common.T {
	all := d.env.K.GetAllValsetUpdateBlockHeights(d.env.Ctx)
	out := make([]common.T, len(all))
	for i, e := range all {
		out[i] = common.L(int64(e.ValsetUpdateId), int64(e.Height))
	}
	return out
}

func updatesMap(us []abci.ValidatorUpdate) map[int64]int64 {
	m := map[int64]int64{}
	for _, u := range us {
		m[pubID(u.PubKey.GetEd25519())] = u.Power
	}
	return m
}

func (d *drv) fold(us []abci.ValidatorUpdate) {
	for _, u := range us {
		id := pubID(u.PubKey.GetEd25519())
		if u.Power == 0 {
			delete(d.engine, id)
		} else {
			d.engine[id] = u.Power
		}
	}
}

func (d *drv) emit(op, obs common.T) {
	d.ops = append(d.ops, op)
	d.obs = append(d.obs, obs)
}

// one eligibility-changing message (pre-launch: collected into pre; afterwards: op 10); returns the model op or nil
func (d *drv) eligibility(o []json.RawMessage) common.T {
	env, w := d.env, d.w
	val := func(v int64) *common.Val {
		if v < 0 || int(v) >= len(w.Vals) {
			return nil
		}
		return w.Vals[v]
	}
	switch num(o[0]) {
	case 10:
		g := parseCfg(o[1:])
		if r := env.Deliver(&providertypes.MsgUpdateConsumer{Owner: env.Authority, ConsumerId: cid, PowerShapingParameters: d.shaping(g)}); r.OK() {
			d.g = g
			return common.L(cfgTree(g))
		}
	case 11:
		v, key := val(num(o[1])), num(o[2])
		if v == nil {
			return nil
		}
		msg := &providertypes.MsgOptIn{ConsumerId: cid, ProviderAddr: v.Oper.String(), Signer: sdk.AccAddress(v.Oper).String()}
		if key != 0 {
			msg.ConsumerKey = keyJSON(key)
		}
		if r := env.Deliver(msg); r.OK() {
			if key != 0 {
				return common.L(common.L(1, 0, int64(v.Idx)), common.L(3, 0, int64(v.Idx), key))
			}
			return common.L(common.L(1, 0, int64(v.Idx)))
		}
	case 12:
		v := val(num(o[1]))
		if v == nil {
			return nil
		}
		if r := env.Deliver(&providertypes.MsgOptOut{ConsumerId: cid, ProviderAddr: v.Oper.String(), Signer: sdk.AccAddress(v.Oper).String()}); r.OK() {
			return common.L(common.L(2, 0, int64(v.Idx)))
		}
	case 13:
		v, key := val(num(o[1])), num(o[2])
		if v == nil {
			return nil
		}
		if r := env.Deliver(&providertypes.MsgAssignConsumerKey{ConsumerId: cid, ProviderAddr: v.Oper.String(),
			ConsumerKey: keyJSON(key), Signer: sdk.AccAddress(v.Oper).String()}); r.OK() {
			return common.L(common.L(3, 0, int64(v.Idx), key))
		}
	}
	return nil
}

// staking ops; true if handled
func (d *drv) stakingOp(o []json.RawMessage) bool {
	w := d.w
	switch num(o[0]) {
	case 20:
		v := w.Vals[num(o[1])]
		old := v.Tokens
		v.Tokens = math.NewInt(num(o[2]))
		if !d.someBonded() {
			v.Tokens = old
		}
	case 21:
		v := w.Vals[num(o[1])]
		old := v.Jailed
		v.Jailed = num(o[2]) != 0
		if !d.someBonded() {
			v.Jailed = old
		}
	case 22:
		w.StakingEndBlock()
	case 23:
		w.MaxVals = uint32(num(o[1]))
	case 24:
		p := d.env.K.GetParams(d.env.Ctx)
		p.MaxProviderConsensusValidators = num(o[1])
		d.env.Deliver(&providertypes.MsgUpdateParams{Authority: d.env.Authority, Params: p})
	default:
		return false
	}
	return true
}

func (d *drv) pendingIDs() common.T {
	ps := d.env.K.GetPendingVSCPackets(d.env.Ctx, cid)
	out := make([]common.T, len(ps))
	for i, p := range ps {
		out[i] = int64(p.ValsetUpdateId)
	}
	return out
}

func (d *drv) providerEndBlock() {
	isEpoch := d.env.Ctx.BlockHeight()%d.k.BPE == 0
	before := d.launched()
	var or common.T = common.L()
	mp := int64(0)
	if isEpoch && before {
		or, mp = d.oracle(), d.minPower()
	}
	nsent := len(d.w.Sent)
	if _, res := d.env.EndBlock(); !res.OK() {
		panic(fmt.Sprintf("provider EndBlock failed: %s", res))
	}
	var sent []common.T
	nc := int64(0)
	for _, sp := range d.w.Sent[nsent:] {
		if sp.Channel != chanID {
			continue
		}
		var data ccvtypes.ValidatorSetChangePacketData
		if err := ccvtypes.ModuleCdc.UnmarshalJSON(sp.Data, &data); err != nil {
			panic(err)
		}
		sent = append(sent, common.L(int64(data.ValsetUpdateId), sortedPairs(updatesMap(data.ValidatorUpdates))))
		d.inflight = append(d.inflight, sp)
		nc++
	}
	after := d.launched()
	kind, pos := int64(0), int64(0)
	_, hasChan := d.env.K.GetConsumerIdToChannelId(d.env.Ctx, cid)
	if before && !after {
		kind, pos = 2, nc
	} else if cl, ok := d.w.Clients[d.clientID]; ok && cl.Expired && hasChan && before {
		kind, pos = 1, 0
	}
	rec, stored := d.record()
	d.emit(common.L(1, common.B(isEpoch), or, mp, kind, pos),
		common.L(int64(d.env.K.GetValidatorSetUpdateId(d.env.Ctx)), common.B(after), sortedPairs(stored),
			d.pendingIDs(), common.L(sent...), d.vsc2h(), rec))
	d.env.NextBlock(5 * time.Second)
	if r := d.env.BeginBlock(); !r.OK() {
		panic(fmt.Sprintf("provider BeginBlock failed: %s", r))
	}
}

func (d *drv) open() {
	connID := "connection-" + cid
	ch := chanID
	if d.nopen > 0 {
		ch = fmt.Sprintf("%s-dup%d", chanID, d.nopen)
	}
	d.nopen++
	d.w.Connections[connID] = &common.Connection{ID: connID, ClientID: d.clientID, CpConnectionID: "connection-0", CpClientID: "07-tendermint-0"}
	d.w.Channels[ccvtypes.ProviderPortID+"/"+ch] = &common.Channel{Port: ccvtypes.ProviderPortID, ID: ch,
		State: channeltypes.OPEN, Ordering: channeltypes.ORDERED, ConnectionID: connID, CpPort: ccvtypes.ConsumerPortID, CpID: "channel-0", Version: ccvtypes.Version}
	res := common.Tx(d.env.Ctx, func(ctx sdk.Context) error { return d.env.K.SetConsumerChain(ctx, ch) })
	h := int64(-1)
	if v, ok := d.env.K.GetInitChainHeight(d.env.Ctx, cid); ok {
		h = int64(v)
	}
	d.emit(common.L(2), common.L(common.B(!res.OK()), h))
}

func (d *drv) consumerBlock(n int64) {
	ce := d.cenv
	if r := ce.BeginBlock(); !r.OK() {
		panic(fmt.Sprintf("consumer BeginBlock failed: %s", r))
	}
	h := ce.Ctx.BlockHeight()
	d.emit(common.L(4), common.L(h, int64(ce.K.GetHeightValsetUpdateID(ce.Ctx, uint64(h+1)))))
	for (n < 0 || n > 0) && len(d.inflight) > 0 {
		sp := d.inflight[0]
		d.inflight = d.inflight[1:]
		var data ccvtypes.ValidatorSetChangePacketData
		if err := ccvtypes.ModuleCdc.UnmarshalJSON(sp.Data, &data); err != nil {
			panic(err)
		}
		packet := channeltypes.NewPacket(sp.Data, sp.Seq, ccvtypes.ProviderPortID, chanID, ccvtypes.ConsumerPortID, "channel-0",
			clienttypes.Height{}, sp.TimeoutTimestamp)
		res := common.Tx(ce.Ctx, func(ctx sdk.Context) error { return ce.K.OnRecvVSCPacket(ctx, packet, data) })
		id := int64(data.ValsetUpdateId)
		if !res.OK() {
			id = -1
		}
		d.emit(common.L(3), common.L(id))
		if n > 0 {
			n--
		}
	}
	upd, r := ce.EndBlock()
	if !r.OK() {
		panic(fmt.Sprintf("consumer EndBlock failed: %s", r))
	}
	d.fold(upd)
	cc := map[int64]int64{}
	for _, v := range ce.K.GetAllCCValidator(ce.Ctx) {
		cc[addrID(v.Address)] = v.Power
	}
	all := ce.K.GetAllHeightToValsetUpdateIDs(ce.Ctx)
	h2id := make([]common.T, len(all))
	for i, e := range all {
		h2id[i] = common.L(int64(e.Height), int64(e.ValsetUpdateId))
	}
	_, pend := ce.K.GetPendingChanges(ce.Ctx)
	d.emit(common.L(5), common.L(h, sortedPairs(cc), sortedPairs(d.engine),
		int64(ce.K.GetHeightValsetUpdateID(ce.Ctx, uint64(h+1))), h2id, common.B(pend)))
	ce.NextBlock(5 * time.Second)
}

func (d *drv) run() (common.T, common.T) {
	k := d.k
	d.w = common.NewWorld(0)
	for _, tk := range k.Tokens {
		d.w.AddVal(tk)
	}
	if k.MaxVals > 0 {
		d.w.MaxVals = k.MaxVals
	}
	d.w.StakingEndBlock()
	d.env = common.NewProviderEnv(d.t, d.w)
	env := d.env
	params := providertypes.DefaultParams()
	params.BlocksPerEpoch = k.BPE
	params.MaxProviderConsensusValidators = k.M
	env.InitGenesis(params)

	d.g = parseCfg(k.Cfg)
	d.g.topN = 0
	if r := env.Deliver(&providertypes.MsgCreateConsumer{Submitter: env.Authority, ChainId: "c01sys-1",
		Metadata:               providertypes.ConsumerMetadata{Name: "n", Description: "d", Metadata: "m"},
		PowerShapingParameters: d.shaping(d.g)}); !r.OK() {
		panic("create consumer: " + r.String())
	}
	pre := []common.T{cfgTree(d.g)}
	for _, o := range k.Pre {
		if d.stakingOp(o) {
			continue
		}
		if e, ok := d.eligibility(o).([]common.T); ok {
			pre = append(pre, e...)
		}
	}
	// launch: spawn time = now, the next block's BeginBlock launches
	ip := providertypes.DefaultConsumerInitializationParameters()
	ip.SpawnTime = env.Ctx.BlockTime()
	env.Deliver(&providertypes.MsgUpdateConsumer{Owner: env.Authority, ConsumerId: cid, InitializationParameters: &ip})
	env.NextBlock(5 * time.Second)
	or, mp := d.oracle(), d.minPower()
	if r := env.BeginBlock(); !r.OK() {
		panic("provider BeginBlock failed: " + r.String())
	}
	gen, ok := env.K.GetConsumerGenesis(env.Ctx, cid)
	if !d.launched() || !ok {
		return common.L(pre, common.L(), common.L()), common.L()
	}
	d.clientID, _ = env.K.GetConsumerClientId(env.Ctx, cid)
	d.cw = common.NewWorld(0)
	d.cenv = common.NewConsumerEnv(d.t, d.cw, "consumer-"+cid)
	d.engine = map[int64]int64{}
	d.fold(d.cenv.InitGenesis(gen))
	d.cw.Connections["connection-0"] = &common.Connection{ID: "connection-0", ClientID: "07-tendermint-0", CpConnectionID: "connection-" + cid, CpClientID: d.clientID}
	d.cw.Channels[ccvtypes.ConsumerPortID+"/channel-0"] = &common.Channel{Port: ccvtypes.ConsumerPortID, ID: "channel-0",
		State: channeltypes.OPEN, Ordering: channeltypes.ORDERED, ConnectionID: "connection-0", CpPort: ccvtypes.ProviderPortID, CpID: chanID, Version: ccvtypes.Version}
	launch := common.L(env.Ctx.BlockHeight(), int64(env.K.GetValidatorSetUpdateId(env.Ctx)), d.vsc2h(), d.cenv.Ctx.BlockHeight(), or, mp)
	rec, _ := d.record()
	d.obs = append(d.obs, rec)

	for _, o := range k.Ops {
		if d.stakingOp(o) {
			continue
		}
		switch num(o[0]) {
		case 10, 11, 12, 13:
			if e, ok := d.eligibility(o).([]common.T); ok {
				for _, x := range e {
					d.ops = append(d.ops, common.L(10, x))
				}
			}
		case 15:
			d.providerEndBlock()
		case 16:
			d.open()
		case 17:
			d.consumerBlock(num(o[1]))
		case 18:
			if cl, ok := d.w.Clients[d.clientID]; ok {
				cl.Expired = num(o[1]) != 0
			}
		case 19:
			d.w.Faults["channel.SendPacket"] = int(num(o[1]))
		case 7:
			env.Deliver(&providertypes.MsgRemoveConsumer{Owner: env.Authority, ConsumerId: cid})
			d.emit(common.L(7), common.L(common.B(d.launched())))
		default:
			panic("bad opcode")
		}
	}
	return common.L(pre, launch, common.L(d.ops...)), common.L(d.obs...)
}

func TestDriver(t *testing.T) {
	common.RunCases(t, func(c common.Case) (common.T, common.T) {
		var k kase
		if err := json.Unmarshal(c.Raw, &k); err != nil {
			panic(err)
		}
		d := &drv{t: t, k: k}
		return d.run()
	})
}
