"""Part "system" of property C01 (end to end): generator / projection / monitor text for harness/c01sys and the
composed model Model/System.v.  Loaded by tools/props/c01.py."""
import json
from check import Part
from props import c02


def _cfg(rng, n, flag):
    # the c02 generator also draws min_stake values around 2^63 (they belong to the C02 check); this driver
    # carries min_stake as a machine integer, so such values are replaced by an ordinary one
    g = c02.gen_cfg(rng, n, flag)
    if g[3] >= 2 ** 62:
        g[3] = 3 * 10 ** 6
    return g

MIL = 10 ** 6


def _elig_op(rng, n, keyn):
    k = rng.random()
    if k < 0.3:
        return [11, rng.randrange(n), keyn() if rng.random() < 0.25 else 0]
    if k < 0.5:
        return [12, rng.randrange(n)]
    if k < 0.75:
        return [13, rng.randrange(n), rng.choice([keyn(), 5, 1000 + rng.randrange(n)])]
    return [10] + _cfg(rng, n, True)


def _staking_ops(rng, n):
    k = rng.random()
    if k < 0.6:
        kk = rng.choice([0, 1, 1, 2, 3, 5, 10])
        ops = [[20, rng.randrange(n), kk * MIL + rng.choice([0, 0, 1, 500000, 900000]) if kk else 0]]
    elif k < 0.8:
        ops = [[21, rng.randrange(n), rng.choice([1, 1, 0])]]
    elif k < 0.9:
        ops = [[24, max(1, rng.choice([1, 2, n - 1, n, n + 1]))]]
    else:
        ops = [[23, max(1, rng.choice([n, n - 1, max(1, n // 2), 100]))]]
    if rng.random() < 0.85:
        ops.append([22])
    return ops


def gen_history(rng, tier):
    n = rng.choice([3, 4, 4, 5, 6, 7, 9])
    tokens = c02.gen_tokens(rng, n)
    max_vals = max(1, rng.choice([100, 100, n, n - 1]))
    M = max(1, rng.choice([1, 2, n // 2, n - 1, n, n + 1]))
    bpe = rng.choice([1, 1, 1, 2])
    cfg = _cfg(rng, n, False)
    if rng.random() < 0.6:                      # most consumers start with mild settings so that the launch succeeds
        cfg = [0, rng.choice([0, 0, n - 1]), rng.choice([0, 0, 50]), rng.choice([0, 0, MIL]), cfg[4], [], cfg[6] if rng.random() < 0.3 else [], cfg[7]]
    kn = [0]

    def keyn():
        kn[0] = kn[0] % 60 + 1
        return kn[0]

    pre = []
    p = rng.choice([0.6, 0.9, 1.0])
    for v in range(n):
        if rng.random() < p:
            pre.append([11, v, keyn() if rng.random() < 0.3 else 0])
    for _ in range(rng.randint(0, 2)):
        pre.append([13, rng.randrange(n), keyn()])
    if rng.random() < 0.3:
        pre.append([10] + _cfg(rng, n, True))
    rng.shuffle(pre)
    nblocks = rng.randint(6, 14) if tier == "quick" else rng.randint(6, 30)
    mode = rng.choice(["immediate", "delayed", "burst", "late", "random"])
    open_at = rng.randint(1, 3) if mode != "late" else rng.randint(3, max(3, nblocks - 2))
    lag = rng.randint(1, 3)
    burst = rng.randint(open_at + 1, nblocks)
    ops = []
    expired = False
    churn = rng.choice([0.4, 0.7, 0.9])
    for b in range(1, nblocks + 1):
        while rng.random() < churn:
            if rng.random() < 0.5:
                ops += _staking_ops(rng, n)
            else:
                ops.append(_elig_op(rng, n, keyn))
        if b == open_at or (b > open_at and rng.random() < 0.03):
            ops.append([16])
        if expired:
            if rng.random() < 0.5:
                expired = False
                ops.append([18, 0])
        elif rng.random() < 0.05:
            expired = True
            ops.append([18, 1])
        if rng.random() < 0.01 and b > 4:
            ops.append([7])
        if rng.random() < 0.015:
            ops.append([19, rng.randint(0, 2)])
        if rng.random() < 0.9:
            ops.append([22])
        ops.append([15])
        for _ in range(rng.choice([1, 1, 1, 0, 2])):
            if mode in ("immediate", "late"):
                nd = -1
            elif mode == "delayed":
                nd = 1 if b > open_at + lag else 0
            elif mode == "burst":
                nd = -1 if (b >= burst or b == nblocks) else 0
            else:
                nd = rng.choice([-1, 0, 0, 1, 2])
            ops.append([17, nd])
    ops.append([17, -1])
    # "cons"/"acts" are only there for the histogram function of tools/props/c01.py (shared by both parts)
    return {"tokens": tokens, "max_vals": max_vals, "M": M, "bpe": bpe, "cfg": cfg, "pre": pre, "ops": ops, "cons": [0], "acts": []}


def two_epoch_example():
    """the history of Example C01_system_ex_run: key assignment + 60 % power cap, validator 2 overtakes validator 1"""
    return {"tokens": [9 * MIL, 3 * MIL, MIL], "max_vals": 100, "M": 2, "bpe": 1, "cfg": [0, 0, 0, 0, 0, [], [], []],
            "pre": [[11, 0, 0], [11, 1, 0], [11, 2, 0]],
            "ops": [[16], [13, 1, 7], [10, 0, 0, 60, 0, 0, [], [], []], [15], [17, -1], [20, 2, 5 * MIL], [22], [15], [17, 0], [17, -1]],
            "cons": [0], "acts": []}


def gen(rng, tier):
    total = 150 if tier == "quick" else 3000
    yield two_epoch_example()
    for _ in range(total):
        yield gen_history(rng, tier)


def nontrivial(case, inp, obs):
    if not inp or not inp[1]:
        return None
    sets = []
    ops = [o for o in inp[2] if o[0] != 10]
    for op, o in zip(ops, obs[1:]):
        if op[0] == 5:
            s = json.dumps(o[1])
            if not sets or sets[-1] != s:
                sets.append(s)
    return json.dumps(sets) if len(set(sets)) >= 2 else None


CLAUSES = dict(c02.CLAUSES)
CLAUSES.update({
    21: "the consumer's set after EndBlock is not the (consumer key, power) projection of the set computed from the staking "
        "snapshot of the epoch whose packet was the last one received (the launch if none)",
    22: "the set handed to the consumer's consensus engine differs from the consumer's stored set",
    23: "the provider's stored (key, power) record is not the projection of its stored consumer validator set",
})


def describe(codes):
    return "; ".join(CLAUSES.get(c, str(c)) for c in sorted(set(codes)))


PART = Part("system", "c01sys", "system", gen, nontrivial=nontrivial, describe=describe)
