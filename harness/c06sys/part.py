"""Part "system" of property C06 (who is punished for a report against an old key): generator / non-triviality /
monitor text for harness/c06sys and the composed model Model/SlashKeys.v (KeyAssign x Slash).
Loaded by tools/props/c06.py."""
import json
from check import Part
from props import c05

ASSIGN, OPTIN, CREATE, REMOVE, REGISTER, INIT, LAUNCH, STOP, DELETE, BEGIN, END, ADVANCE = range(12)
MEMBERS, EXT, RECV = 20, 21, 22
DOWNTIME, DOUBLE_SIGN = 2, 1


class Hist(c05.Hist):
    def create(self, o, k, pow_=None):
        self.add(CREATE, o, k, pow_ if pow_ is not None else self.rng.choice([1, 2, 3, 5]))
        if o not in self.vals and k not in self.vals.values():
            self.vals[o] = k

    def members(self, c, full=True):
        ks = sorted(set(self.vals.values()))
        if not full:
            ks = [k for k in ks if self.rng.random() < 0.7]
        if self.rng.random() < 0.1:
            ks.append(self.rng.randrange(self.nk))       # a key that is nobody's provider key
        self.ops.append([MEMBERS, c, sorted(set(ks))])

    def recv(self, c=None, k=None, infr=DOWNTIME, power=None, vsckind=0):
        rng = self.rng
        if c is None:
            c = self.some_consumer(prefer=3)
        if k is None:
            r = rng.random()
            if r < 0.55 and self.used:
                k = rng.choice(self.used[-8:])            # a current / replaced / pruned consumer key
            elif r < 0.75 and self.vals:
                k = rng.choice(sorted(self.vals.values()))  # a provider key
            else:
                k = rng.randrange(self.nk)                # often never assigned
        self.add(RECV, c, k, infr, power if power is not None else rng.choice([1, 1, 7]), vsckind)


def gen_history(rng, tier):
    u = rng.choice([1000, 1000, 10 ** 6])
    nk, no, nc = rng.choice([8, 9, 10]), rng.choice([4, 5]), 2
    h = Hist(rng, u, nk, no, nc)
    nv = rng.choice([2, 3, 3, 4])
    for o in range(nv):
        h.create(o, o)
    h.register(); h.lifecycle(0, INIT)
    if rng.random() < 0.4:
        for _ in range(rng.randint(1, 2)):
            h.assign(0, h.some_oper())
    h.lifecycle(0, LAUNCH)
    h.members(0)
    h.add(BEGIN)
    if rng.random() < 0.3:
        h.register()
        if rng.random() < 0.6:
            h.lifecycle(1, INIT); h.lifecycle(1, LAUNCH); h.members(1, full=False)
    weights = [(30, "assign"), (15, "near"), (7, "end"), (26, "recv"), (8, "begin"), (3, "members"), (7, "ext"), (2, "create"),
               (2, "remove"), (2, "optin"), (1, "life"), (2, "adv"), (4, "badrecv")]
    tot = sum(w for w, _ in weights)
    for _ in range(rng.randint(14, 42)):
        r = rng.randrange(tot)
        for w, kind in weights:
            if r < w:
                break
            r -= w
        if kind == "assign":
            h.assign(h.some_consumer(prefer=3), h.some_oper())
        elif kind == "optin":
            h.assign(h.some_consumer(prefer=3), h.some_oper(), optin=True)
        elif kind == "near":
            h.advance_near_deadline()
            if rng.random() < 0.75:
                h.add(END)
            if rng.random() < 0.6:
                h.recv()
        elif kind == "end":
            h.add(END)
        elif kind == "recv":
            if rng.random() < 0.5:
                h.add(BEGIN)                              # replenish the slash meter first
            h.recv()
        elif kind == "begin":
            h.add(BEGIN)
        elif kind == "members":
            h.members(h.some_consumer(prefer=3), full=rng.random() < 0.6)
        elif kind == "ext":
            key = rng.choice(sorted(h.vals.values())) if h.vals and rng.random() < 0.9 else rng.randrange(nk)
            m = rng.random()
            if m < 0.7:
                h.add(EXT, key, 1, 0)                     # unjail
            elif m < 0.8:
                h.add(EXT, key, 1, 1)                     # jailed by the provider's own slashing module
            elif m < 0.87:
                h.add(EXT, key, 2, 1)                     # tombstoned
            else:
                h.add(EXT, key, 3, rng.choice([1, 2, 3, 3]))   # bond status
        elif kind == "create":
            free = [o for o in range(no) if o not in h.vals]
            o = rng.choice(free) if free and rng.random() < 0.85 else rng.randrange(no)
            k = rng.choice(h.used[-8:]) if h.used and rng.random() < 0.5 else rng.randrange(nk)
            h.create(o, k)
            if rng.random() < 0.7:
                h.members(h.some_consumer(prefer=3))
        elif kind == "remove":
            o = h.some_oper()
            h.add(REMOVE, o)
            h.vals.pop(o, None)
        elif kind == "life":
            m = rng.random()
            if m < 0.5:
                h.lifecycle(h.some_consumer(prefer=3), STOP)
            elif m < 0.7:
                h.lifecycle(h.some_consumer(prefer=4), DELETE)
            elif h.nreg < nc:
                h.register()
        elif kind == "adv":
            h.advance(rng.choice([0, 1, u // 2, u - 1, u, u + 1]))
        else:
            m = rng.randrange(4)
            if m == 0:
                h.recv(vsckind=1)                         # unknown vsc id
            elif m == 1:
                h.recv(infr=DOUBLE_SIGN)
            elif m == 2:
                h.recv(power=0)
            else:
                h.recv(c=rng.choice([nc - 1, nc]), infr=rng.choice([DOWNTIME, 0]))   # maybe no channel / bad infraction
    return {"u": u, "nk": nk, "nc": nc, "frac": rng.choice(["1.0", "1.0", "1.0", "0.5", "0.05"]),
            "period": rng.choice([1, 1, 1000, 3600 * 10 ** 9]),
            "dfrac": rng.choice(["0.01", "0.0001", "0.5", "0"]), "djail": rng.choice([600 * 10 ** 9, 1]), "acts": h.ops, "hist": []}


def window_example():
    """the history of Example C06_system_ex: assign k1=5, replace by k2=6 at t=0 (U=1000), report 5 at t+U-1 after an
    EndBlock (validator 0 jailed), unjail, t+U+1, EndBlock, report 5 again (nobody), report 6 (validator 0)"""
    return {"u": 1000, "nk": 8, "nc": 1, "frac": "1.0", "period": 1, "dfrac": "0.01", "djail": 600 * 10 ** 9,
            "hist": [],     # (only there for the histogram function of tools/props/c06.py, shared by all parts)
            "acts": [[CREATE, 0, 0, 5], [CREATE, 1, 1, 3], [REGISTER], [INIT, 0], [LAUNCH, 0], [MEMBERS, 0, [0, 1]], [BEGIN],
                     [ASSIGN, 0, 0, 5, 1], [ASSIGN, 0, 0, 6, 1], [ADVANCE, 999], [END], [BEGIN], [RECV, 0, 5, 2, 1, 0],
                     [EXT, 0, 1, 0], [ADVANCE, 2], [END], [BEGIN], [RECV, 0, 5, 2, 1, 0], [RECV, 0, 6, 2, 1, 0]]}


def gen(rng, tier):
    yield window_example()
    for _ in range(250 if tier == "quick" else 8000):
        yield gen_history(rng, tier)


def nontrivial(case, inp, obs):
    if not isinstance(obs, list) or len(obs) != len(case["acts"]) + 1:
        return None
    sig, hit = [], False
    for a, prev, cur in zip(case["acts"], obs, obs[1:]):
        sig.append((a[0], cur[0]))
        if a[0] == RECV:
            newly = [k for k, (p, q) in enumerate(zip(prev[2], cur[2])) if q[2] and not p[2]]
            if newly and newly[0] != a[2]:                # jailed through a consumer key, not the provider key itself
                hit = True
    return json.dumps(sig) if hit else None


CLAUSES = {
    1: "a slash packet changed a validator other than the one the key-assignment history attributes the reported key to",
    2: "the attributed validator was not jailed although every condition held (or was jailed although one did not)",
    3: "the provider resolved the reported key to a validator other than the one the key-assignment history attributes it to",
    4: "acknowledgement class of the slash packet differs from the one the conditions imply",
    5: "an action other than a slash packet / validator creation / removal / external change altered a validator",
    99: "malformed observation",
}


def describe(codes):
    return "; ".join(CLAUSES.get(c, str(c)) for c in sorted(set(codes)))


PART = Part("system", "c06sys", "slashkeys", gen, nontrivial=nontrivial, describe=describe)
