package c06sys

// Correspondence driver for the part "system" of C06 (composed model Model/SlashKeys.v = KeyAssign x Slash):
// a history interleaves consumer-key (re)assignments, opt-ins, validator creation/removal, lifecycle steps,
// blocks and time advances (the history engine of harness/c05) with REAL slash packets delivered through the
// provider's IBC callback AppModule.OnRecvPacket -> OnRecvSlashPacket -> HandleSlashPacket on the consumer's CCV
// channel (set up as in harness/c08).  The model input carries NO resolution oracle: which validator a report is
// about is computed by the model from the key-assignment history.
//
// Key id k is the ed25519 key common.Key(1000+k); the validator table of the model is indexed by PROVIDER KEY id,
// so row k of a snapshot is the staking validator whose consensus key is k (if one exists).

import (
	"encoding/base64"
	"encoding/json"
	"errors"
	"fmt"
	"os"
	"strconv"
	"strings"
	"testing"
	"time"

	clienttypes "github.com/cosmos/ibc-go/v10/modules/core/02-client/types"
	channeltypes "github.com/cosmos/ibc-go/v10/modules/core/04-channel/types"

	"cosmossdk.io/math"

	sdk "github.com/cosmos/cosmos-sdk/types"
	stakingtypes "github.com/cosmos/cosmos-sdk/x/staking/types"

	abci "github.com/cometbft/cometbft/abci/types"

	"verifharness/common"

	providertypes "github.com/cosmos/interchain-security/v7/x/ccv/provider/types"
	ccvtypes "github.com/cosmos/interchain-security/v7/x/ccv/types"
)

type kase struct {
	ID     int64             `json:"id"`
	U      int64             `json:"u"`      // unbonding period, ns
	NK     int               `json:"nk"`     // key pool size (= validator table size of the model)
	NC     int               `json:"nc"`     // consumers observed
	Frac   string            `json:"frac"`   // slash meter replenish fraction
	Period int64             `json:"period"` // slash meter replenish period, ns
	DFrac  string            `json:"dfrac"`  // downtime slash fraction of every consumer
	DJail  int64             `json:"djail"`  // downtime jail duration, ns
	Hist   []json.RawMessage `json:"acts"`
}

const (
	eOK        = 0
	ePhase     = 1
	eInUse     = 2
	eDefault   = 3
	eNoVal     = 4
	eHook      = 5
	eStaking   = 6
	eLifecycle = 7
	eBasic     = 8
	eOther     = 9
)

const maxKeys = 32

var (
	poolCons [maxKeys]sdk.ConsAddress
	poolJSON [maxKeys]string
)

func init() {
	for k := 0; k < maxKeys; k++ {
		pk := common.Key(1000 + k).PubKey()
		poolCons[k] = sdk.ConsAddress(pk.Address())
		poolJSON[k] = fmt.Sprintf(`{"@type":"/cosmos.crypto.ed25519.PubKey","key":"%s"}`,
			base64.StdEncoding.EncodeToString(pk.Bytes()))
	}
}

func operAddr(o int64) sdk.ValAddress {
	b := make([]byte, 20)
	b[0] = byte(o + 1)
	b[19] = 0x77
	return sdk.ValAddress(b)
}

func consAddr(k int64) sdk.ConsAddress { return poolCons[k] }
func keyJSON(k int64) string          { return poolJSON[k] }
func cid(c int64) string              { return strconv.FormatInt(c, 10) }
func chanOf(c int64) string           { return "channel-" + cid(c) }

func rel(t time.Time) int64 {
	if t.IsZero() {
		return 0
	}
	return t.Sub(common.T0).Nanoseconds()
}

func classify(r common.Result) int64 {
	if r.OK() {
		return eOK
	}
	if r.Panic != nil {
		return eOther
	}
	err := r.Err
	switch {
	case strings.HasPrefix(err.Error(), "validate-basic:"):
		return eBasic
	case errors.Is(err, providertypes.ErrInvalidPhase):
		return ePhase
	case errors.Is(err, providertypes.ErrConsumerKeyInUse):
		return eInUse
	case errors.Is(err, providertypes.ErrCannotAssignDefaultKeyAssignment):
		return eDefault
	case errors.Is(err, stakingtypes.ErrNoValidatorFound):
		return eNoVal
	case errors.Is(err, providertypes.ErrUnauthorized):
		return eBasic
	}
	if os.Getenv("VERIF_DEBUG") != "" {
		fmt.Fprintln(os.Stderr, "unclassified:", err)
	}
	return eOther
}

type drv struct {
	k     kase
	w     *common.World
	env   *common.ProviderEnv
	addr2 map[string]int64
	owner string
	other string
	ops   []common.T // the model's ops (actions + the remaining oracle values)
}

func (d *drv) keyID(a []byte) int64 {
	if id, ok := d.addr2[string(a)]; ok {
		return id
	}
	return -2
}

func (d *drv) snapshot(res int64) common.T {
	env, w := d.env, d.w
	rows := make([]common.T, d.k.NK)
	for k := 0; k < d.k.NK; k++ {
		if v := w.ValByCons(consAddr(int64(k))); v != nil {
			rows[k] = common.L(1, int64(v.Status), common.B(v.Jailed), common.B(v.Tombstoned), v.Tokens.Int64(),
				v.LastPower, rel(v.JailedUntil))
		} else {
			rows[k] = common.L(0, 0, 0, 0, 0, 0, 0)
		}
	}
	cons := make([]common.T, d.k.NC)
	for c := 0; c < d.k.NC; c++ {
		id := cid(int64(c))
		resolve := make([]common.T, d.k.NK)
		for k := 0; k < d.k.NK; k++ {
			rp := env.K.GetProviderAddrFromConsumerAddr(env.Ctx, id, providertypes.NewConsumerConsAddress(consAddr(int64(k))))
			resolve[k] = d.keyID(rp.ToSdkConsAddr())
		}
		cons[c] = common.L(int64(env.K.GetConsumerPhase(env.Ctx, id)), resolve)
	}
	return common.L(res, rel(env.Ctx.BlockTime()), rows, cons, env.K.GetSlashMeter(env.Ctx).Int64(),
		rel(env.K.GetSlashMeterReplenishTimeCandidate(env.Ctx)))
}

func (d *drv) signer(o int64, ok bool) string {
	if ok {
		return sdk.AccAddress(operAddr(o)).String()
	}
	return d.other
}

func ints(raw json.RawMessage) []int64 {
	var a []int64
	if err := json.Unmarshal(raw, &a); err != nil {
		panic(err)
	}
	return a
}

func pad5(a []int64) common.T {
	op := make([]common.T, 5)
	for j := 0; j < 5; j++ {
		op[j] = int64(0)
		if j < len(a) {
			op[j] = a[j]
		}
	}
	return op
}

func (d *drv) emit(op common.T) { d.ops = append(d.ops, op) }

func (d *drv) totalPower() int64 {
	t := int64(0)
	for _, v := range d.w.Vals {
		if !v.Removed {
			t += v.LastPower
		}
	}
	return t
}

// step executes one action and appends the model's op; returns the result class
func (d *drv) step(raw json.RawMessage) int64 {
	env, w := d.env, d.w
	var head []json.RawMessage
	if err := json.Unmarshal(raw, &head); err != nil {
		panic(err)
	}
	var code int64
	if err := json.Unmarshal(head[0], &code); err != nil {
		panic(err)
	}
	if code == 20 { // [20, c, [keys]]: the consumer's stored validator set
		var c int64
		var set []int64
		json.Unmarshal(head[1], &c)
		json.Unmarshal(head[2], &set)
		d.emit(common.L(int64(20), c, common.Ints(set)))
		if env.K.GetConsumerPhase(env.Ctx, cid(c)) == providertypes.CONSUMER_PHASE_UNSPECIFIED {
			return eLifecycle
		}
		env.K.DeleteConsumerValSet(env.Ctx, cid(c))
		for _, k := range set {
			if err := env.K.SetConsumerValidator(env.Ctx, cid(c), providertypes.ConsensusValidator{ProviderConsAddr: consAddr(k), Power: 1}); err != nil {
				panic(err)
			}
		}
		return eOK
	}
	a := ints(raw)
	arg := func(i int) int64 {
		if i < len(a) {
			return a[i]
		}
		return 0
	}
	switch code {
	case 0:
		d.emit(pad5(a))
		return classify(env.Deliver(&providertypes.MsgAssignConsumerKey{ConsumerId: cid(arg(1)), ProviderAddr: operAddr(arg(2)).String(),
			ConsumerKey: keyJSON(arg(3)), Signer: d.signer(arg(2), arg(4) != 0)}))
	case 1:
		d.emit(pad5(a))
		key := ""
		if arg(3) >= 0 {
			key = keyJSON(arg(3))
		}
		return classify(env.Deliver(&providertypes.MsgOptIn{ConsumerId: cid(arg(1)), ProviderAddr: operAddr(arg(2)).String(),
			ConsumerKey: key, Signer: d.signer(arg(2), arg(4) != 0)}))
	case 2: // [2, o, key, power]: a bonded validator with power*PowerReduction tokens
		oper, pow := operAddr(arg(1)), arg(3)
		d.emit(common.L(int64(2), arg(1), arg(2), pow*common.PowerReduction, pow))
		if w.ValByOper(oper) != nil || w.ValByCons(consAddr(arg(2))) != nil {
			return eStaking
		}
		v := w.AddVal(pow * common.PowerReduction)
		v.Oper, v.Priv = oper, common.Key(int(1000+arg(2)))
		r := common.Tx(env.Ctx, func(ctx sdk.Context) error { return env.K.Hooks().AfterValidatorCreated(ctx, oper) })
		if !r.OK() {
			w.Vals = w.Vals[:len(w.Vals)-1]
			if r.Panic != nil {
				return eHook
			}
			return eOther
		}
		v.Status, v.LastPower = stakingtypes.Bonded, pow
		return eOK
	case 3:
		d.emit(pad5(a))
		v := w.ValByOper(operAddr(arg(1)))
		if v == nil {
			return eNoVal
		}
		v.Removed = true
		if r := common.Tx(env.Ctx, func(ctx sdk.Context) error {
			return env.K.Hooks().AfterValidatorRemoved(ctx, v.ConsAddr(), v.Oper)
		}); !r.OK() {
			return eOther
		}
		return eOK
	case 4:
		d.emit(pad5(a))
		n := env.K.GetAllConsumerIds(env.Ctx)
		// the consumer's own downtime parameters (MsgCreateConsumer's InfractionParameters field)
		ip := &providertypes.InfractionParameters{Downtime: &providertypes.SlashJailParameters{
			SlashFraction: math.LegacyMustNewDecFromStr(d.k.DFrac), JailDuration: time.Duration(d.k.DJail)}}
		return classify(env.Deliver(&providertypes.MsgCreateConsumer{Submitter: d.owner, ChainId: fmt.Sprintf("chain%d-1", len(n)),
			Metadata: providertypes.ConsumerMetadata{Name: "n", Description: "d", Metadata: "m"}, InfractionParameters: ip}))
	case 5:
		d.emit(pad5(a))
		if env.K.GetConsumerPhase(env.Ctx, cid(arg(1))) != providertypes.CONSUMER_PHASE_REGISTERED {
			return eLifecycle
		}
		env.K.SetConsumerPhase(env.Ctx, cid(arg(1)), providertypes.CONSUMER_PHASE_INITIALIZED)
		return eOK
	case 6: // launch: client, CCV channel <-> consumer mapping, init chain height (what SetConsumerChain / LaunchConsumer store)
		d.emit(pad5(a))
		c := arg(1)
		if env.K.GetConsumerPhase(env.Ctx, cid(c)) != providertypes.CONSUMER_PHASE_INITIALIZED {
			return eLifecycle
		}
		env.K.SetConsumerClientId(env.Ctx, cid(c), "07-tendermint-"+cid(c))
		env.K.SetChannelToConsumerId(env.Ctx, chanOf(c), cid(c))
		env.K.SetConsumerIdToChannelId(env.Ctx, cid(c), chanOf(c))
		env.K.SetInitChainHeight(env.Ctx, cid(c), 2)
		env.K.SetConsumerPhase(env.Ctx, cid(c), providertypes.CONSUMER_PHASE_LAUNCHED)
		return eOK
	case 7:
		d.emit(pad5(a))
		owner := d.owner
		if arg(2) == 0 {
			owner = d.other
		}
		return classify(env.Deliver(&providertypes.MsgRemoveConsumer{Owner: owner, ConsumerId: cid(arg(1))}))
	case 8:
		d.emit(pad5(a))
		r := common.Tx(env.Ctx, func(ctx sdk.Context) error { return env.K.DeleteConsumerChain(ctx, cid(arg(1))) })
		if r.Panic != nil {
			return eOther
		}
		if r.Err != nil {
			return eLifecycle
		}
		return eOK
	case 9: // BeginBlock; staking's total power is an oracle of the meter model
		d.emit(common.L(int64(9), d.totalPower()))
		if r := env.BeginBlock(); !r.OK() {
			return eOther
		}
		return eOK
	case 10:
		d.emit(pad5(a))
		if _, r := env.EndBlock(); !r.OK() {
			return eOther
		}
		return eOK
	case 11:
		d.emit(pad5(a))
		env.NextBlock(time.Duration(arg(1)))
		return eOK
	case 21: // [21, key, field, value]: staking / slashing changes a validator from outside (1 jailed, 2 tombstoned, 3 status)
		v := w.ValByCons(consAddr(arg(1)))
		if v != nil {
			switch arg(2) {
			case 1:
				v.Jailed = arg(3) != 0
			case 2:
				v.Tombstoned = arg(3) != 0
			default:
				v.Status = stakingtypes.BondStatus(arg(3))
				if v.Status != stakingtypes.Bonded {
					v.LastPower = 0
				} else {
					v.LastPower = v.Power()
				}
			}
			d.emit(common.L(int64(21), arg(1), common.B(v.Jailed), common.B(v.Tombstoned), int64(v.Status), v.Tokens.Int64(), v.LastPower))
			return eOK
		}
		d.emit(common.L(int64(21), arg(1), 0, 0, 0, 0, 0))
		return eLifecycle
	case 22: // [22, c, k, infraction, power, vsckind]: slash packet on consumer c's channel for consumer address k
		c, k, infr, power, vsckind := arg(1), arg(2), arg(3), arg(4), arg(5)
		vscid := uint64(0)
		if vsckind != 0 {
			vscid = 999999
		}
		var h common.T = common.L()
		if vscid == 0 {
			if hh, found := env.K.GetInitChainHeight(env.Ctx, cid(c)); found {
				h = common.L(int64(hh))
			}
		} else if hh, found := env.K.GetValsetUpdateBlockHeight(env.Ctx, vscid); found {
			h = common.L(int64(hh))
		}
		d.emit(common.L(int64(22), c, k, infr, power, h))
		data := ccvtypes.NewSlashPacketData(abci.Validator{Address: consAddr(k), Power: power}, vscid, stakingtypes.Infraction(infr))
		cpd := ccvtypes.NewConsumerPacketData(ccvtypes.SlashPacket, &ccvtypes.ConsumerPacketData_SlashPacketData{SlashPacketData: data})
		pkt := channeltypes.NewPacket(cpd.GetBytes(), 1, ccvtypes.ConsumerPortID, "channel-9", ccvtypes.ProviderPortID, chanOf(c),
			clienttypes.NewHeight(1, 100000), 0)
		class := int64(0)
		// IBC core semantics: the callback runs on a cached context, written only for a successful acknowledgement
		r := common.Tx(env.Ctx, func(ctx sdk.Context) error {
			ack := env.Module.OnRecvPacket(ctx, "", pkt, nil)
			if !ack.Success() {
				class = 4
				return fmt.Errorf("error acknowledgement")
			}
			ca, ok := ack.(channeltypes.Acknowledgement)
			if !ok || len(ca.GetResult()) != 1 {
				class = 9
				return nil
			}
			class = int64(ca.GetResult()[0])
			return nil
		})
		if r.Panic != nil {
			class = 0
		}
		return class
	}
	panic(fmt.Sprintf("unknown action %d", code))
}

func TestDriver(t *testing.T) {
	common.RunCases(t, func(c common.Case) (common.T, common.T) {
		var k kase
		if err := json.Unmarshal(c.Raw, &k); err != nil {
			panic(err)
		}
		w := common.NewWorld(0)
		w.Unbonding = time.Duration(k.U)
		env := common.NewProviderEnv(t, w)
		p := providertypes.DefaultParams()
		p.SlashMeterReplenishFraction = k.Frac
		p.SlashMeterReplenishPeriod = time.Duration(k.Period)
		env.InitGenesis(p)
		d := &drv{k: k, w: w, env: env, addr2: map[string]int64{}, ops: []common.T{},
			owner: sdk.AccAddress([]byte("owner_______________")).String(),
			other: sdk.AccAddress([]byte("somebody_else_______")).String()}
		for i := 0; i < maxKeys; i++ {
			d.addr2[string(consAddr(int64(i)))] = int64(i)
		}
		m0 := env.K.GetSlashMeter(env.Ctx).Int64()
		c0 := rel(env.K.GetSlashMeterReplenishTimeCandidate(env.Ctx))
		obs := []common.T{d.snapshot(0)}
		for _, raw := range k.Hist {
			res := d.step(raw)
			obs = append(obs, d.snapshot(res))
		}
		cfg := common.L(math.LegacyMustNewDecFromStr(k.Frac).BigInt().Int64(), k.Period,
			math.LegacyMustNewDecFromStr(k.DFrac).BigInt().Int64(), k.DJail,
			k.U, int64(k.NK), int64(k.NC), m0, c0)
		return common.L(cfg, d.ops), obs
	})
}
