package c19

// Correspondence driver for C19 (block processing never fails; a failing consumer operation is rolled back).
//
// A case is a history prefix (actions of harness/lcdrv) followed by ONE block operation (BeginBlock or EndBlock)
// in which the (n+1)-th call of one external method fails (World fault injection).  The same history is executed
// twice on two independent environments over the REAL provider keeper: the reference run without the fault and
// the faulty run.  The driver returns
//   input = [U, ops, [waive13], units, reference consumers]   (input of the component `blocksafety`)
//   obs   = observations of the faulty run (shape of harness/c10) -- the model component is Model/Lifecycle.v,
//           whose launch / send oracle of the faulty block marks the consumer hit by the fault.
// Which consumer was hit is not observable from the world (the external methods do not see consumer ids), so it is
// determined differentially: the consumer that launched (resp. kept running) in the reference block but not in the
// faulty block.  Everything else (exact rollback of that consumer, all other consumers and both time queues as in
// the model, block result ok, no panic, at most one consumer differing from the reference run, reward allocations
// all-or-nothing) is checked against the model and by the monitor.

import (
	"encoding/json"
	"testing"
	"time"

	sdk "github.com/cosmos/cosmos-sdk/types"

	"verifharness/common"
	"verifharness/lcdrv"
)

type kase struct {
	lcdrv.Kase
	Block string `json:"block"` // "begin" | "end"
	Dt    int64  `json:"dt"`
	Fault string `json:"fault"` // World fault name, "" = none
	N     int    `json:"n"`     // the (n+1)-th call fails
}

type blockResult struct {
	code      int64
	triggered bool
}

func runBlock(d *lcdrv.Drv, k kase, fault bool) blockResult {
	env := d.Env
	if k.Block == "begin" {
		env.NextBlock(time.Duration(k.Dt))
	}
	if fault && k.Fault != "" {
		d.W.Faults[k.Fault] = k.N
	}
	var r common.Result
	if k.Block == "begin" {
		r = common.Tx(env.Ctx, func(ctx sdk.Context) error { return env.Module.BeginBlock(ctx) })
	} else {
		_, r = env.EndBlock()
	}
	_, left := d.W.Faults[k.Fault]
	delete(d.W.Faults, k.Fault)
	res := blockResult{triggered: fault && k.Fault != "" && !left}
	switch {
	case r.Panic != nil:
		res.code = 100
	case r.Err != nil:
		res.code = 9
	}
	return res
}

// consumer rows of an observation: [id, phase, spawn, removal, client, genesis, evmin, channel, valset, pending, sent, ...]
func rows(obs common.T) []common.T { return obs.([]common.T)[2].([]common.T) }

func field(row common.T, i int) int64 {
	switch v := row.([]common.T)[i].(type) {
	case int64:
		return v
	case int:
		return int64(v)
	}
	return -1
}

func TestDriver(t *testing.T) {
	common.RunCases(t, func(c common.Case) (common.T, common.T) {
		var k kase
		if err := json.Unmarshal(c.Raw, &k); err != nil {
			panic(err)
		}
		ref, flt := lcdrv.New(t, k.Kase), lcdrv.New(t, k.Kase)
		ref.Run(k.Ops)
		ops, obs := flt.Run(k.Ops)
		n := flt.NextID()
		pre := flt.Observe(0)
		preDigest := make([]int64, n)
		for i := int64(0); i < n; i++ {
			preDigest[i] = flt.AllocDigest(i)
		}

		// oracle of the block, read before it (identical in both runs)
		var op []common.T
		if k.Block == "begin" {
			now := lcdrv.FromTime(flt.Env.Ctx.BlockTime().Add(time.Duration(k.Dt)))
			// the launch oracle needs the context of the new block: computed after NextBlock below
			op = []common.T{7, now, nil}
		} else {
			epoch := flt.Env.Ctx.BlockHeight()%k.Epoch == 0
			order, ora := flt.EndOracle()
			op = []common.T{8, common.B(epoch), order, ora}
		}
		if k.Block == "begin" {
			// LaunchOracle reads the world at the block's time; the dry run does not touch the store
			tmp := flt.Env.Ctx
			flt.Env.NextBlock(time.Duration(k.Dt))
			op[2] = flt.LaunchOracle(false)
			flt.Env.Ctx = tmp
		}

		resRef := runBlock(ref, k, false)
		resFlt := runBlock(flt, k, true)
		obsRef := ref.Observe(resRef.code)
		obsFlt := flt.Observe(resFlt.code)

		// differential oracle patch: the consumer hit by the fault
		rr, rf, rp := rows(obsRef), rows(obsFlt), rows(pre)
		if len(rr) == len(rf) {
			for i := range rf {
				cidv := field(rf[i], 0)
				if k.Block == "begin" {
					if field(rr[i], 1) == 3 && field(rp[i], 1) == 2 && field(rf[i], 1) != 3 {
						for _, row := range op[2].([]common.T) {
							r := row.([]common.T)
							if r[0].(int64) == cidv {
								r[3] = 1
							}
						}
					}
				} else {
					if field(rr[i], 1) == 3 && field(rf[i], 1) == 4 {
						// SendPacket failed for this consumer: packet number = packets that still went out
						for _, row := range op[3].([]common.T) {
							r := row.([]common.T)
							if r[0].(int64) == cidv {
								r[3] = 2 + field(rf[i], 10) - field(rp[i], 10)
							}
						}
					}
					if field(rr[i], 1) == 4 && field(rp[i], 1) == 3 && field(rf[i], 1) == 3 {
						// the reference run stops the consumer (its channel is closed) but the faulty run does
						// not: the unbonding period could not be read inside the stop
						for k2, row := range op[3].([]common.T) {
							r := row.([]common.T)
							if r[0].(int64) == cidv {
								op[3].([]common.T)[k2] = append(r, 1)
							}
						}
					}
				}
			}
		}
		ops = append(ops, op)
		obs = append(obs, obsFlt)

		units := make([]common.T, 0, n)
		for i := int64(0); i < n; i++ {
			units = append(units, common.L(preDigest[i], ref.AllocDigest(i), flt.AllocDigest(i)))
		}
		// the residual store scan without the reward records (not part of the lifecycle model)
		residual := flt.Residual().([]common.T)
		for i, l := range residual {
			out := []common.T{}
			for _, p := range l.([]common.T) {
				if p.(int64) != 55 {
					out = append(out, p)
				}
			}
			residual[i] = out
		}
		waive := k.Fault == "channel.ChanCloseInit" && resFlt.triggered
		input := common.L(k.U, ops, common.L(common.B(waive)), units, rows(obsRef),
			common.L(common.B(resFlt.triggered), resRef.code, resFlt.code))
		return input, common.L(obs, residual)
	})
}
