package c01

// Correspondence driver for C01 / C12 (model component vsc).
//
// What is real: the provider keeper (messages through env.Deliver: MsgCreateConsumer, MsgOptIn, MsgOptOut,
// MsgAssignConsumerKey, MsgUpdateConsumer, MsgRemoveConsumer; module BeginBlock / EndBlock; SetConsumerChain;
// OnRecvSlashPacket) and one real consumer keeper per consumer (InitGenesis from the provider-made genesis,
// module BeginBlock / EndBlock, OnRecvVSCPacket, SlashWithInfractionReason, OnAcknowledgementPacket).
// The driver is the relayer: VSC packets are taken from the provider World's Sent list and handed to the
// consumer when the script says so; slash packets are taken from the consumer World's Sent list.
// What is scripted: staking (fake World: tokens, jailing, StakingEndBlock), IBC (channels, clients, faults).
//
// One model instance per launched consumer.  Its op stream / observations are described in Model/Vsc.v.

import (
	"encoding/base64"
	"encoding/json"
	"fmt"
	"sort"
	"strconv"
	"testing"
	"time"

	clienttypes "github.com/cosmos/ibc-go/v10/modules/core/02-client/types"
	channeltypes "github.com/cosmos/ibc-go/v10/modules/core/04-channel/types"

	"cosmossdk.io/math"

	sdk "github.com/cosmos/cosmos-sdk/types"
	stakingtypes "github.com/cosmos/cosmos-sdk/x/staking/types"

	abci "github.com/cometbft/cometbft/abci/types"

	"verifharness/common"

	provider "github.com/cosmos/interchain-security/v7/x/ccv/provider"
	providertypes "github.com/cosmos/interchain-security/v7/x/ccv/provider/types"
	ccvtypes "github.com/cosmos/interchain-security/v7/x/ccv/types"
)

type consCfg struct {
	Spawn         int64   `json:"spawn"` // launched in BeginBlock of provider block 1+spawn
	OptIn         []int   `json:"optin"`
	SetCap        uint32  `json:"set_cap"`
	PowerCap      uint32  `json:"power_cap"`
	AllowInactive bool    `json:"allow_inactive"`
	Assign        [][]int `json:"assign"` // [validator, key] assigned before launch
}

type kase struct {
	ID      int64     `json:"id"`
	Prop    int64     `json:"prop"`
	NVals   int       `json:"nvals"`
	Powers  []int64   `json:"powers"`
	MaxVals uint32    `json:"max_vals"`
	BPE     int64     `json:"bpe"`
	Cons    []consCfg `json:"cons"`
	Acts    [][]int64 `json:"acts"`
}

// action codes
const (
	aPEnd       = 1  // provider EndBlock, next block, BeginBlock
	aStake      = 2  // [vi, power]
	aJail       = 3  // [vi, 0/1]
	aOptIn      = 4  // [c, vi]
	aOptOut     = 5  // [c, vi]
	aAssign     = 6  // [c, vi, key]
	aShape      = 7  // [c, set_cap, power_cap, allow_inactive]
	aOpen       = 8  // [c]
	aExpire     = 9  // [c, 0/1]
	aFault      = 10 // [n]
	aStop       = 11 // [c]
	aCBlock     = 12 // [c, ndeliver, (hrel, who, kind)*]
	aRelaySlash = 13 // [c, n]
	aForge      = 14 // [c, mode, val, who, kind]
	aRestart    = 15 // [c] the consumer chain is restarted from its exported genesis (between two blocks)
)

const nKeys = 64

var (
	keyByPub  = map[string]int64{}
	keyByAddr = map[string]int64{}
)

func init() {
	reg := func(n int) {
		pk := common.Key(n).PubKey()
		keyByPub[string(pk.Bytes())] = int64(n)
		keyByAddr[string(pk.Address())] = int64(n)
	}
	for n := 1; n <= nKeys; n++ {
		reg(n)
	}
	for n := 1000; n < 1000+40; n++ {
		reg(n)
	}
}

func keyJSON(n int) string {
	return fmt.Sprintf(`{"@type":"/cosmos.crypto.ed25519.PubKey","key":"%s"}`,
		base64.StdEncoding.EncodeToString(common.Key(n).PubKey().Bytes()))
}

func pubID(bz []byte) int64 {
	if id, ok := keyByPub[string(bz)]; ok {
		return id
	}
	return -7
}

func addrID(bz []byte) int64 {
	if id, ok := keyByAddr[string(bz)]; ok {
		return id
	}
	return -7
}

func sortedPairs(m map[int64]int64) common.T {
	keys := make([]int64, 0, len(m))
	for k := range m {
		keys = append(keys, k)
	}
	sort.Slice(keys, func(i, j int) bool { return keys[i] < keys[j] })
	out := make([]common.T, len(keys))
	for i, k := range keys {
		out[i] = common.L(k, m[k])
	}
	return out
}

// listPairs keeps the given order (used for the oracle `next`, whose order is the store order)
func listPairs(ks, ps []int64) common.T {
	out := make([]common.T, len(ks))
	for i := range ks {
		out[i] = common.L(ks[i], ps[i])
	}
	return out
}

func updatesMap(us []abci.ValidatorUpdate) map[int64]int64 {
	m := map[int64]int64{}
	for _, u := range us {
		m[pubID(u.PubKey.GetEd25519())] = u.Power
	}
	return m
}

type slashInFlight struct {
	data []byte
	seq  uint64
}

type inst struct {
	c        int
	cid      string
	chanID   string
	clientID string
	started  bool
	stopped  bool // explicit MsgRemoveConsumer delivered
	cw       *common.World
	cenv     *common.ConsumerEnv
	engine   map[int64]int64
	inflight []common.SentPacket
	slashes  []slashInFlight
	csent    int // consumer World Sent entries already looked at
	nopen    int
	head     []common.T // ph, vid, m0, l0, ch
	ops      []common.T
	obs      []common.T
}

type drv struct {
	t     *testing.T
	k     kase
	w     *common.World
	env   *common.ProviderEnv
	owner string
	ins   []*inst
}

func (d *drv) oper(vi int64) *common.Val {
	if vi < 0 || int(vi) >= len(d.w.Vals) {
		return nil
	}
	return d.w.Vals[vi]
}

func signer(v *common.Val) string { return sdk.AccAddress(v.Oper.Bytes()).String() }

func (d *drv) valset(cid string) (common.T, map[int64]int64) {
	vs, err := d.env.K.GetConsumerValSet(d.env.Ctx, cid)
	if err != nil {
		panic(err)
	}
	ks, ps := make([]int64, len(vs)), make([]int64, len(vs))
	m := map[int64]int64{}
	for i, v := range vs {
		ks[i], ps[i] = pubID(v.PublicKey.GetEd25519()), v.Power
		m[ks[i]] = ps[i]
	}
	return listPairs(ks, ps), m
}

func (d *drv) vsc2h() common.T {
	all := d.env.K.GetAllValsetUpdateBlockHeights(d.env.Ctx)
	out := make([]common.T, len(all))
	for i, e := range all {
		out[i] = common.L(int64(e.ValsetUpdateId), int64(e.Height))
	}
	return out
}

func (d *drv) launched(cid string) bool {
	return d.env.K.GetConsumerPhase(d.env.Ctx, cid) == providertypes.CONSUMER_PHASE_LAUNCHED
}

// startInstances starts a consumer chain (and a model instance) for every consumer that has just been launched.
func (d *drv) startInstances() {
	for _, in := range d.ins {
		if in.started || !d.launched(in.cid) {
			continue
		}
		gen, ok := d.env.K.GetConsumerGenesis(d.env.Ctx, in.cid)
		if !ok {
			continue
		}
		in.started = true
		in.clientID, _ = d.env.K.GetConsumerClientId(d.env.Ctx, in.cid)
		in.cw = common.NewWorld(0)
		in.cenv = common.NewConsumerEnv(d.t, in.cw, "consumer-"+in.cid)
		for i := 0; i < 3*in.c; i++ {
			in.cenv.NextBlock(5 * time.Second)
		}
		init := in.cenv.InitGenesis(gen)
		in.engine = map[int64]int64{}
		d.fold(in, init)
		// consumer side of the CCV channel (used by SendPackets once the provider channel is known)
		in.cw.Connections["connection-0"] = &common.Connection{ID: "connection-0", ClientID: "07-tendermint-0", CpConnectionID: "connection-" + in.cid, CpClientID: in.clientID}
		in.cw.Channels[ccvtypes.ConsumerPortID+"/channel-0"] = &common.Channel{Port: ccvtypes.ConsumerPortID, ID: "channel-0",
			State: channeltypes.OPEN, Ordering: channeltypes.ORDERED, ConnectionID: "connection-0", CpPort: ccvtypes.ProviderPortID, CpID: in.chanID, Version: ccvtypes.Version}
		l0, _ := d.valset(in.cid)
		in.head = []common.T{d.env.Ctx.BlockHeight(), int64(d.env.K.GetValidatorSetUpdateId(d.env.Ctx)), d.vsc2h(), l0, in.cenv.Ctx.BlockHeight()}
	}
}

func (d *drv) fold(in *inst, us []abci.ValidatorUpdate) {
	for _, u := range us {
		id := pubID(u.PubKey.GetEd25519())
		if u.Power == 0 {
			delete(in.engine, id)
		} else {
			in.engine[id] = u.Power
		}
	}
}

func (in *inst) emit(op, obs common.T) {
	in.ops = append(in.ops, op)
	in.obs = append(in.obs, obs)
}

func (d *drv) pendingIDs(cid string) common.T {
	ps := d.env.K.GetPendingVSCPackets(d.env.Ctx, cid)
	out := make([]common.T, len(ps))
	for i, p := range ps {
		out[i] = int64(p.ValsetUpdateId)
	}
	return out
}

func (d *drv) providerEndBlock() {
	d.w.StakingEndBlock()
	isEpoch := d.env.Ctx.BlockHeight()%d.k.BPE == 0
	nsent := len(d.w.Sent)
	before := map[int]bool{}
	for _, in := range d.ins {
		before[in.c] = in.started && d.launched(in.cid)
	}
	_, res := d.env.EndBlock()
	if !res.OK() {
		panic(fmt.Sprintf("provider EndBlock failed: %s", res))
	}
	for _, in := range d.ins {
		if !in.started {
			continue
		}
		var sent []common.T
		nc := int64(0)
		for _, sp := range d.w.Sent[nsent:] {
			if sp.Channel != in.chanID {
				continue
			}
			var data ccvtypes.ValidatorSetChangePacketData
			if err := ccvtypes.ModuleCdc.UnmarshalJSON(sp.Data, &data); err != nil {
				panic(err)
			}
			sent = append(sent, common.L(int64(data.ValsetUpdateId), sortedPairs(updatesMap(data.ValidatorUpdates))))
			in.inflight = append(in.inflight, sp)
			nc++
		}
		after := d.launched(in.cid)
		kind, pos := int64(0), int64(0)
		_, hasChan := d.env.K.GetConsumerIdToChannelId(d.env.Ctx, in.cid)
		if before[in.c] && !after {
			kind, pos = 2, nc
		} else if cl, ok := d.w.Clients[in.clientID]; ok && cl.Expired && hasChan && before[in.c] {
			kind, pos = 1, 0
		}
		var next common.T = common.L()
		nextList, stored := d.valset(in.cid)
		if isEpoch && before[in.c] {
			next = nextList
		}
		in.emit(common.L(int64(1), common.B(isEpoch), next, kind, pos),
			common.L(int64(d.env.K.GetValidatorSetUpdateId(d.env.Ctx)), common.B(after), sortedPairs(stored),
				d.pendingIDs(in.cid), common.L(sent...), d.vsc2h()))
	}
	d.env.NextBlock(5 * time.Second)
	if r := d.env.BeginBlock(); !r.OK() {
		panic(fmt.Sprintf("provider BeginBlock failed: %s", r))
	}
	d.startInstances()
}

func (d *drv) inst(c int64) *inst {
	if c < 0 || int(c) >= len(d.ins) || !d.ins[c].started {
		return nil
	}
	return d.ins[c]
}

func (d *drv) open(in *inst) {
	connID := "connection-" + in.cid
	chanID := in.chanID
	if in.nopen > 0 {
		chanID = fmt.Sprintf("%s-dup%d", in.chanID, in.nopen)
	}
	in.nopen++
	d.w.Connections[connID] = &common.Connection{ID: connID, ClientID: in.clientID, CpConnectionID: "connection-0", CpClientID: "07-tendermint-0"}
	d.w.Channels[ccvtypes.ProviderPortID+"/"+chanID] = &common.Channel{Port: ccvtypes.ProviderPortID, ID: chanID,
		State: channeltypes.OPEN, Ordering: channeltypes.ORDERED, ConnectionID: connID, CpPort: ccvtypes.ConsumerPortID, CpID: "channel-0", Version: ccvtypes.Version}
	res := common.Tx(d.env.Ctx, func(ctx sdk.Context) error { return d.env.K.SetConsumerChain(ctx, chanID) })
	h := int64(-1)
	if v, ok := d.env.K.GetInitChainHeight(d.env.Ctx, in.cid); ok {
		h = int64(v)
	}
	in.emit(common.L(int64(2)), common.L(common.B(!res.OK()), h))
}

func (d *drv) ccvals(in *inst) map[int64]int64 {
	m := map[int64]int64{}
	for _, v := range in.cenv.K.GetAllCCValidator(in.cenv.Ctx) {
		m[addrID(v.Address)] = v.Power
	}
	return m
}

func (d *drv) h2id(in *inst) common.T {
	all := in.cenv.K.GetAllHeightToValsetUpdateIDs(in.cenv.Ctx)
	out := make([]common.T, len(all))
	for i, e := range all {
		out[i] = common.L(int64(e.Height), int64(e.ValsetUpdateId))
	}
	return out
}

func (d *drv) consumerBlock(in *inst, a []int64) {
	ce := in.cenv
	if r := ce.BeginBlock(); !r.OK() {
		panic(fmt.Sprintf("consumer BeginBlock failed: %s", r))
	}
	h := ce.Ctx.BlockHeight()
	in.emit(common.L(int64(4)), common.L(h, int64(ce.K.GetHeightValsetUpdateID(ce.Ctx, uint64(h+1)))))
	// deliveries
	n := a[2]
	for (n < 0 || n > 0) && len(in.inflight) > 0 {
		sp := in.inflight[0]
		in.inflight = in.inflight[1:]
		var data ccvtypes.ValidatorSetChangePacketData
		if err := ccvtypes.ModuleCdc.UnmarshalJSON(sp.Data, &data); err != nil {
			panic(err)
		}
		packet := channeltypes.NewPacket(sp.Data, sp.Seq, ccvtypes.ProviderPortID, in.chanID, ccvtypes.ConsumerPortID, "channel-0",
			clienttypes.Height{}, sp.TimeoutTimestamp)
		res := common.Tx(ce.Ctx, func(ctx sdk.Context) error { return ce.K.OnRecvVSCPacket(ctx, packet, data) })
		id := int64(data.ValsetUpdateId)
		if !res.OK() {
			id = -1
		}
		in.emit(common.L(int64(3)), common.L(id))
		if n > 0 {
			n--
		}
	}
	// slash requests: triples (hrel, who, kind)
	for i := 3; i+2 < len(a); i += 3 {
		ih := h - a[i]
		if ih < 0 {
			ih = 0
		}
		var addr sdk.ConsAddress
		power := int64(1)
		if vals := ce.K.GetAllCCValidator(ce.Ctx); a[i+1] >= 0 && len(vals) > 0 {
			v := vals[int(a[i+1])%len(vals)]
			addr, power = sdk.ConsAddress(v.Address), v.Power
		} else {
			fake := make([]byte, 20)
			fake[0], fake[1] = 0xfa, byte(i)
			addr = sdk.ConsAddress(fake)
		}
		infraction := stakingtypes.Infraction_INFRACTION_DOWNTIME
		if a[i+2] == 2 {
			infraction = stakingtypes.Infraction_INFRACTION_DOUBLE_SIGN
		}
		n0 := len(ce.K.GetPendingPackets(ce.Ctx))
		res := common.Tx(ce.Ctx, func(ctx sdk.Context) error {
			_, err := ce.K.SlashWithInfractionReason(ctx, addr, ih, power, math.LegacyNewDecWithPrec(1, 2), infraction)
			return err
		})
		pp := ce.K.GetPendingPackets(ce.Ctx)
		queued := res.OK() && len(pp) > n0
		id := int64(-1)
		if queued {
			id = int64(pp[len(pp)-1].GetSlashPacketData().ValsetUpdateId)
		}
		in.emit(common.L(int64(8), ih, common.B(queued)), common.L(id))
	}
	upd, r := ce.EndBlock()
	if !r.OK() {
		panic(fmt.Sprintf("consumer EndBlock failed: %s", r))
	}
	d.fold(in, upd)
	_, pend := ce.K.GetPendingChanges(ce.Ctx)
	in.emit(common.L(int64(5)), common.L(h, sortedPairs(d.ccvals(in)), sortedPairs(in.engine),
		int64(ce.K.GetHeightValsetUpdateID(ce.Ctx, uint64(h+1))), d.h2id(in), common.B(pend)))
	// slash packets handed to IBC by SendPackets
	for _, sp := range in.cw.Sent[in.csent:] {
		if sp.Port != ccvtypes.ConsumerPortID {
			continue
		}
		cp, err := provider.UnmarshalConsumerPacketData(sp.Data)
		if err == nil && cp.Type == ccvtypes.SlashPacket {
			in.slashes = append(in.slashes, slashInFlight{data: sp.Data, seq: sp.Seq})
		}
	}
	in.csent = len(in.cw.Sent)
	ce.NextBlock(5 * time.Second)
}

// recvSlash hands a slash packet to the provider through the REAL IBC callback (provider AppModule.OnRecvPacket, which
// decodes the packet data, calls the keeper's OnRecvSlashPacket and builds the acknowledgement).  What is observed is the
// ACKNOWLEDGEMENT: ok = a result acknowledgement (with its result byte), !ok = an error acknowledgement (or a panic, which
// IBC core turns into a failed transaction).  As in IBC core the callback runs on a cached context that is written only
// for a successful acknowledgement.  Also returns the infraction_height event attribute (-1 if not emitted).
func (d *drv) recvSlash(in *inst, raw []byte, seq uint64) (bool, channeltypes.Acknowledgement, int64) {
	packet := channeltypes.NewPacket(raw, seq, ccvtypes.ConsumerPortID, "channel-0", ccvtypes.ProviderPortID, in.chanID, clienttypes.Height{}, 0)
	var ack channeltypes.Acknowledgement
	evh := int64(-1)
	res := common.Tx(d.env.Ctx, func(ctx sdk.Context) error {
		ctx = ctx.WithEventManager(sdk.NewEventManager())
		a := d.env.Module.OnRecvPacket(ctx, ccvtypes.Version, packet, nil)
		ca, isAck := a.(channeltypes.Acknowledgement)
		if !isAck {
			return fmt.Errorf("unexpected acknowledgement type %T", a)
		}
		ack = ca
		if !a.Success() {
			return fmt.Errorf("error acknowledgement")
		}
		for _, ev := range ctx.EventManager().Events() {
			if ev.Type != providertypes.EventTypeExecuteConsumerChainSlash {
				continue
			}
			for _, at := range ev.Attributes {
				if at.Key == providertypes.AttributeInfractionHeight {
					evh, _ = strconv.ParseInt(at.Value, 10, 64)
				}
			}
		}
		return nil
	})
	if !res.OK() {
		evh = -1
		if res.Panic != nil || ack.Response == nil {
			ack = channeltypes.NewErrorAcknowledgement(fmt.Errorf("panic: %v", res.Panic))
		}
	}
	// a result acknowledgement must carry exactly one of the known result bytes
	ok := res.OK() && ack.Success() && len(ack.GetResult()) == 1
	return ok, ack, evh
}

func (d *drv) relaySlash(in *inst, n int64) {
	for ; n > 0 && len(in.slashes) > 0; n-- {
		sl := in.slashes[0]
		in.slashes = in.slashes[1:]
		cp, err := provider.UnmarshalConsumerPacketData(sl.data)
		if err != nil {
			panic(err)
		}
		data := *cp.GetSlashPacketData()
		ok, ack, evh := d.recvSlash(in, sl.data, sl.seq)
		in.emit(common.L(int64(9), int64(data.ValsetUpdateId), common.B(evh >= 0)), common.L(common.B(!ok), evh))
		// the acknowledgement the provider wrote goes back to the consumer
		packet := channeltypes.NewPacket(sl.data, sl.seq, ccvtypes.ConsumerPortID, "channel-0", ccvtypes.ProviderPortID, in.chanID, clienttypes.Height{}, 0)
		common.Tx(in.cenv.Ctx, func(ctx sdk.Context) error { return in.cenv.K.OnAcknowledgementPacket(ctx, packet, ack) })
	}
}

func (d *drv) forge(in *inst, a []int64) {
	id := a[3]
	if a[2] == 1 {
		id += int64(d.env.K.GetValidatorSetUpdateId(d.env.Ctx))
	}
	if id < 0 {
		id = 0
	}
	var addr []byte
	power := int64(1)
	if vs, err := d.env.K.GetConsumerValSet(d.env.Ctx, in.cid); err == nil && a[4] >= 0 && len(vs) > 0 {
		v := vs[int(a[4])%len(vs)]
		addr, power = common.Key(int(pubID(v.PublicKey.GetEd25519()))).PubKey().Address(), v.Power
	} else {
		addr = make([]byte, 20)
		addr[0], addr[1] = 0xfb, byte(id)
	}
	infraction := stakingtypes.Infraction_INFRACTION_DOUBLE_SIGN
	if a[5] == 1 {
		infraction = stakingtypes.Infraction_INFRACTION_DOWNTIME
	}
	data := ccvtypes.SlashPacketData{Validator: abci.Validator{Address: addr, Power: power}, ValsetUpdateId: uint64(id), Infraction: infraction}
	raw := ccvtypes.NewConsumerPacketData(ccvtypes.SlashPacket, &ccvtypes.ConsumerPacketData_SlashPacketData{SlashPacketData: &data}).GetBytes()
	ok, _, evh := d.recvSlash(in, raw, 999)
	in.emit(common.L(int64(9), id, common.B(evh >= 0)), common.L(common.B(!ok), evh))
}

// restart: the consumer chain stops between two blocks, its CCV genesis is exported (ExportGenesis) and a FRESH consumer
// keeper is initialised from it (InitGenesis, NewChain = false) at the same height and time over the same IBC world.
// The model treats a restart as the identity on the consumer state, so nothing is emitted: every later observation
// (height -> id map, sets, slash ids) must be what it would have been without the restart.  The consensus engine is
// handed the full exported set again.
func (d *drv) restart(in *inst) {
	old := in.cenv
	gs := old.K.ExportGenesis(old.Ctx)
	ne := common.NewConsumerEnv(d.t, in.cw, "consumer-"+in.cid)
	ne.Ctx = ne.Ctx.WithBlockHeader(old.Ctx.BlockHeader())
	upd := ne.K.InitGenesis(ne.Ctx, gs)
	in.cenv = ne
	in.engine = map[int64]int64{}
	d.fold(in, upd)
}

func (d *drv) shape(cfg consCfg) *providertypes.PowerShapingParameters {
	return &providertypes.PowerShapingParameters{ValidatorSetCap: cfg.SetCap, ValidatorsPowerCap: cfg.PowerCap, AllowInactiveVals: cfg.AllowInactive}
}

func (d *drv) run() (common.T, common.T) {
	k := d.k
	d.w = common.NewWorld(0)
	for i := 0; i < k.NVals; i++ {
		p := int64(i + 1)
		if i < len(k.Powers) {
			p = k.Powers[i]
		}
		d.w.AddVal(p * common.PowerReduction)
	}
	if k.MaxVals > 0 {
		d.w.MaxVals = k.MaxVals
	}
	d.w.StakingEndBlock()
	d.env = common.NewProviderEnv(d.t, d.w)
	params := providertypes.DefaultParams()
	params.BlocksPerEpoch = k.BPE
	d.env.InitGenesis(params)
	d.owner = sdk.AccAddress([]byte("owner000000000000001")).String()
	for c, cfg := range k.Cons {
		cid := strconv.Itoa(c)
		chain := fmt.Sprintf("cons%d-1", c)
		ip := &providertypes.ConsumerInitializationParameters{
			InitialHeight:                     clienttypes.NewHeight(1, 1),
			GenesisHash:                       []byte("gen_hash"),
			BinaryHash:                        []byte("bin_hash"),
			SpawnTime:                         common.T0.Add(time.Duration(cfg.Spawn)*5*time.Second - time.Second),
			ConsumerRedistributionFraction:    ccvtypes.DefaultConsumerRedistributeFrac,
			BlocksPerDistributionTransmission: ccvtypes.DefaultBlocksPerDistributionTransmission,
			HistoricalEntries:                 ccvtypes.DefaultHistoricalEntries,
			CcvTimeoutPeriod:                  ccvtypes.DefaultCCVTimeoutPeriod,
			TransferTimeoutPeriod:             ccvtypes.DefaultTransferTimeoutPeriod,
			UnbondingPeriod:                   ccvtypes.DefaultConsumerUnbondingPeriod,
		}
		r := d.env.Deliver(&providertypes.MsgCreateConsumer{Submitter: d.owner, ChainId: chain,
			Metadata:                 providertypes.ConsumerMetadata{Name: "n", Description: "d", Metadata: "m"},
			InitializationParameters: ip, PowerShapingParameters: d.shape(cfg)})
		if !r.OK() {
			panic(fmt.Sprintf("create consumer: %s", r))
		}
		for _, vi := range cfg.OptIn {
			if v := d.oper(int64(vi)); v != nil {
				d.env.Deliver(&providertypes.MsgOptIn{ConsumerId: cid, ProviderAddr: v.Oper.String(), Signer: signer(v)})
			}
		}
		for _, as := range cfg.Assign {
			if v := d.oper(int64(as[0])); v != nil {
				d.env.Deliver(&providertypes.MsgAssignConsumerKey{ConsumerId: cid, ProviderAddr: v.Oper.String(), Signer: signer(v), ConsumerKey: keyJSON(as[1])})
			}
		}
		d.ins = append(d.ins, &inst{c: c, cid: cid, chanID: "channel-" + cid})
	}

	for _, a := range k.Acts {
		switch a[0] {
		case aPEnd:
			d.providerEndBlock()
		case aStake:
			if v := d.oper(a[1]); v != nil {
				v.Tokens = math.NewInt(a[2] * common.PowerReduction)
			}
		case aJail:
			if v := d.oper(a[1]); v != nil {
				v.Jailed = a[2] != 0
			}
		case aOptIn:
			if v := d.oper(a[2]); v != nil {
				d.env.Deliver(&providertypes.MsgOptIn{ConsumerId: strconv.FormatInt(a[1], 10), ProviderAddr: v.Oper.String(), Signer: signer(v)})
			}
		case aOptOut:
			if v := d.oper(a[2]); v != nil {
				d.env.Deliver(&providertypes.MsgOptOut{ConsumerId: strconv.FormatInt(a[1], 10), ProviderAddr: v.Oper.String(), Signer: signer(v)})
			}
		case aAssign:
			if v := d.oper(a[2]); v != nil {
				d.env.Deliver(&providertypes.MsgAssignConsumerKey{ConsumerId: strconv.FormatInt(a[1], 10), ProviderAddr: v.Oper.String(),
					Signer: signer(v), ConsumerKey: keyJSON(int(a[3]))})
			}
		case aShape:
			d.env.Deliver(&providertypes.MsgUpdateConsumer{Owner: d.owner, ConsumerId: strconv.FormatInt(a[1], 10),
				PowerShapingParameters: d.shape(consCfg{SetCap: uint32(a[2]), PowerCap: uint32(a[3]), AllowInactive: a[4] != 0})})
		case aOpen:
			if in := d.inst(a[1]); in != nil {
				d.open(in)
			}
		case aExpire:
			if in := d.inst(a[1]); in != nil {
				if cl, ok := d.w.Clients[in.clientID]; ok {
					cl.Expired = a[2] != 0
				}
			}
		case aFault:
			d.w.Faults["channel.SendPacket"] = int(a[1])
		case aStop:
			if in := d.inst(a[1]); in != nil {
				d.env.Deliver(&providertypes.MsgRemoveConsumer{Owner: d.owner, ConsumerId: in.cid})
				in.emit(common.L(int64(7)), common.L(common.B(d.launched(in.cid))))
			}
		case aCBlock:
			if in := d.inst(a[1]); in != nil {
				d.consumerBlock(in, a)
			}
		case aRelaySlash:
			if in := d.inst(a[1]); in != nil {
				d.relaySlash(in, a[2])
			}
		case aForge:
			if in := d.inst(a[1]); in != nil {
				d.forge(in, a)
			}
		case aRestart:
			if in := d.inst(a[1]); in != nil {
				d.restart(in)
			}
		}
	}

	var inputs, obs []common.T
	for _, in := range d.ins {
		if !in.started {
			continue
		}
		inputs = append(inputs, common.L(append(append([]common.T{}, in.head...), common.L(in.ops...))...))
		obs = append(obs, common.L(in.obs...))
	}
	return common.L(k.Prop, common.L(inputs...)), common.L(obs...)
}

func TestDriver(t *testing.T) {
	common.RunCases(t, func(c common.Case) (common.T, common.T) {
		var k kase
		if err := json.Unmarshal(c.Raw, &k); err != nil {
			panic(err)
		}
		d := &drv{t: t, k: k}
		return d.run()
	})
}
