package c03

// Correspondence driver for C03 (Top-N consumers).  Three kinds of cases:
//   dec      : every LegacyDec operation modelled in coq/theories/Base/Dec.v against cosmossdk.io/math
//   minpower : the real Keeper.ComputeMinPowerInTopN on validators of the fake World
//   history  : one consumer driven through real messages (MsgCreateConsumer, MsgUpdateConsumer,
//              MsgOptIn, MsgOptOut), BeginBlock launches and EndBlock epochs of the real provider module

import (
	"encoding/json"
	"errors"
	"math/big"
	"sort"
	"testing"

	"cosmossdk.io/math"

	sdk "github.com/cosmos/cosmos-sdk/types"
	stakingtypes "github.com/cosmos/cosmos-sdk/x/staking/types"

	"verifharness/common"

	providertypes "github.com/cosmos/interchain-security/v7/x/ccv/provider/types"
)

type kase struct {
	Kind string `json:"kind"`
	// dec
	DecOps [][]*big.Int `json:"dec_ops"`
	// minpower
	Tables []struct {
		Powers []int64 `json:"powers"`
		N      uint32  `json:"n"`
	} `json:"tables"`
	// history
	Powers    []int64             `json:"powers"`     // initial powers of validators 0..n-1
	MaxVals   uint32              `json:"max_vals"`   // staking MaxValidators
	MaxActive int64               `json:"max_active"` // MaxProviderConsensusValidators
	Ops       [][]json.RawMessage `json:"ops"`
}

func TestDriver(t *testing.T) {
	common.RunCases(t, func(c common.Case) (common.T, common.T) {
		var k kase
		if err := json.Unmarshal(c.Raw, &k); err != nil {
			panic(err)
		}
		switch k.Kind {
		case "dec":
			return runDec(k)
		case "minpower":
			return runMinPower(t, k)
		case "history":
			return runHistory(t, k)
		}
		panic("unknown kind " + k.Kind)
	})
}

// ---------------------------------------------------------------- dec

func dec(i *big.Int) math.LegacyDec { return math.LegacyNewDecFromBigIntWithPrec(new(big.Int).Set(i), 18) }

func runDec(k kase) (common.T, common.T) {
	in := make([]common.T, len(k.DecOps))
	out := make([]common.T, len(k.DecOps))
	for i, o := range k.DecOps {
		a, b := o[1], o[2]
		in[i] = common.L(o[0], a, b)
		var r *big.Int
		switch o[0].Int64() {
		case 1:
			r = dec(a).Mul(dec(b)).BigInt()
		case 2:
			r = dec(a).MulTruncate(dec(b)).BigInt()
		case 3:
			r = dec(a).Quo(dec(b)).BigInt()
		case 4:
			r = dec(a).QuoTruncate(dec(b)).BigInt()
		case 5:
			r = dec(a).QuoInt64(b.Int64()).BigInt()
		case 6:
			r = dec(a).TruncateInt().BigInt()
		case 7, 8:
			r = dec(a).RoundInt().BigInt()
		case 9:
			r = dec(a).Add(dec(b)).BigInt()
		case 10:
			r = dec(a).Sub(dec(b)).BigInt()
		case 11:
			r = dec(a).MulInt64(b.Int64()).BigInt()
		case 12:
			r = math.LegacyNewDec(a.Int64()).BigInt()
		case 13:
			r = big.NewInt(0)
			if dec(a).GTE(dec(b)) {
				r = big.NewInt(1)
			}
		default:
			panic("bad dec opcode")
		}
		out[i] = r
	}
	return in, out
}

// ---------------------------------------------------------------- minpower

func runMinPower(t *testing.T, k kase) (common.T, common.T) {
	w := common.NewWorld(40)
	env := common.NewProviderEnv(t, w)
	in := make([]common.T, len(k.Tables))
	out := make([]common.T, len(k.Tables))
	for i, tb := range k.Tables {
		vals := make([]stakingtypes.Validator, len(tb.Powers))
		for j, p := range tb.Powers {
			w.Vals[j].LastPower = p
			vals[j] = w.Vals[j].Staking()
		}
		in[i] = common.L(common.Ints(tb.Powers), int64(tb.N))
		m, err := env.K.ComputeMinPowerInTopN(env.Ctx, vals, tb.N)
		if err != nil {
			out[i] = common.L()
		} else {
			out[i] = common.L(m)
		}
	}
	return common.L(1, in), out
}

// ---------------------------------------------------------------- history

const consumerID = "0"

type hist struct {
	t   *testing.T
	w   *common.World
	env *common.ProviderEnv
}

func ints(raw json.RawMessage) []int64 {
	var l []int64
	if err := json.Unmarshal(raw, &l); err != nil {
		panic(err)
	}
	return l
}

func num(raw json.RawMessage) int64 {
	var x int64
	if err := json.Unmarshal(raw, &x); err != nil {
		panic(err)
	}
	return x
}

// operator address of validator id (ids beyond the world are well-formed but unregistered operators)
func (h *hist) oper(id int64) sdk.ValAddress {
	if id >= 0 && int(id) < len(h.w.Vals) {
		return h.w.Vals[id].Oper
	}
	b := make([]byte, 20)
	b[0], b[1], b[19] = 0xee, byte(id), 0x78
	return sdk.ValAddress(b)
}

func (h *hist) consAddrStr(id int64) string {
	if id >= 0 && int(id) < len(h.w.Vals) {
		return h.w.Vals[id].ConsAddr().String()
	}
	return sdk.ConsAddress(common.Key(5000 + int(id)).PubKey().Address()).String()
}

func (h *hist) idOfOper(operator string) int64 {
	a, err := sdk.ValAddressFromBech32(operator)
	if err != nil {
		panic(err)
	}
	return int64(h.w.ValByOper(a).Idx)
}

// oracle: the provider's active validators with last power and bonded tokens
func (h *hist) active() common.T {
	vals, err := h.env.K.GetLastProviderConsensusActiveValidators(h.env.Ctx)
	if err != nil {
		panic(err)
	}
	out := make([]common.T, len(vals))
	for i, v := range vals {
		id := h.idOfOper(v.GetOperator())
		out[i] = common.L(id, h.w.Vals[id].LastPower, v.GetBondedTokens().Int64())
	}
	return out
}

// oracle: the bonded validators with last power and bonded tokens
func (h *hist) bonded() common.T {
	vals, err := h.env.K.GetLastBondedValidators(h.env.Ctx)
	if err != nil {
		panic(err)
	}
	out := make([]common.T, len(vals))
	for i, v := range vals {
		id := h.idOfOper(v.GetOperator())
		out[i] = common.L(id, h.w.Vals[id].LastPower, v.GetBondedTokens().Int64())
	}
	return out
}

func (h *hist) observe(code int64) common.T {
	k, ctx := h.env.K, h.env.Ctx
	var thr common.T = common.L()
	if m, found := k.GetMinimumPowerInTopN(ctx, consumerID); found {
		thr = common.L(m)
	}
	opted := []int64{}
	for _, v := range h.w.Vals {
		if k.IsOptedIn(ctx, consumerID, providertypes.NewProviderConsAddress(v.ConsAddr())) {
			opted = append(opted, int64(v.Idx))
		}
	}
	vs, err := k.GetConsumerValSet(ctx, consumerID)
	if err != nil {
		panic(err)
	}
	ids := []int64{}
	for _, cv := range vs {
		v := h.w.ValByCons(sdk.ConsAddress(cv.ProviderConsAddr))
		if v == nil {
			ids = append(ids, -1)
			continue
		}
		ids = append(ids, int64(v.Idx))
	}
	sort.Slice(ids, func(i, j int) bool { return ids[i] < ids[j] })
	return common.L(code, thr, common.Ints(opted), common.Ints(ids))
}

func runHistory(t *testing.T, k kase) (common.T, common.T) {
	w := common.NewWorld(0)
	for _, p := range k.Powers {
		w.AddVal(p * common.PowerReduction)
	}
	if k.MaxVals > 0 {
		w.MaxVals = k.MaxVals
	}
	w.StakingEndBlock()
	env := common.NewProviderEnv(t, w)
	params := providertypes.DefaultParams()
	params.BlocksPerEpoch = 1
	params.MaxProviderConsensusValidators = k.MaxActive
	env.InitGenesis(params)
	h := &hist{t: t, w: w, env: env}

	res := env.Deliver(&providertypes.MsgCreateConsumer{
		Submitter: env.Authority,
		ChainId:   "topn-1",
		Metadata:  providertypes.ConsumerMetadata{Name: "c03", Description: "c03", Metadata: "c03"},
	})
	if !res.OK() {
		panic("create consumer: " + res.String())
	}

	input, obs := []common.T{}, []common.T{}
	for _, o := range k.Ops {
		switch num(o[0]) {
		case 1: // SetTopN: MsgUpdateConsumer with power-shaping parameters
			n, al, dl, ms, ai := num(o[1]), ints(o[2]), ints(o[3]), num(o[4]), num(o[5]) != 0
			ps := &providertypes.PowerShapingParameters{Top_N: uint32(n), MinStake: uint64(ms), AllowInactiveVals: ai}
			for _, id := range al {
				ps.Allowlist = append(ps.Allowlist, h.consAddrStr(id))
			}
			for _, id := range dl {
				ps.Denylist = append(ps.Denylist, h.consAddrStr(id))
			}
			input = append(input, common.L(1, n, common.Ints(al), common.Ints(dl), ms, common.B(ai), h.active()))
			r := env.Deliver(&providertypes.MsgUpdateConsumer{Owner: env.Authority, ConsumerId: consumerID, PowerShapingParameters: ps})
			code := int64(0)
			switch {
			case r.OK():
			case r.Panic != nil:
				code = 8
			case errors.Is(r.Err, providertypes.ErrCannotUpdateMinimumPowerInTopN):
				code = 2
			case errors.Is(r.Err, providertypes.ErrInvalidMsgUpdateConsumer):
				code = 1
			default:
				code = 9
			}
			obs = append(obs, h.observe(code))
		case 2: // Launch: set the spawn time to now, next block's BeginBlock launches
			input = append(input, common.L(2, h.active(), h.bonded(), env.K.GetMaxProviderConsensusValidators(env.Ctx)))
			ip := providertypes.DefaultConsumerInitializationParameters()
			ip.SpawnTime = env.Ctx.BlockTime()
			r := env.Deliver(&providertypes.MsgUpdateConsumer{Owner: env.Authority, ConsumerId: consumerID, InitializationParameters: &ip})
			code := int64(0)
			if !r.OK() {
				code = 1
			} else {
				env.NextBlock(6e9)
				if br := env.BeginBlock(); !br.OK() {
					code = 8
				} else if env.K.GetConsumerPhase(env.Ctx, consumerID) != providertypes.CONSUMER_PHASE_LAUNCHED {
					code = 2
				}
			}
			obs = append(obs, h.observe(code))
		case 3: // Epoch: EndBlock of the current block (BlocksPerEpoch = 1), then the next block begins
			input = append(input, common.L(3, h.active(), h.bonded(), env.K.GetMaxProviderConsensusValidators(env.Ctx)))
			code := int64(0)
			if _, r := env.EndBlock(); !r.OK() {
				code = 3
			}
			o := h.observe(code)
			env.NextBlock(6e9)
			if br := env.BeginBlock(); !br.OK() {
				o = h.observe(8)
			}
			obs = append(obs, o)
		case 4, 5: // OptIn / OptOut; o[2] = 1: the signer is somebody else (fails ValidateBasic)
			id := num(o[1])
			op := h.oper(id)
			signer := sdk.AccAddress(op).String()
			if len(o) > 2 && num(o[2]) != 0 {
				signer = env.Authority
			}
			v := w.ValByOper(op)
			known := v != nil && signer == sdk.AccAddress(op).String()
			var r common.Result
			if num(o[0]) == 4 {
				input = append(input, common.L(4, id, common.B(known)))
				r = env.Deliver(&providertypes.MsgOptIn{ConsumerId: consumerID, ProviderAddr: op.String(), Signer: signer})
			} else {
				power := int64(0)
				if v != nil {
					power = v.LastPower
				}
				input = append(input, common.L(5, id, common.B(known), power))
				r = env.Deliver(&providertypes.MsgOptOut{ConsumerId: consumerID, ProviderAddr: op.String(), Signer: signer})
			}
			code := int64(0)
			switch {
			case r.OK():
			case r.Panic != nil:
				code = 8
			case errors.Is(r.Err, stakingtypes.ErrNoValidatorFound),
				errors.Is(r.Err, providertypes.ErrInvalidMsgOptIn), errors.Is(r.Err, providertypes.ErrInvalidMsgOptOut):
				code = 1
			case errors.Is(r.Err, providertypes.ErrInvalidPhase):
				code = 2
			case errors.Is(r.Err, providertypes.ErrUnknownConsumerId):
				code = 3
			case errors.Is(r.Err, providertypes.ErrCannotOptOutFromTopN):
				code = 4
			default:
				code = 9
			}
			obs = append(obs, h.observe(code))
		case 6: // staking: validator o[1] now has power o[2] (tokens = power * PowerReduction); not a model op
			id := num(o[1])
			w.Vals[id].Tokens = math.NewInt(num(o[2]) * common.PowerReduction)
			w.StakingEndBlock()
		case 7: // staking: jail / unjail validator o[1]; not a model op
			w.Vals[num(o[1])].Jailed = num(o[2]) != 0
			w.StakingEndBlock()
		default:
			panic("bad history opcode")
		}
	}
	return common.L(2, input), obs
}
