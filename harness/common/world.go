package common

// World: a small, deterministic, scriptable stand-in for the modules the CCV keepers
// call (staking, slashing, IBC channel/connection/client, bank, account, distribution).
// The provider/consumer keepers, message servers, module Begin/EndBlock and IBC callbacks
// that run against it are the real ones from /repo.  Every external method can be made to
// fail on its n-th call (fault injection for C19) without touching /repo.

import (
	"context"
	"fmt"
	"sort"
	"time"

	transfertypes "github.com/cosmos/ibc-go/v10/modules/apps/transfer/types"
	clienttypes "github.com/cosmos/ibc-go/v10/modules/core/02-client/types"
	conntypes "github.com/cosmos/ibc-go/v10/modules/core/03-connection/types"
	channeltypes "github.com/cosmos/ibc-go/v10/modules/core/04-channel/types"
	ibcexported "github.com/cosmos/ibc-go/v10/modules/core/exported"
	ibctmtypes "github.com/cosmos/ibc-go/v10/modules/light-clients/07-tendermint"

	addresscodec "cosmossdk.io/core/address"
	"cosmossdk.io/math"

	sdkaddress "github.com/cosmos/cosmos-sdk/codec/address"
	codectypes "github.com/cosmos/cosmos-sdk/codec/types"
	"github.com/cosmos/cosmos-sdk/crypto/keys/ed25519"
	cryptotypes "github.com/cosmos/cosmos-sdk/crypto/types"
	sdk "github.com/cosmos/cosmos-sdk/types"
	authtypes "github.com/cosmos/cosmos-sdk/x/auth/types"
	slashingtypes "github.com/cosmos/cosmos-sdk/x/slashing/types"
	stakingtypes "github.com/cosmos/cosmos-sdk/x/staking/types"

	tmproto "github.com/cometbft/cometbft/proto/tendermint/types"

	ccv "github.com/cosmos/interchain-security/v7/x/ccv/types"
)

// PowerReduction is the staking power reduction (tokens per unit of voting power).
const PowerReduction = 1_000_000

// Key returns the deterministic ed25519 key number n (used for provider and consumer keys).
func Key(n int) cryptotypes.PrivKey {
	seed := make([]byte, 32)
	seed[0] = byte(n)
	seed[1] = byte(n >> 8)
	seed[2] = 0x5a
	return ed25519.GenPrivKeyFromSecret(seed)
}

// Val is a staking validator of the fake world.
type Val struct {
	Idx         int
	Oper        sdk.ValAddress
	Priv        cryptotypes.PrivKey
	Tokens      math.Int
	Status      stakingtypes.BondStatus
	Jailed      bool
	LastPower   int64 // 0 = not in the last-power (bonded) set
	Tombstoned  bool
	JailedUntil time.Time
	Removed     bool
	// stake still unbonding / redelegating away from this validator (in tokens), for ComputePowerToSlash
	Unbonding   []math.Int
	Redelegated []math.Int
	SlashLog    []SlashRec
	Rewards     sdk.DecCoins // AllocateTokensToValidator accumulates here
}

type SlashRec struct {
	Height   int64
	Power    int64
	Fraction string
	Reason   stakingtypes.Infraction
}

func (v *Val) ConsAddr() sdk.ConsAddress { return sdk.ConsAddress(v.Priv.PubKey().Address()) }

func (v *Val) Power() int64 { return v.Tokens.QuoRaw(PowerReduction).Int64() }

func (v *Val) Staking() stakingtypes.Validator {
	pkAny, err := codectypes.NewAnyWithValue(v.Priv.PubKey())
	if err != nil {
		panic(err)
	}
	return stakingtypes.Validator{
		OperatorAddress: v.Oper.String(),
		ConsensusPubkey: pkAny,
		Jailed:          v.Jailed,
		Status:          v.Status,
		Tokens:          v.Tokens,
		DelegatorShares: math.LegacyNewDecFromInt(v.Tokens),
		Commission:      stakingtypes.NewCommission(math.LegacyNewDecWithPrec(1, 1), math.LegacyOneDec(), math.LegacyOneDec()),
	}
}

type Channel struct {
	Port, ID     string
	State        channeltypes.State
	Ordering     channeltypes.Order
	ConnectionID string
	CpPort, CpID string
	Version      string
	NextSeq      uint64
}

type SentPacket struct {
	Port, Channel    string
	Seq              uint64
	TimeoutTimestamp uint64
	Data             []byte
}

type Connection struct {
	ID, ClientID, CpConnectionID, CpClientID string
}

type Client struct {
	ID      string
	ChainID string
	Latest  clienttypes.Height
	Expired bool
	State   *ibctmtypes.ClientState
}

// World holds the state of all faked modules.
type World struct {
	Vals          []*Val
	MaxVals       uint32
	Unbonding     time.Duration
	CommunityTax  math.LegacyDec
	MinCommission math.LegacyDec

	Channels    map[string]*Channel // key: port/channel
	Connections map[string]*Connection
	Clients     map[string]*Client
	NextClient  int
	Sent        []SentPacket
	Acks        []string
	Closed      []string

	Balances      map[string]sdk.Coins // module account name or address string -> coins
	CommunityPool sdk.Coins

	// fault injection: method name -> remaining successful calls before failing once (-1: never)
	Faults map[string]int
	Calls  map[string]int
	// FailAlways: method names that always fail
	FailAlways map[string]bool
}

func NewWorld(nvals int) *World {
	w := &World{
		MaxVals:       100,
		Unbonding:     21 * 24 * time.Hour,
		CommunityTax:  math.LegacyNewDecWithPrec(2, 2),
		MinCommission: math.LegacyZeroDec(),
		Channels:      map[string]*Channel{},
		Connections:   map[string]*Connection{},
		Clients:       map[string]*Client{},
		Balances:      map[string]sdk.Coins{},
		Faults:        map[string]int{},
		Calls:         map[string]int{},
		FailAlways:    map[string]bool{},
	}
	for i := 0; i < nvals; i++ {
		w.AddVal(int64(1+i) * PowerReduction)
	}
	w.StakingEndBlock()
	return w
}

// AddVal creates validator number len(Vals) with the given tokens (unbonded until StakingEndBlock).
func (w *World) AddVal(tokens int64) *Val {
	i := len(w.Vals)
	priv := Key(1000 + i)
	oper := make([]byte, 20)
	oper[0] = byte(i + 1)
	oper[19] = 0x77
	v := &Val{Idx: i, Oper: sdk.ValAddress(oper), Priv: priv, Tokens: math.NewInt(tokens), Status: stakingtypes.Unbonded}
	w.Vals = append(w.Vals, v)
	return v
}

// fail reports whether the named external call must fail now.
func (w *World) fail(name string) error {
	w.Calls[name]++
	if w.FailAlways[name] {
		return fmt.Errorf("injected fault in %s", name)
	}
	if n, ok := w.Faults[name]; ok {
		if n == 0 {
			delete(w.Faults, name)
			return fmt.Errorf("injected fault in %s", name)
		}
		w.Faults[name] = n - 1
	}
	return nil
}

// powerIndex returns the validators as the staking power index would iterate them:
// not jailed, positive power, (power desc, operator address asc).
func (w *World) powerIndex() []*Val {
	var l []*Val
	for _, v := range w.Vals {
		if v.Removed || v.Jailed || v.Power() <= 0 {
			continue
		}
		l = append(l, v)
	}
	sort.SliceStable(l, func(i, j int) bool {
		if l[i].Power() != l[j].Power() {
			return l[i].Power() > l[j].Power()
		}
		return string(l[i].Oper) < string(l[j].Oper)
	})
	return l
}

// StakingEndBlock mimics staking's ApplyAndReturnValidatorSetUpdates: the first MaxVals of the
// power index become bonded with LastPower = current power; the others leave the bonded set.
func (w *World) StakingEndBlock() {
	idx := w.powerIndex()
	in := map[int]bool{}
	for i, v := range idx {
		if uint32(i) >= w.MaxVals {
			break
		}
		in[v.Idx] = true
	}
	for _, v := range w.Vals {
		if v.Removed {
			continue
		}
		if in[v.Idx] {
			v.Status = stakingtypes.Bonded
			v.LastPower = v.Power()
		} else {
			if v.Status == stakingtypes.Bonded {
				v.Status = stakingtypes.Unbonding
			}
			v.LastPower = 0
		}
	}
}

func (w *World) ValByOper(oper sdk.ValAddress) *Val {
	for _, v := range w.Vals {
		if !v.Removed && v.Oper.Equals(oper) {
			return v
		}
	}
	return nil
}

func (w *World) ValByCons(c sdk.ConsAddress) *Val {
	for _, v := range w.Vals {
		if !v.Removed && v.ConsAddr().Equals(c) {
			return v
		}
	}
	return nil
}

// ---------------------------------------------------------------- staking

type FakeStaking struct {
	ccv.StakingKeeper // nil: any method not implemented below panics if called
	W                 *World
}

func (s FakeStaking) UnbondingTime(context.Context) (time.Duration, error) {
	if err := s.W.fail("staking.UnbondingTime"); err != nil {
		return 0, err
	}
	return s.W.Unbonding, nil
}

func (s FakeStaking) GetValidatorByConsAddr(_ context.Context, c sdk.ConsAddress) (stakingtypes.Validator, error) {
	if v := s.W.ValByCons(c); v != nil {
		return v.Staking(), nil
	}
	return stakingtypes.Validator{}, stakingtypes.ErrNoValidatorFound
}

func (s FakeStaking) GetValidator(_ context.Context, a sdk.ValAddress) (stakingtypes.Validator, error) {
	if v := s.W.ValByOper(a); v != nil {
		return v.Staking(), nil
	}
	return stakingtypes.Validator{}, stakingtypes.ErrNoValidatorFound
}

func (s FakeStaking) GetLastValidatorPower(_ context.Context, a sdk.ValAddress) (int64, error) {
	if err := s.W.fail("staking.GetLastValidatorPower"); err != nil {
		return 0, err
	}
	if v := s.W.ValByOper(a); v != nil {
		return v.LastPower, nil
	}
	return 0, nil
}

func (s FakeStaking) GetBondedValidatorsByPower(context.Context) ([]stakingtypes.Validator, error) {
	if err := s.W.fail("staking.GetBondedValidatorsByPower"); err != nil {
		return nil, err
	}
	var out []stakingtypes.Validator
	for _, v := range s.W.powerIndex() {
		if uint32(len(out)) >= s.W.MaxVals {
			break
		}
		if v.Status == stakingtypes.Bonded {
			out = append(out, v.Staking())
		}
	}
	return out, nil
}

func (s FakeStaking) IterateBondedValidatorsByPower(ctx context.Context, f func(int64, stakingtypes.ValidatorI) bool) error {
	vals, err := s.GetBondedValidatorsByPower(ctx)
	if err != nil {
		return err
	}
	for i, v := range vals {
		if f(int64(i), v) {
			break
		}
	}
	return nil
}

func (s FakeStaking) MaxValidators(context.Context) (uint32, error) {
	if err := s.W.fail("staking.MaxValidators"); err != nil {
		return 0, err
	}
	return s.W.MaxVals, nil
}

func (s FakeStaking) GetLastTotalPower(context.Context) (math.Int, error) {
	t := int64(0)
	for _, v := range s.W.Vals {
		if !v.Removed {
			t += v.LastPower
		}
	}
	return math.NewInt(t), nil
}

func (s FakeStaking) PowerReduction(context.Context) math.Int { return math.NewInt(PowerReduction) }

func (s FakeStaking) BondDenom(context.Context) (string, error) { return "stake", nil }

func (s FakeStaking) MinCommissionRate(context.Context) (math.LegacyDec, error) {
	return s.W.MinCommission, nil
}

func (s FakeStaking) ValidatorAddressCodec() addresscodec.Codec {
	return sdkaddress.NewBech32Codec("cosmosvaloper")
}

func (s FakeStaking) Jail(_ context.Context, c sdk.ConsAddress) error {
	if err := s.W.fail("staking.Jail"); err != nil {
		return err
	}
	v := s.W.ValByCons(c)
	if v == nil {
		return stakingtypes.ErrNoValidatorFound
	}
	if v.Jailed {
		return fmt.Errorf("cannot jail already jailed validator")
	}
	v.Jailed = true
	return nil
}

func (s FakeStaking) Unjail(_ context.Context, c sdk.ConsAddress) error {
	v := s.W.ValByCons(c)
	if v == nil {
		return stakingtypes.ErrNoValidatorFound
	}
	v.Jailed = false
	return nil
}

func (s FakeStaking) IsValidatorJailed(_ context.Context, c sdk.ConsAddress) (bool, error) {
	v := s.W.ValByCons(c)
	if v == nil {
		return false, stakingtypes.ErrNoValidatorFound
	}
	return v.Jailed, nil
}

func (s FakeStaking) slash(c sdk.ConsAddress, h, power int64, f math.LegacyDec, reason stakingtypes.Infraction) (math.Int, error) {
	if err := s.W.fail("staking.Slash"); err != nil {
		return math.ZeroInt(), err
	}
	v := s.W.ValByCons(c)
	if v == nil {
		return math.ZeroInt(), nil
	}
	if v.Status == stakingtypes.Unbonded {
		panic("should not be slashing unbonded validator")
	}
	amt := f.MulInt(math.NewInt(power).MulRaw(PowerReduction)).TruncateInt()
	if amt.GT(v.Tokens) {
		amt = v.Tokens
	}
	v.Tokens = v.Tokens.Sub(amt)
	v.SlashLog = append(v.SlashLog, SlashRec{Height: h, Power: power, Fraction: f.String(), Reason: reason})
	return amt, nil
}

func (s FakeStaking) Slash(_ context.Context, c sdk.ConsAddress, h, p int64, f math.LegacyDec) (math.Int, error) {
	return s.slash(c, h, p, f, stakingtypes.Infraction_INFRACTION_UNSPECIFIED)
}

func (s FakeStaking) SlashWithInfractionReason(_ context.Context, c sdk.ConsAddress, h, p int64, f math.LegacyDec, r stakingtypes.Infraction) (math.Int, error) {
	return s.slash(c, h, p, f, r)
}

func (s FakeStaking) GetUnbondingDelegationsFromValidator(_ context.Context, a sdk.ValAddress) ([]stakingtypes.UnbondingDelegation, error) {
	v := s.W.ValByOper(a)
	var out []stakingtypes.UnbondingDelegation
	if v == nil {
		return out, nil
	}
	for i, amt := range v.Unbonding {
		out = append(out, stakingtypes.UnbondingDelegation{
			DelegatorAddress: sdk.AccAddress([]byte{byte(i + 1), 0xdd}).String(),
			ValidatorAddress: a.String(),
			Entries: []stakingtypes.UnbondingDelegationEntry{{
				CreationHeight: 1, InitialBalance: amt, Balance: amt, UnbondingId: uint64(i + 1),
			}},
		})
	}
	return out, nil
}

func (s FakeStaking) GetRedelegationsFromSrcValidator(_ context.Context, a sdk.ValAddress) ([]stakingtypes.Redelegation, error) {
	v := s.W.ValByOper(a)
	var out []stakingtypes.Redelegation
	if v == nil {
		return out, nil
	}
	for i, amt := range v.Redelegated {
		out = append(out, stakingtypes.Redelegation{
			DelegatorAddress:    sdk.AccAddress([]byte{byte(i + 1), 0xee}).String(),
			ValidatorSrcAddress: a.String(),
			ValidatorDstAddress: a.String(),
			Entries: []stakingtypes.RedelegationEntry{{
				CreationHeight: 1, InitialBalance: amt, SharesDst: math.LegacyNewDecFromInt(amt), UnbondingId: uint64(100 + i),
			}},
		})
	}
	return out, nil
}

func (s FakeStaking) SlashUnbondingDelegation(_ context.Context, ubd stakingtypes.UnbondingDelegation, _ int64, f math.LegacyDec) (math.Int, error) {
	total := math.ZeroInt()
	for _, e := range ubd.Entries {
		total = total.Add(f.MulInt(e.InitialBalance).TruncateInt())
	}
	return total, nil
}

func (s FakeStaking) SlashRedelegation(_ context.Context, _ stakingtypes.Validator, red stakingtypes.Redelegation, _ int64, f math.LegacyDec) (math.Int, error) {
	total := math.ZeroInt()
	for _, e := range red.Entries {
		total = total.Add(f.MulInt(e.InitialBalance).TruncateInt())
	}
	return total, nil
}

func (s FakeStaking) GetHistoricalInfo(_ context.Context, h int64) (stakingtypes.HistoricalInfo, error) {
	if err := s.W.fail("staking.GetHistoricalInfo"); err != nil {
		return stakingtypes.HistoricalInfo{}, err
	}
	return stakingtypes.HistoricalInfo{Header: tmproto.Header{Height: h, Time: time.Unix(1, 0).UTC(), AppHash: []byte("apphash"), NextValidatorsHash: []byte("nextvalshash")}}, nil
}

func (s FakeStaking) TotalBondedTokens(context.Context) (math.Int, error) {
	t := math.ZeroInt()
	for _, v := range s.W.Vals {
		if !v.Removed && v.Status == stakingtypes.Bonded {
			t = t.Add(v.Tokens)
		}
	}
	return t, nil
}

func (s FakeStaking) StakingTokenSupply(context.Context) (math.Int, error) {
	t := math.ZeroInt()
	for _, v := range s.W.Vals {
		if !v.Removed {
			t = t.Add(v.Tokens)
		}
	}
	return t.MulRaw(2), nil
}

func (s FakeStaking) IterateDelegations(context.Context, sdk.AccAddress, func(int64, stakingtypes.DelegationI) bool) error {
	return nil
}

// ---------------------------------------------------------------- slashing

type FakeSlashing struct {
	ccv.SlashingKeeper
	W *World
	// provider-side defaults used by DefaultConsumerInfractionParameters
	DowntimeJail    time.Duration
	FracDowntime    math.LegacyDec
	FracDoubleSign  math.LegacyDec
	ConsumerSigning map[string]slashingtypes.ValidatorSigningInfo // consumer keeper use
}

func (s FakeSlashing) JailUntil(_ context.Context, c sdk.ConsAddress, t time.Time) error {
	if err := s.W.fail("slashing.JailUntil"); err != nil {
		return err
	}
	v := s.W.ValByCons(c)
	if v == nil {
		return fmt.Errorf("no signing info")
	}
	v.JailedUntil = t
	return nil
}

func (s FakeSlashing) Tombstone(_ context.Context, c sdk.ConsAddress) error {
	if err := s.W.fail("slashing.Tombstone"); err != nil {
		return err
	}
	v := s.W.ValByCons(c)
	if v == nil {
		return fmt.Errorf("no signing info")
	}
	if v.Tombstoned {
		return fmt.Errorf("cannot tombstone validator that is already tombstoned")
	}
	v.Tombstoned = true
	return nil
}

func (s FakeSlashing) IsTombstoned(_ context.Context, c sdk.ConsAddress) bool {
	v := s.W.ValByCons(c)
	return v != nil && v.Tombstoned
}

func (s FakeSlashing) DowntimeJailDuration(context.Context) (time.Duration, error) {
	return s.DowntimeJail, nil
}
func (s FakeSlashing) SlashFractionDowntime(context.Context) (math.LegacyDec, error) {
	return s.FracDowntime, nil
}
func (s FakeSlashing) SlashFractionDoubleSign(context.Context) (math.LegacyDec, error) {
	return s.FracDoubleSign, nil
}
func (s FakeSlashing) GetValidatorSigningInfo(_ context.Context, c sdk.ConsAddress) (slashingtypes.ValidatorSigningInfo, error) {
	if si, ok := s.ConsumerSigning[string(c)]; ok {
		return si, nil
	}
	return slashingtypes.ValidatorSigningInfo{}, slashingtypes.ErrNoSigningInfoFound
}
func (s FakeSlashing) SetValidatorSigningInfo(_ context.Context, c sdk.ConsAddress, si slashingtypes.ValidatorSigningInfo) error {
	s.ConsumerSigning[string(c)] = si
	return nil
}

// ---------------------------------------------------------------- IBC

type FakeChannel struct {
	ccv.ChannelKeeper
	W *World
}

func chKey(port, id string) string { return port + "/" + id }

func (c FakeChannel) GetChannel(_ sdk.Context, port, id string) (channeltypes.Channel, bool) {
	ch, ok := c.W.Channels[chKey(port, id)]
	if !ok {
		return channeltypes.Channel{}, false
	}
	return channeltypes.Channel{
		State: ch.State, Ordering: ch.Ordering,
		Counterparty:   channeltypes.Counterparty{PortId: ch.CpPort, ChannelId: ch.CpID},
		ConnectionHops: []string{ch.ConnectionID}, Version: ch.Version,
	}, true
}

func (c FakeChannel) GetNextSequenceSend(_ sdk.Context, port, id string) (uint64, bool) {
	ch, ok := c.W.Channels[chKey(port, id)]
	if !ok {
		return 0, false
	}
	return ch.NextSeq, true
}

func (c FakeChannel) SendPacket(_ sdk.Context, port, id string, _ clienttypes.Height, ts uint64, data []byte) (uint64, error) {
	if err := c.W.fail("channel.SendPacket"); err != nil {
		return 0, err
	}
	ch, ok := c.W.Channels[chKey(port, id)]
	if !ok {
		return 0, channeltypes.ErrChannelNotFound
	}
	if ch.State != channeltypes.OPEN {
		return 0, channeltypes.ErrInvalidChannelState
	}
	if conn, ok := c.W.Connections[ch.ConnectionID]; ok {
		if cl, ok := c.W.Clients[conn.ClientID]; ok && cl.Expired {
			return 0, clienttypes.ErrClientNotActive
		}
	}
	if ch.NextSeq == 0 {
		ch.NextSeq = 1
	}
	seq := ch.NextSeq
	ch.NextSeq++
	c.W.Sent = append(c.W.Sent, SentPacket{Port: port, Channel: id, Seq: seq, TimeoutTimestamp: ts, Data: append([]byte{}, data...)})
	return seq, nil
}

func (c FakeChannel) WriteAcknowledgement(_ sdk.Context, _ ibcexported.PacketI, ack ibcexported.Acknowledgement) error {
	c.W.Acks = append(c.W.Acks, string(ack.Acknowledgement()))
	return nil
}

func (c FakeChannel) ChanCloseInit(_ sdk.Context, port, id string) error {
	if err := c.W.fail("channel.ChanCloseInit"); err != nil {
		return err
	}
	ch, ok := c.W.Channels[chKey(port, id)]
	if !ok {
		return channeltypes.ErrChannelNotFound
	}
	if ch.State == channeltypes.CLOSED {
		return channeltypes.ErrInvalidChannelState
	}
	ch.State = channeltypes.CLOSED
	c.W.Closed = append(c.W.Closed, id)
	return nil
}

func (c FakeChannel) GetChannelConnection(_ sdk.Context, port, id string) (string, conntypes.ConnectionEnd, error) {
	ch, ok := c.W.Channels[chKey(port, id)]
	if !ok {
		return "", conntypes.ConnectionEnd{}, channeltypes.ErrChannelNotFound
	}
	conn, ok := c.W.Connections[ch.ConnectionID]
	if !ok {
		return "", conntypes.ConnectionEnd{}, conntypes.ErrConnectionNotFound
	}
	return ch.ConnectionID, connEnd(conn), nil
}

func connEnd(c *Connection) conntypes.ConnectionEnd {
	return conntypes.ConnectionEnd{ClientId: c.ClientID, State: conntypes.OPEN,
		Counterparty: conntypes.Counterparty{ClientId: c.CpClientID, ConnectionId: c.CpConnectionID}}
}

type FakeConnection struct{ W *World }

func (c FakeConnection) GetConnection(_ sdk.Context, id string) (conntypes.ConnectionEnd, bool) {
	if c.W.fail("connection.GetConnection") != nil {
		return conntypes.ConnectionEnd{}, false
	}
	conn, ok := c.W.Connections[id]
	if !ok {
		return conntypes.ConnectionEnd{}, false
	}
	return connEnd(conn), true
}

type FakeClient struct {
	ccv.ClientKeeper
	W *World
}

func (c FakeClient) CreateClient(_ sdk.Context, _ string, csBz, _ []byte) (string, error) {
	if err := c.W.fail("client.CreateClient"); err != nil {
		return "", err
	}
	var cs ibctmtypes.ClientState
	if err := cs.Unmarshal(csBz); err != nil {
		return "", err
	}
	id := fmt.Sprintf("07-tendermint-%d", c.W.NextClient)
	c.W.NextClient++
	c.W.Clients[id] = &Client{ID: id, ChainID: cs.ChainId, Latest: cs.LatestHeight, State: &cs}
	return id, nil
}

// AddClient registers a pre-existing client (for consumers launched on an existing connection).
func (w *World) AddClient(chainID string, h uint64) *Client {
	id := fmt.Sprintf("07-tendermint-%d", w.NextClient)
	w.NextClient++
	cs := &ibctmtypes.ClientState{ChainId: chainID, LatestHeight: clienttypes.NewHeight(0, h)}
	c := &Client{ID: id, ChainID: chainID, Latest: cs.LatestHeight, State: cs}
	w.Clients[id] = c
	return c
}

func (c FakeClient) GetClientState(_ sdk.Context, id string) (ibcexported.ClientState, bool) {
	if c.W.fail("client.GetClientState") != nil {
		return nil, false
	}
	cl, ok := c.W.Clients[id]
	if !ok {
		return nil, false
	}
	return cl.State, true
}

func (c FakeClient) GetLatestClientConsensusState(_ sdk.Context, id string) (ibcexported.ConsensusState, bool) {
	if _, ok := c.W.Clients[id]; !ok {
		return nil, false
	}
	return &ibctmtypes.ConsensusState{Timestamp: time.Unix(1, 0).UTC()}, true
}

// ---------------------------------------------------------------- bank / account / distribution

type FakeBank struct{ W *World }

func (b FakeBank) acct(a sdk.AccAddress) string { return a.String() }

func (b FakeBank) GetBalance(_ context.Context, a sdk.AccAddress, denom string) sdk.Coin {
	return sdk.NewCoin(denom, b.W.Balances[b.acct(a)].AmountOf(denom))
}

func (b FakeBank) GetAllBalances(_ context.Context, a sdk.AccAddress) sdk.Coins {
	return b.W.Balances[b.acct(a)]
}

func (b FakeBank) SendCoinsFromModuleToModule(_ context.Context, from, to string, amt sdk.Coins) error {
	if err := b.W.fail("bank.SendCoinsFromModuleToModule"); err != nil {
		return err
	}
	fa := authtypes.NewModuleAddress(from).String()
	ta := authtypes.NewModuleAddress(to).String()
	bal := b.W.Balances[fa]
	if !bal.IsAllGTE(amt) {
		return fmt.Errorf("insufficient funds")
	}
	b.W.Balances[fa] = bal.Sub(amt...)
	b.W.Balances[ta] = b.W.Balances[ta].Add(amt...)
	return nil
}

// Fund credits a module account.
func (w *World) Fund(module string, amt sdk.Coins) {
	a := authtypes.NewModuleAddress(module).String()
	w.Balances[a] = w.Balances[a].Add(amt...)
}

func (w *World) ModuleBalance(module string) sdk.Coins {
	return w.Balances[authtypes.NewModuleAddress(module).String()]
}

type FakeAccount struct{ W *World }

func (a FakeAccount) GetModuleAccount(_ context.Context, name string) sdk.ModuleAccountI {
	return authtypes.NewEmptyModuleAccount(name)
}

func (a FakeAccount) AddressCodec() addresscodec.Codec { return sdkaddress.NewBech32Codec("cosmos") }

type FakeDistribution struct{ W *World }

func (d FakeDistribution) FundCommunityPool(_ context.Context, amt sdk.Coins, sender sdk.AccAddress) error {
	if err := d.W.fail("distribution.FundCommunityPool"); err != nil {
		return err
	}
	sa := sender.String()
	bal := d.W.Balances[sa]
	if !bal.IsAllGTE(amt) {
		return fmt.Errorf("insufficient funds")
	}
	d.W.Balances[sa] = bal.Sub(amt...)
	d.W.CommunityPool = d.W.CommunityPool.Add(amt...)
	return nil
}

func (d FakeDistribution) GetCommunityTax(context.Context) (math.LegacyDec, error) {
	if err := d.W.fail("distribution.GetCommunityTax"); err != nil {
		return math.LegacyDec{}, err
	}
	return d.W.CommunityTax, nil
}

func (d FakeDistribution) AllocateTokensToValidator(_ context.Context, val stakingtypes.ValidatorI, reward sdk.DecCoins) error {
	if err := d.W.fail("distribution.AllocateTokensToValidator"); err != nil {
		return err
	}
	for _, v := range d.W.Vals {
		if v.Oper.String() == val.GetOperator() {
			v.Rewards = v.Rewards.Add(reward...)
			return nil
		}
	}
	return fmt.Errorf("validator not found")
}

// ---------------------------------------------------------------- consumer-side extras

type FakeTransfer struct{ W *World }

func (t FakeTransfer) Transfer(_ context.Context, msg *transfertypes.MsgTransfer) (*transfertypes.MsgTransferResponse, error) {
	if err := t.W.fail("transfer.Transfer"); err != nil {
		return nil, err
	}
	sender := msg.Sender
	bal := t.W.Balances[sender]
	amt := sdk.NewCoins(msg.Token)
	if !bal.IsAllGTE(amt) {
		return nil, fmt.Errorf("insufficient funds")
	}
	t.W.Balances[sender] = bal.Sub(amt...)
	t.W.Balances["escrow/"+msg.SourceChannel] = t.W.Balances["escrow/"+msg.SourceChannel].Add(amt...)
	t.W.Sent = append(t.W.Sent, SentPacket{Port: msg.SourcePort, Channel: msg.SourceChannel, Data: []byte(msg.Token.String() + "|" + msg.Receiver + "|" + msg.Memo)})
	return &transfertypes.MsgTransferResponse{Sequence: 1}, nil
}

type FakeIBCCore struct{ W *World }

func (c FakeIBCCore) ChannelOpenInit(context.Context, *channeltypes.MsgChannelOpenInit) (*channeltypes.MsgChannelOpenInitResponse, error) {
	if err := c.W.fail("ibccore.ChannelOpenInit"); err != nil {
		return nil, err
	}
	return &channeltypes.MsgChannelOpenInitResponse{ChannelId: "channel-t"}, nil
}
