package common

import (
	"testing"
	"time"

	dbm "github.com/cosmos/cosmos-db"

	"cosmossdk.io/log"
	"cosmossdk.io/store"
	"cosmossdk.io/store/metrics"
	storetypes "cosmossdk.io/store/types"

	"github.com/cosmos/cosmos-sdk/codec"
	"github.com/cosmos/cosmos-sdk/codec/address"
	codectypes "github.com/cosmos/cosmos-sdk/codec/types"
	cryptocodec "github.com/cosmos/cosmos-sdk/crypto/codec"
	sdk "github.com/cosmos/cosmos-sdk/types"
	authtypes "github.com/cosmos/cosmos-sdk/x/auth/types"
	govtypes "github.com/cosmos/cosmos-sdk/x/gov/types"
	paramstypes "github.com/cosmos/cosmos-sdk/x/params/types"
	slashingtypes "github.com/cosmos/cosmos-sdk/x/slashing/types"

	abci "github.com/cometbft/cometbft/abci/types"
	tmproto "github.com/cometbft/cometbft/proto/tendermint/types"

	consumer "github.com/cosmos/interchain-security/v7/x/ccv/consumer"
	consumerkeeper "github.com/cosmos/interchain-security/v7/x/ccv/consumer/keeper"
	consumertypes "github.com/cosmos/interchain-security/v7/x/ccv/consumer/types"
	ccvtypes "github.com/cosmos/interchain-security/v7/x/ccv/types"
)

// ConsumerEnv is the real consumer keeper / app module over an in-memory store with its own
// fake World (its channels, clients, bank and slashing signing infos are separate from the provider's).
type ConsumerEnv struct {
	TB       testing.TB
	W        *World
	StoreKey *storetypes.KVStoreKey
	Ctx      sdk.Context
	K        *consumerkeeper.Keeper
	Module   consumer.AppModule
	Slashing FakeSlashing
}

func NewConsumerEnv(tb testing.TB, w *World, chainID string) *ConsumerEnv {
	tb.Helper()
	storeKey := storetypes.NewKVStoreKey(ccvtypes.StoreKey)
	memStoreKey := storetypes.NewMemoryStoreKey(ccvtypes.MemStoreKey)
	db := dbm.NewMemDB()
	ms := store.NewCommitMultiStore(db, log.NewNopLogger(), metrics.NewNoOpMetrics())
	ms.MountStoreWithDB(storeKey, storetypes.StoreTypeIAVL, db)
	ms.MountStoreWithDB(memStoreKey, storetypes.StoreTypeMemory, nil)
	if err := ms.LoadLatestVersion(); err != nil {
		tb.Fatal(err)
	}
	registry := codectypes.NewInterfaceRegistry()
	cryptocodec.RegisterInterfaces(registry)
	cdc := codec.NewProtoCodec(registry)
	subspace := paramstypes.NewSubspace(cdc, codec.NewLegacyAmino(), storeKey, memStoreKey, paramstypes.ModuleName)
	ctx := sdk.NewContext(ms, tmproto.Header{ChainID: chainID, Height: 1, Time: T0}, false, log.NewNopLogger())
	sl := FakeSlashing{W: w, ConsumerSigning: map[string]slashingtypes.ValidatorSigningInfo{}, DowntimeJail: 600 * time.Second}
	k := consumerkeeper.NewKeeper(cdc, storeKey,
		FakeChannel{W: w}, FakeConnection{W: w}, FakeClient{W: w}, sl, FakeBank{W: w}, FakeAccount{W: w},
		FakeTransfer{W: w}, FakeIBCCore{W: w},
		authtypes.FeeCollectorName, authtypes.NewModuleAddress(govtypes.ModuleName).String(),
		address.NewBech32Codec("consumervaloper"), address.NewBech32Codec("consumervalcons"))
	e := &ConsumerEnv{TB: tb, W: w, StoreKey: storeKey, Ctx: ctx, K: &k, Slashing: sl}
	e.Module = consumer.NewAppModule(k, subspace)
	return e
}

// InitGenesis starts the consumer from the genesis state the provider produced
// (providerKeeper.GetConsumerGenesis); returns the initial validator updates.
func (e *ConsumerEnv) InitGenesis(gs ccvtypes.ConsumerGenesisState) []abci.ValidatorUpdate {
	state := consumertypes.GenesisState{
		Params:       gs.Params,
		Provider:     gs.Provider,
		NewChain:     gs.NewChain,
		PreCCV:       gs.PreCCV,
		ConnectionId: gs.ConnectionId,
	}
	return e.K.InitGenesis(e.Ctx, &state)
}

func (e *ConsumerEnv) BeginBlock() (res Result) {
	defer func() {
		if r := recover(); r != nil {
			res.Panic = r
		}
	}()
	res.Err = e.Module.BeginBlock(e.Ctx)
	return res
}

func (e *ConsumerEnv) EndBlock() (upd []abci.ValidatorUpdate, res Result) {
	defer func() {
		if r := recover(); r != nil {
			res.Panic = r
		}
	}()
	upd, res.Err = e.Module.EndBlock(e.Ctx)
	return upd, res
}

func (e *ConsumerEnv) NextBlock(dt time.Duration) {
	h := e.Ctx.BlockHeader()
	h.Height++
	h.Time = h.Time.Add(dt)
	e.Ctx = e.Ctx.WithBlockHeader(h).WithEventManager(sdk.NewEventManager())
}

func (e *ConsumerEnv) DumpStore() map[string]string { return DumpStore(e.Ctx, e.StoreKey) }
