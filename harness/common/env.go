package common

import (
	"fmt"
	"sort"
	"testing"
	"time"

	dbm "github.com/cosmos/cosmos-db"

	"cosmossdk.io/log"
	"cosmossdk.io/store"
	"cosmossdk.io/store/metrics"
	storetypes "cosmossdk.io/store/types"

	"github.com/cosmos/cosmos-sdk/codec"
	"github.com/cosmos/cosmos-sdk/codec/address"
	codectypes "github.com/cosmos/cosmos-sdk/codec/types"
	cryptocodec "github.com/cosmos/cosmos-sdk/crypto/codec"
	sdk "github.com/cosmos/cosmos-sdk/types"
	authtypes "github.com/cosmos/cosmos-sdk/x/auth/types"
	govkeeper "github.com/cosmos/cosmos-sdk/x/gov/keeper"
	govtypes "github.com/cosmos/cosmos-sdk/x/gov/types"
	paramstypes "github.com/cosmos/cosmos-sdk/x/params/types"

	abci "github.com/cometbft/cometbft/abci/types"
	tmproto "github.com/cometbft/cometbft/proto/tendermint/types"

	"cosmossdk.io/math"

	provider "github.com/cosmos/interchain-security/v7/x/ccv/provider"
	providerkeeper "github.com/cosmos/interchain-security/v7/x/ccv/provider/keeper"
	providertypes "github.com/cosmos/interchain-security/v7/x/ccv/provider/types"
	ccvtypes "github.com/cosmos/interchain-security/v7/x/ccv/types"
)

// T0 is the block time of height 1 in every environment (no wall-clock time anywhere).
var T0 = time.Date(2030, 1, 1, 0, 0, 0, 0, time.UTC)

// ProviderEnv is the real provider keeper / message server / app module / IBC module over an
// in-memory IAVL store, with the fake World behind the expected-keeper interfaces.
type ProviderEnv struct {
	TB        testing.TB
	W         *World
	StoreKey  *storetypes.KVStoreKey
	Ctx       sdk.Context
	K         *providerkeeper.Keeper
	Msg       providertypes.MsgServer
	Module    provider.AppModule
	IBC       provider.AppModule
	Authority string
	Slashing  FakeSlashing
}

func NewProviderEnv(tb testing.TB, w *World) *ProviderEnv {
	tb.Helper()
	storeKey := storetypes.NewKVStoreKey(ccvtypes.StoreKey)
	memStoreKey := storetypes.NewMemoryStoreKey(ccvtypes.MemStoreKey)
	db := dbm.NewMemDB()
	ms := store.NewCommitMultiStore(db, log.NewNopLogger(), metrics.NewNoOpMetrics())
	ms.MountStoreWithDB(storeKey, storetypes.StoreTypeIAVL, db)
	ms.MountStoreWithDB(memStoreKey, storetypes.StoreTypeMemory, nil)
	if err := ms.LoadLatestVersion(); err != nil {
		tb.Fatal(err)
	}
	registry := codectypes.NewInterfaceRegistry()
	cryptocodec.RegisterInterfaces(registry)
	cdc := codec.NewProtoCodec(registry)
	subspace := paramstypes.NewSubspace(cdc, codec.NewLegacyAmino(), storeKey, memStoreKey, paramstypes.ModuleName)
	ctx := sdk.NewContext(ms, tmproto.Header{ChainID: "provider", Height: 1, Time: T0}, false, log.NewNopLogger())

	authority := authtypes.NewModuleAddress(govtypes.ModuleName).String()
	sl := FakeSlashing{W: w, DowntimeJail: 600 * time.Second,
		FracDowntime: math.LegacyNewDecWithPrec(1, 2), FracDoubleSign: math.LegacyNewDecWithPrec(5, 2)}
	k := providerkeeper.NewKeeper(cdc, storeKey, subspace,
		FakeChannel{W: w}, FakeConnection{W: w}, FakeClient{W: w},
		FakeStaking{W: w}, sl, FakeAccount{W: w}, FakeDistribution{W: w}, FakeBank{W: w},
		govkeeper.Keeper{}, authority,
		address.NewBech32Codec("cosmosvaloper"), address.NewBech32Codec("cosmosvalcons"),
		authtypes.FeeCollectorName)
	e := &ProviderEnv{TB: tb, W: w, StoreKey: storeKey, Ctx: ctx, K: &k, Authority: authority, Slashing: sl}
	e.Msg = providerkeeper.NewMsgServerImpl(e.K)
	e.Module = provider.NewAppModule(e.K, subspace, storeKey)
	return e
}

// InitGenesis runs the keeper's InitGenesis with the given params and returns the genesis validator updates.
func (e *ProviderEnv) InitGenesis(params providertypes.Params) []abci.ValidatorUpdate {
	gs := providertypes.DefaultGenesisState()
	gs.Params = params
	return e.K.InitGenesis(e.Ctx, gs)
}

// Result classifies the outcome of a delivered message / callback.
type Result struct {
	Err   error
	Panic interface{}
}

func (r Result) OK() bool { return r.Err == nil && r.Panic == nil }

func (r Result) String() string {
	if r.Panic != nil {
		return fmt.Sprintf("panic: %v", r.Panic)
	}
	if r.Err != nil {
		return r.Err.Error()
	}
	return "ok"
}

// Tx runs f on a cached context with baseapp runTx semantics: state is written only if f
// returns nil and does not panic.
func Tx(ctx sdk.Context, f func(ctx sdk.Context) error) (res Result) {
	cctx, write := ctx.CacheContext()
	func() {
		defer func() {
			if r := recover(); r != nil {
				res.Panic = r
			}
		}()
		res.Err = f(cctx)
	}()
	if res.OK() {
		write()
	}
	return res
}

// Deliver routes a provider message like baseapp does (ValidateBasic, handler on a cached
// context, write on success, panic = failed tx).
func (e *ProviderEnv) Deliver(msg sdk.Msg) Result {
	if vb, ok := msg.(sdk.HasValidateBasic); ok {
		if err := vb.ValidateBasic(); err != nil {
			return Result{Err: fmt.Errorf("validate-basic: %w", err)}
		}
	}
	return Tx(e.Ctx, func(ctx sdk.Context) error {
		var err error
		switch m := msg.(type) {
		case *providertypes.MsgCreateConsumer:
			_, err = e.Msg.CreateConsumer(ctx, m)
		case *providertypes.MsgUpdateConsumer:
			_, err = e.Msg.UpdateConsumer(ctx, m)
		case *providertypes.MsgRemoveConsumer:
			_, err = e.Msg.RemoveConsumer(ctx, m)
		case *providertypes.MsgOptIn:
			_, err = e.Msg.OptIn(ctx, m)
		case *providertypes.MsgOptOut:
			_, err = e.Msg.OptOut(ctx, m)
		case *providertypes.MsgAssignConsumerKey:
			_, err = e.Msg.AssignConsumerKey(ctx, m)
		case *providertypes.MsgSetConsumerCommissionRate:
			_, err = e.Msg.SetConsumerCommissionRate(ctx, m)
		case *providertypes.MsgUpdateParams:
			_, err = e.Msg.UpdateParams(ctx, m)
		case *providertypes.MsgChangeRewardDenoms:
			_, err = e.Msg.ChangeRewardDenoms(ctx, m)
		case *providertypes.MsgSubmitConsumerDoubleVoting:
			_, err = e.Msg.SubmitConsumerDoubleVoting(ctx, m)
		case *providertypes.MsgSubmitConsumerMisbehaviour:
			_, err = e.Msg.SubmitConsumerMisbehaviour(ctx, m)
		default:
			err = fmt.Errorf("unroutable message %T", msg)
		}
		return err
	})
}

// BeginBlock runs the provider module's BeginBlock on the current context (no cache: as in
// baseapp a begin-block error or panic halts the chain; it is reported, never hidden).
func (e *ProviderEnv) BeginBlock() (res Result) {
	defer func() {
		if r := recover(); r != nil {
			res.Panic = r
		}
	}()
	res.Err = e.Module.BeginBlock(e.Ctx)
	return res
}

// EndBlock runs the provider module's EndBlock and returns the validator updates.
func (e *ProviderEnv) EndBlock() (upd []abci.ValidatorUpdate, res Result) {
	defer func() {
		if r := recover(); r != nil {
			res.Panic = r
		}
	}()
	upd, res.Err = e.Module.EndBlock(e.Ctx)
	return upd, res
}

// NextBlock moves the context to the next height, dt later.
func (e *ProviderEnv) NextBlock(dt time.Duration) {
	h := e.Ctx.BlockHeader()
	h.Height++
	h.Time = h.Time.Add(dt)
	e.Ctx = e.Ctx.WithBlockHeader(h).WithEventManager(sdk.NewEventManager())
}

// DumpStore returns the raw provider store (key -> value), for C11/C13/C14 frame checks.
func (e *ProviderEnv) DumpStore() map[string]string { return DumpStore(e.Ctx, e.StoreKey) }

func DumpStore(ctx sdk.Context, key storetypes.StoreKey) map[string]string {
	out := map[string]string{}
	it := ctx.KVStore(key).Iterator(nil, nil)
	defer it.Close()
	for ; it.Valid(); it.Next() {
		out[string(it.Key())] = string(it.Value())
	}
	return out
}

// DiffStores lists the keys whose value differs between a and b (sorted).
func DiffStores(a, b map[string]string) []string {
	seen := map[string]bool{}
	var out []string
	for k, v := range a {
		if w, ok := b[k]; !ok || w != v {
			out = append(out, k)
		}
		seen[k] = true
	}
	for k := range b {
		if !seen[k] {
			out = append(out, k)
		}
	}
	sort.Strings(out)
	return out
}
