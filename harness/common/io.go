package common

import (
	"bufio"
	"encoding/json"
	"fmt"
	"os"
	"runtime"
	"sort"
	"sync"
	"testing"
)

// T is a JSON tree of integers and arrays (the wire format of the extracted model).
type T = interface{}

// L builds an array node.
func L(xs ...T) T {
	if xs == nil {
		return []T{}
	}
	return xs
}

// B encodes a boolean as 0/1.
func B(b bool) T {
	if b {
		return 1
	}
	return 0
}

// Ints encodes a list of int64.
func Ints(xs []int64) T {
	out := make([]T, len(xs))
	for i, x := range xs {
		out[i] = x
	}
	return out
}

// Case is one generated case: a JSON object with at least an integer "id".
type Case struct {
	ID  int64
	Raw json.RawMessage
}

// RunCases reads JSONL cases from $VERIF_IN, runs f on each (in parallel, each case must build
// its own environment) and writes one line [id, input, obs] per case to $VERIF_OUT in id order.
// f returns the model input tree (case + oracle values) and the implementation's observation tree.
func RunCases(t *testing.T, f func(c Case) (input T, obs T)) {
	in, out := os.Getenv("VERIF_IN"), os.Getenv("VERIF_OUT")
	if in == "" || out == "" {
		t.Skip("VERIF_IN/VERIF_OUT not set")
	}
	fh, err := os.Open(in)
	if err != nil {
		t.Fatal(err)
	}
	defer fh.Close()
	var cases []Case
	sc := bufio.NewScanner(fh)
	sc.Buffer(make([]byte, 1<<20), 1<<28)
	for sc.Scan() {
		line := append([]byte{}, sc.Bytes()...)
		if len(line) == 0 {
			continue
		}
		var hdr struct {
			ID int64 `json:"id"`
		}
		if err := json.Unmarshal(line, &hdr); err != nil {
			t.Fatalf("bad case line: %v", err)
		}
		cases = append(cases, Case{ID: hdr.ID, Raw: line})
	}
	type res struct {
		id   int64
		line []byte
	}
	results := make([]res, len(cases))
	workers := runtime.NumCPU()
	if workers > 16 {
		workers = 16
	}
	var wg sync.WaitGroup
	ch := make(chan int)
	for w := 0; w < workers; w++ {
		wg.Add(1)
		go func() {
			defer wg.Done()
			for i := range ch {
				c := cases[i]
				var input, obs T
				func() {
					defer func() {
						if r := recover(); r != nil {
							// a harness-level panic is reported as an observation so that it is diffed, not lost
							input, obs = L(), L(-999)
							fmt.Fprintf(os.Stderr, "case %d: harness panic: %v\n", c.ID, r)
						}
					}()
					input, obs = f(c)
				}()
				bz, err := json.Marshal([]T{c.ID, input, obs})
				if err != nil {
					bz = []byte(fmt.Sprintf("[%d,[],[-998]]", c.ID))
				}
				results[i] = res{c.ID, bz}
			}
		}()
	}
	for i := range cases {
		ch <- i
	}
	close(ch)
	wg.Wait()
	sort.SliceStable(results, func(i, j int) bool { return results[i].id < results[j].id })
	oh, err := os.Create(out)
	if err != nil {
		t.Fatal(err)
	}
	defer oh.Close()
	bw := bufio.NewWriter(oh)
	for _, r := range results {
		bw.Write(r.line)
		bw.WriteByte('\n')
	}
	bw.Flush()
}
