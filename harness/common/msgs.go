package common

// Helpers that build the real provider messages from small integers (shared by several drivers).

import (
	"encoding/base64"
	"fmt"
	"time"

	cryptotypes "github.com/cosmos/cosmos-sdk/crypto/types"
	sdk "github.com/cosmos/cosmos-sdk/types"

	tmprotocrypto "github.com/cometbft/cometbft/proto/tendermint/crypto"

	cryptocodec "github.com/cosmos/cosmos-sdk/crypto/codec"

	providertypes "github.com/cosmos/interchain-security/v7/x/ccv/provider/types"
)

// KeyJSON renders an ed25519 public key the way MsgAssignConsumerKey / MsgOptIn expect it.
func KeyJSON(pk cryptotypes.PubKey) string {
	return fmt.Sprintf(`{"@type":"/cosmos.crypto.ed25519.PubKey","key":"%s"}`, base64.StdEncoding.EncodeToString(pk.Bytes()))
}

// TMKey converts an SDK public key to the CometBFT proto key used in validator updates.
func TMKey(pk cryptotypes.PubKey) tmprotocrypto.PublicKey {
	k, err := cryptocodec.ToCmtProtoPublicKey(pk)
	if err != nil {
		panic(err)
	}
	return k
}

// Account returns deterministic user account number n as bech32.
func Account(n int) string {
	b := make([]byte, 20)
	b[0] = 0xaa
	b[1] = byte(n)
	b[19] = byte(n >> 8)
	return sdk.AccAddress(b).String()
}

// OperAccount is the account that must sign validator messages of v.
func OperAccount(v *Val) string { return sdk.AccAddress(v.Oper).String() }

func MsgOptIn(cid string, v *Val, key cryptotypes.PubKey) *providertypes.MsgOptIn {
	ks := ""
	if key != nil {
		ks = KeyJSON(key)
	}
	return &providertypes.MsgOptIn{ConsumerId: cid, ProviderAddr: v.Oper.String(), ConsumerKey: ks, Signer: OperAccount(v)}
}

func MsgOptOut(cid string, v *Val) *providertypes.MsgOptOut {
	return &providertypes.MsgOptOut{ConsumerId: cid, ProviderAddr: v.Oper.String(), Signer: OperAccount(v)}
}

func MsgAssignKey(cid string, v *Val, key cryptotypes.PubKey) *providertypes.MsgAssignConsumerKey {
	return &providertypes.MsgAssignConsumerKey{ConsumerId: cid, ProviderAddr: v.Oper.String(), ConsumerKey: KeyJSON(key), Signer: OperAccount(v)}
}

// InitParams returns valid initialization parameters for a chain id of revision 1 with the given spawn time.
func InitParams(spawn time.Time) *providertypes.ConsumerInitializationParameters {
	p := providertypes.DefaultConsumerInitializationParameters()
	p.SpawnTime = spawn
	p.GenesisHash = []byte("gen_hash")
	p.BinaryHash = []byte("bin_hash")
	return &p
}

// MsgCreate builds a MsgCreateConsumer for chain id "<name>-1".
func MsgCreate(submitter, name string, spawn time.Time, ps *providertypes.PowerShapingParameters) *providertypes.MsgCreateConsumer {
	return &providertypes.MsgCreateConsumer{
		Submitter:                submitter,
		ChainId:                  name + "-1",
		Metadata:                 providertypes.ConsumerMetadata{Name: name, Description: "d", Metadata: "m"},
		InitializationParameters: InitParams(spawn),
		PowerShapingParameters:   ps,
	}
}

// ConsBech32 renders a validator's provider consensus address for allow/deny/priority lists.
func ConsBech32(v *Val) string { return sdk.ConsAddress(v.ConsAddr()).String() }
