package common

import (
	"testing"

	testkeeper "github.com/cosmos/interchain-security/v7/testutil/keeper"
	_ "github.com/cosmos/interchain-security/v7/x/ccv/consumer"
	_ "github.com/cosmos/interchain-security/v7/x/ccv/provider"
)

func TestWarm(t *testing.T) {
	_ = testkeeper.NewInMemKeeperParams(t)
}
