// Package common holds the shared fake "world" (staking, slashing, IBC, bank,
// distribution) and the in-memory provider/consumer environments used by the
// per-property correspondence drivers.
package common
