package c07sys

// Builder of REAL double-voting evidence (CometBFT votes signed with ed25519 keys) and the decision-relevant facts
// the driver knows about what it built (the model's input) - the double-voting half of harness/c07/build_test.go
// (test files of another package cannot be imported), with the key pool of harness/c05 / c06sys: key id k is
// common.Key(1000+k), for provider and consumer keys alike.

import (
	"bytes"
	"encoding/base64"
	"fmt"
	"strings"
	"time"

	ibctm "github.com/cosmos/ibc-go/v10/modules/light-clients/07-tendermint"

	cryptocodec "github.com/cosmos/cosmos-sdk/crypto/codec"
	cryptotypes "github.com/cosmos/cosmos-sdk/crypto/types"

	cmted25519 "github.com/cometbft/cometbft/crypto/ed25519"
	tmproto "github.com/cometbft/cometbft/proto/tendermint/types"
	tmtypes "github.com/cometbft/cometbft/types"

	"verifharness/common"
)

const maxKeys = 32

func privOf(id int64) cryptotypes.PrivKey { return common.Key(int(1000 + id)) }

func addrOf(id int64) []byte { return privOf(id).PubKey().Address() }

func cmtPub(id int64) cmted25519.PubKey { return cmted25519.PubKey(privOf(id).PubKey().Bytes()) }

func idOfAddr(a []byte) int64 {
	for id := int64(0); id < maxKeys; id++ {
		if bytes.Equal(addrOf(id), a) {
			return id
		}
	}
	return 999
}

func chainStr(n int64) string {
	if n == 0 {
		return "provider"
	}
	return fmt.Sprintf("kappa%d-1", n) // revision 1: what MsgCreateConsumer's default initial height demands
}

func mkBlockID(tag byte) tmtypes.BlockID {
	return tmtypes.BlockID{Hash: bytes.Repeat([]byte{tag}, 32), PartSetHeader: tmtypes.PartSetHeader{Total: 1, Hash: bytes.Repeat([]byte{tag + 1}, 32)}}
}

// ---------------------------------------------------------------- double voting

type dvSpec struct {
	C     int64  `json:"c"`
	Key   int64  `json:"key"`   // address id of the signing key
	Chain int64  `json:"chain"` // chain number both votes are signed over
	H     int64  `json:"h"`
	Mut   string `json:"mut"`
	Arg   int64  `json:"arg"`
}

type dvBuilt struct {
	Cid    string
	Ev     *tmtypes.DuplicateVoteEvidence
	Valset *tmproto.ValidatorSet
	Pub    cryptotypes.PubKey // keeper entry
	Bits   common.T
}

func signVote(v *tmtypes.Vote, signer, chain int64) {
	sig, err := privOf(signer).Sign(tmtypes.VoteSignBytes(chainStr(chain), v.ToProto()))
	if err != nil {
		panic(err)
	}
	v.Signature = sig
}

func verifiesOver(pub cryptotypes.PubKey, v *tmtypes.Vote, chains []int64) common.T {
	out := []common.T{}
	if pub == nil {
		return out
	}
	for _, c := range chains {
		if pub.VerifySignature(tmtypes.VoteSignBytes(chainStr(c), v.ToProto()), v.Signature) {
			out = append(out, c)
		}
	}
	return out
}

func buildDV(sp dvSpec, entry int64, chains []int64) dvBuilt {
	vote := func(tag byte) *tmtypes.Vote {
		return &tmtypes.Vote{Type: tmproto.PrecommitType, Height: sp.H, Round: 1, BlockID: mkBlockID(tag),
			Timestamp: common.T0.Add(time.Second), ValidatorAddress: addrOf(sp.Key), ValidatorIndex: 0}
	}
	a, b := vote(1), vote(3)
	signerA, signerB, chainA, chainB := sp.Key, sp.Key, sp.Chain, sp.Chain
	valKeys := []int64{sp.Key}
	cid := fmt.Sprint(sp.C)
	switch sp.Mut {
	case "chainA":
		chainA = sp.Arg
	case "chainB":
		chainB = sp.Arg
	case "chainAB":
		chainA, chainB = sp.Arg, sp.Arg
	case "heightB":
		b.Height++
	case "roundB":
		b.Round++
	case "typeB":
		b.Type = tmproto.PrevoteType
	case "tsB":
		b.Timestamp = b.Timestamp.Add(time.Second)
	case "bid_equal":
		b.BlockID = a.BlockID
	case "bid_swap":
		a.BlockID, b.BlockID = b.BlockID, a.BlockID
	case "sigA_otherkey":
		signerA = sp.Arg
	case "sigB_otherkey":
		signerB = sp.Arg
	case "addrB":
		b.ValidatorAddress = addrOf(sp.Arg)
		signerB = sp.Arg
	case "addrAB":
		a.ValidatorAddress, b.ValidatorAddress = addrOf(sp.Arg), addrOf(sp.Arg)
	case "addrAB_in":
		a.ValidatorAddress, b.ValidatorAddress = addrOf(sp.Arg), addrOf(sp.Arg)
		valKeys = []int64{sp.Key, sp.Arg}
	case "valset_missing":
		valKeys = []int64{sp.Arg}
	case "valset_extra":
		valKeys = []int64{sp.Arg, sp.Key}
	case "cid_bad":
		cid = "abc"
	case "cid_empty":
		cid = " "
	}
	signVote(a, signerA, chainA)
	signVote(b, signerB, chainB)
	switch sp.Mut {
	case "sig_swap":
		a.Signature, b.Signature = b.Signature, a.Signature
	case "sigA_forge":
		a.Signature[3] ^= 1
	case "sigB_forge":
		b.Signature[40] ^= 0x80
	case "post_tsA":
		a.Timestamp = a.Timestamp.Add(time.Nanosecond)
	case "post_hAB":
		a.Height++
		b.Height++
	}
	var vals []*tmtypes.Validator
	seen := map[int64]bool{}
	for _, k := range valKeys {
		if !seen[k] {
			vals = append(vals, tmtypes.NewValidator(cmtPub(k), 10))
		}
		seen[k] = true
	}
	vsp, err := tmtypes.NewValidatorSet(vals).ToProto()
	if err != nil {
		panic(err)
	}
	valsetOK := true
	if sp.Mut == "valset_wrongkey" && sp.Arg != sp.Key {
		valsetOK = false
		wrong, err := cryptocodec.ToCmtProtoPublicKey(privOf(sp.Arg).PubKey())
		if err != nil {
			panic(err)
		}
		for _, v := range vsp.Validators {
			if bytes.Equal(v.Address, addrOf(sp.Key)) {
				v.PubKey = wrong
			}
		}
		if bytes.Equal(vsp.Proposer.Address, addrOf(sp.Key)) {
			vsp.Proposer.PubKey = wrong
		}
	}
	var pub cryptotypes.PubKey = privOf(sp.Key).PubKey()
	switch sp.Mut {
	case "key_nil":
		pub = nil
	case "key_other":
		pub = privOf(sp.Arg).PubKey()
	}
	// the key the keeper ends up verifying with
	var used cryptotypes.PubKey
	inValset := false
	if entry == 0 {
		for _, k := range valKeys {
			if bytes.Equal(addrOf(k), a.ValidatorAddress) {
				inValset = true
				used = privOf(k).PubKey()
			}
		}
	} else {
		used = pub
	}
	vbOK := sp.Mut != "cid_bad" && sp.Mut != "cid_empty"
	hrt := a.Height == b.Height && a.Round == b.Round && a.Type == b.Type
	consID := sp.C
	if cid != fmt.Sprint(sp.C) {
		consID = -1 // a consumer id string that names nobody
	}
	bits := common.L(consID, common.B(vbOK), int64(strings.Compare(a.BlockID.Key(), b.BlockID.Key())),
		common.B(valsetOK), common.B(inValset), common.B(pub != nil),
		common.B(used != nil && bytes.Equal(used.Address(), a.ValidatorAddress)),
		common.B(hrt), common.B(bytes.Equal(a.ValidatorAddress, b.ValidatorAddress)), a.Height,
		verifiesOver(used, a, chains), verifiesOver(used, b, chains), idOfAddr(a.ValidatorAddress))
	ev := &tmtypes.DuplicateVoteEvidence{VoteA: a, VoteB: b, TotalVotingPower: 20, ValidatorPower: 10, Timestamp: common.T0}
	return dvBuilt{Cid: cid, Ev: ev, Valset: vsp, Pub: pub, Bits: bits}
}

func dvHeader(b dvBuilt, chain int64, h int64) *ibctm.Header {
	return &ibctm.Header{
		SignedHeader: &tmproto.SignedHeader{Header: &tmproto.Header{ChainID: chainStr(chain), Height: h, Time: common.T0}, Commit: &tmproto.Commit{}},
		ValidatorSet: b.Valset,
	}
}


func b64(b []byte) string { return base64.StdEncoding.EncodeToString(b) }
