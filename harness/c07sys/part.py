"""Part "system" of property C07 (who is punished by equivocation evidence against a consumer key): generator /
non-triviality / monitor text for harness/c07sys and the composed model Model/EvidenceKeys.v (KeyAssign x Evidence).
Loaded by tools/props/c07.py."""
import json
from check import Part, ddmin
from props import c05

ASSIGN, OPTIN, CREATE, REMOVE, REGISTER, INIT, LAUNCH, STOP, DELETE, BEGIN, END, ADVANCE = range(12)
EXT, DV = 21, 30
PR = 10 ** 6
FRACS = [0, 5 * 10 ** 16, 10 ** 17, 5 * 10 ** 17, 10 ** 18]
MUTS = ["chainA", "chainB", "heightB", "sigB_forge", "sigA_otherkey", "addrB", "valset_missing", "valset_extra", "tsB", "post_tsA"]
MUTS_KEEPER = ["key_nil", "key_other", "bid_swap", "bid_equal", "chainB", "tsB"]


def val(rng, power, status=3, **kw):
    ent = lambda: [rng.choice([1, 400000, 999999, PR, 1600000]) for _ in range(rng.choice([0, 0, 1, 2]))]
    v = {"tokens": power * PR + rng.choice([0, 0, 1, 499999]), "status": status, "jailed": 0, "tomb": 0, "until": 0,
         "lastpow": power if status == 3 else 0, "unb": ent(), "red": ent()}
    v.update(kw)
    return v


class Hist(c05.Hist):
    def __init__(self, rng, u, nk, no, nc):
        super().__init__(rng, u, nk, no, nc)
        self.cfg = {}            # consumer -> settings
        self.cur = {}            # (c, o) -> current key (approximate)
        self.old = {}            # (c, o) -> replaced keys

    def create(self, o, k, v=None):
        self.ops.append([CREATE, o, k, v or val(self.rng, self.rng.choice([1, 2, 3, 5]))])
        if o not in self.vals and k not in self.vals.values():
            self.vals[o] = k

    def register(self, chain=5, minh=None, ds=None):
        rng = self.rng
        g = {"chain": chain, "minh": rng.choice([0, 10, 10, 50]) if minh is None else minh,
             "ds": ds or [rng.choice(FRACS), rng.choice([0, 600 * 10 ** 9, 10 ** 15]), rng.choice([0, 0, 1])]}
        self.ops.append([REGISTER, g])
        self.cfg[self.nreg] = g
        self.phase[self.nreg] = 1
        self.nreg += 1

    def assign(self, c, o, k=None, optin=False, sok=1):
        super().assign(c, o, k, optin, sok)
        k = self.ops[-1][3]
        if k >= 0 and sok:
            if (c, o) in self.cur:
                self.old.setdefault((c, o), []).append(self.cur[(c, o)])
            self.cur[(c, o)] = k

    def ext(self, key=None, **kw):
        rng = self.rng
        if key is None:
            key = rng.choice(sorted(self.vals.values())) if self.vals and rng.random() < 0.9 else rng.randrange(self.nk)
        v = val(rng, rng.choice([1, 2, 3, 5]), status=rng.choice([3, 3, 3, 2, 1]))
        v["jailed"] = rng.choice([0, 0, 1])
        v.update(kw)
        self.ops.append([EXT, key, v])

    def dv(self, c=None, key=None, mut=None, entry=None, h=None):
        rng = self.rng
        if c is None:
            cs = [x for x, p in self.phase.items() if p in (3, 4)]
            c = rng.choice(cs) if cs and rng.random() < 0.9 else rng.randrange(self.nc + 1)
        g = self.cfg.get(c, {"chain": 5, "minh": 10})
        if key is None:
            r = rng.random()
            named = [(cc, o) for (cc, o) in self.cur if cc == c]
            if r < 0.35 and named:
                key = self.cur[rng.choice(named)]                     # a current consumer key
            elif r < 0.6 and any(self.old.get(x) for x in named):
                key = rng.choice(rng.choice([self.old[x] for x in named if self.old.get(x)]))   # a replaced (maybe pruned) key
            elif r < 0.8 and self.vals:
                key = rng.choice(sorted(self.vals.values()))          # a provider key (maybe never assigned here)
            else:
                key = rng.randrange(self.nk)                          # often nobody's key
        entry = (0 if rng.random() < 0.8 else 1) if entry is None else entry
        if mut is None:
            mut = "none" if rng.random() < 0.75 else rng.choice(MUTS if entry == 0 else MUTS_KEEPER)
        if h is None:
            h = max(1, g["minh"] + rng.choice([0, 0, 1, 40, -1]))
        arg = rng.randrange(self.nk)
        if mut.startswith("chain"):
            arg = rng.choice([0, 90, 6, 5])
        self.ops.append([DV, entry, {"c": c, "key": key, "chain": g["chain"], "h": h, "mut": mut, "arg": arg}])


def gen_history(rng, tier):
    u = rng.choice([1000, 1000, 10 ** 6])
    nk, no, nc = rng.choice([8, 9, 10]), rng.choice([4, 5]), 2
    h = Hist(rng, u, nk, no, nc)
    nv = rng.choice([2, 3, 3, 4])
    for o in range(nv):
        h.create(o, o, val(rng, o + 2))
    h.register(chain=5); h.lifecycle(0, INIT)
    if rng.random() < 0.4:
        for _ in range(rng.randint(1, 2)):
            h.assign(0, h.some_oper())
    h.lifecycle(0, LAUNCH)
    if rng.random() < 0.6:
        h.register(chain=5 if rng.random() < 0.7 else 6)
        if rng.random() < 0.8:
            h.lifecycle(1, INIT); h.lifecycle(1, LAUNCH)
    weights = [(28, "assign"), (14, "near"), (6, "end"), (30, "dv"), (3, "begin"), (8, "ext"), (2, "create"),
               (2, "remove"), (2, "optin"), (3, "life"), (2, "adv")]
    tot = sum(w for w, _ in weights)
    for _ in range(rng.randint(12, 36)):
        r = rng.randrange(tot)
        for w, kind in weights:
            if r < w:
                break
            r -= w
        if kind == "assign":
            h.assign(h.some_consumer(prefer=3), h.some_oper())
        elif kind == "optin":
            h.assign(h.some_consumer(prefer=3), h.some_oper(), optin=True)
        elif kind == "near":
            h.advance_near_deadline()
            if rng.random() < 0.75:
                h.add(END)
            if rng.random() < 0.7:
                h.dv()
        elif kind == "end":
            h.add(END)
        elif kind == "dv":
            h.dv()
            if rng.random() < 0.3:                       # the same evidence for the other consumer
                last = h.ops[-1]
                h.ops.append([DV, last[1], dict(last[2], c=1 - last[2]["c"] if last[2]["c"] in (0, 1) else 0)])
        elif kind == "begin":
            h.add(BEGIN)
        elif kind == "ext":
            if rng.random() < 0.6:
                key = rng.choice(sorted(h.vals.values())) if h.vals else 0
                h.ext(key, status=3, jailed=0, tokens=(key + 2) * PR, lastpow=key + 2)      # unjail / rebond
            else:
                h.ext()
        elif kind == "create":
            free = [o for o in range(no) if o not in h.vals]
            o = rng.choice(free) if free and rng.random() < 0.85 else rng.randrange(no)
            k = rng.choice(h.used[-8:]) if h.used and rng.random() < 0.5 else rng.randrange(nk)
            h.create(o, k)
        elif kind == "remove":
            o = h.some_oper()
            h.add(REMOVE, o)
            h.vals.pop(o, None)
        elif kind == "life":
            m = rng.random()
            if m < 0.6:
                h.lifecycle(h.some_consumer(prefer=3), STOP)
            elif m < 0.75:
                h.lifecycle(h.some_consumer(prefer=4), DELETE)
            elif h.nreg < nc:
                h.register(chain=5)
        else:
            h.advance(rng.choice([0, 1, u // 2, u - 1, u, u + 1]))
    return {"u": u, "nk": nk, "nc": nc, "acts": h.ops}


def v0(power):
    return {"tokens": power * PR, "status": 3, "jailed": 0, "tomb": 0, "until": 0, "lastpow": power, "unb": [], "red": []}


def dvs(c, key, h=10, **kw):
    return [DV, 0, dict({"c": c, "key": key, "chain": 5, "h": h, "mut": "none", "arg": 0}, **kw)]


def window_example():
    """the history of Example C07_system_ex (Props/C07System.v)"""
    g0 = {"chain": 5, "minh": 10, "ds": [5 * 10 ** 16, 600, 0]}
    g1 = {"chain": 5, "minh": 10, "ds": [10 ** 18, 900, 1]}
    return {"u": 1000, "nk": 8, "nc": 2,
            "acts": [[CREATE, 0, 0, v0(5)], [CREATE, 1, 1, v0(3)], [REGISTER, g0], [INIT, 0], [LAUNCH, 0], [REGISTER, g1], [INIT, 1],
                     [LAUNCH, 1], [ASSIGN, 0, 0, 5, 1], [ASSIGN, 1, 1, 5, 1], [ASSIGN, 0, 0, 6, 1], [ADVANCE, 999], [END],
                     dvs(0, 5), dvs(1, 5), [STOP, 0, 1], [ADVANCE, 2], [END], dvs(0, 5), dvs(0, 6)]}


def scenarios():
    yield window_example()
    g = {"chain": 5, "minh": 10, "ds": [5 * 10 ** 16, 600, 0]}
    pre = [[CREATE, 0, 0, v0(5)], [CREATE, 1, 1, v0(3)], [REGISTER, g], [INIT, 0], [LAUNCH, 0]]
    unjail = lambda k, p: [EXT, k, v0(p)]
    # never-assigned keys: validator 1's provider key punishes validator 1; key 7 is nobody's: rejected
    yield {"u": 1000, "nk": 8, "nc": 1, "acts": pre + [dvs(0, 1), dvs(0, 7), [ASSIGN, 0, 1, 4, 1], dvs(0, 1), unjail(1, 3), dvs(0, 4)]}
    # replaced key k1=5: at t+U-1 (EndBlock ran) still validator 0; one ns past the deadline + EndBlock: nobody; re-assigned
    # to validator 1 afterwards: validator 1
    yield {"u": 1000, "nk": 8, "nc": 1,
           "acts": pre + [[ASSIGN, 0, 0, 5, 1], [ASSIGN, 0, 0, 6, 1], [ADVANCE, 999], [END], dvs(0, 5), unjail(0, 5), [ADVANCE, 1], [END],
                          dvs(0, 5), [ASSIGN, 0, 1, 5, 1], dvs(0, 5), dvs(0, 6)]}
    # stopped, not yet deleted: evidence is still handled; after deletion: rejected (no client)
    yield {"u": 1000, "nk": 8, "nc": 1,
           "acts": pre + [[ASSIGN, 0, 0, 5, 1], [STOP, 0, 1], dvs(0, 5), [ADVANCE, 1000], [BEGIN], dvs(0, 1)]}
    # stopped consumer keeps attributing key 5 to validator 0 although a NEW validator with provider key 5 was created
    yield {"u": 1000, "nk": 8, "nc": 1,
           "acts": pre + [[ASSIGN, 0, 0, 5, 1], [STOP, 0, 1], [CREATE, 2, 5, v0(7)], dvs(0, 5)]}


def gen(rng, tier):
    yield from scenarios()
    for _ in range(200 if tier == "quick" else 6000):
        yield gen_history(rng, tier)


def nontrivial(case, inp, obs):
    if not isinstance(obs, list) or len(obs) != len(case["acts"]) + 1:
        return None
    sig, hit = [], False
    for a, prev, cur in zip(case["acts"], obs, obs[1:]):
        sig.append((a[0], cur[0]))
        if a[0] == DV and cur[0] == 0:
            changed = [k for k, (p, q) in enumerate(zip(prev[2], cur[2])) if p != q]
            if changed and changed[0] != a[2]["key"]:       # punished through a consumer key, not the provider key itself
                hit = True
    return json.dumps(sig) if hit else None


CLAUSES = {
    1: "a double-voting submission changed a validator other than the one the key-assignment history attributes the key to",
    2: "the attributed validator is not registered / was not punished with the consumer's parameters and the right power (or changed on rejection)",
    3: "the provider resolved the named key to a validator other than the one the key-assignment history attributes it to",
    4: "result class of the submission differs from the one the history, the consumer's settings and the validator's record imply",
    5: "an action other than a submission / validator creation / removal / external change altered a validator",
    6: "misbehaviour: a validator's record differs from the one implied by the attribution of the byzantine addresses",
    99: "malformed observation",
}


def describe(codes):
    return "; ".join(CLAUSES.get(c, str(c)) for c in sorted(set(codes)))


PART = Part("system", "c07sys", "evidencekeys", gen, nontrivial=nontrivial, describe=describe, shrink=ddmin("acts"))
