package c07sys

// Correspondence driver for the part "system" of C07 (composed model Model/EvidenceKeys.v = KeyAssign x Evidence):
// a history interleaves consumer-key (re)assignments, opt-ins, validator creation/removal, lifecycle steps, blocks
// (EndBlock = pruning) and time advances (the history engine of harness/c05 / c06sys) with REAL signed
// double-voting evidence submitted through MsgSubmitConsumerDoubleVoting (or Keeper.HandleConsumerDoubleVoting).
// The model input carries NO resolution oracle: which validator evidence for a consumer address is about is
// computed by the model from the key-assignment history.  (Misbehaviour is not driven here: harness/c07 covers its
// handling with the real light client; the composed model's SMisbehaviour op is covered by theorem only.)
//
// Key id k is the ed25519 key common.Key(1000+k); the validator table of the model is indexed by PROVIDER KEY id,
// so row k of a snapshot is the staking validator whose consensus key is k (if one exists).

import (
	"encoding/json"
	"errors"
	"fmt"
	"strconv"
	"strings"
	"testing"
	"time"

	"cosmossdk.io/math"

	sdk "github.com/cosmos/cosmos-sdk/types"
	slashingtypes "github.com/cosmos/cosmos-sdk/x/slashing/types"
	stakingtypes "github.com/cosmos/cosmos-sdk/x/staking/types"

	"verifharness/common"

	providertypes "github.com/cosmos/interchain-security/v7/x/ccv/provider/types"
)

type kase struct {
	ID   int64             `json:"id"`
	U    int64             `json:"u"`  // unbonding period, ns
	NK   int               `json:"nk"` // key pool size (= validator table size of the model)
	NC   int               `json:"nc"` // consumers observed
	Hist []json.RawMessage `json:"acts"`
}

type valCfg struct {
	Tokens  int64   `json:"tokens"`
	Status  int32   `json:"status"`
	Jailed  int64   `json:"jailed"`
	Tomb    int64   `json:"tomb"`
	Until   int64   `json:"until"`
	LastPow int64   `json:"lastpow"`
	Unb     []int64 `json:"unb"`
	Red     []int64 `json:"red"`
}

type consCfg struct {
	Chain int64   `json:"chain"`
	MinH  uint64  `json:"minh"`
	DS    []int64 `json:"ds"` // [fraction raw 10^18, jail ns, tombstone]
}

const (
	eOK        = 0
	ePhase     = 1
	eInUse     = 2
	eDefault   = 3
	eNoVal     = 4
	eHook      = 5
	eStaking   = 6
	eLifecycle = 7
	eBasic     = 8
	eOther     = 9
)

func operAddr(o int64) sdk.ValAddress {
	b := make([]byte, 20)
	b[0] = byte(o + 1)
	b[19] = 0x77
	return sdk.ValAddress(b)
}

func consAddr(k int64) sdk.ConsAddress { return sdk.ConsAddress(addrOf(k)) }
func keyJSON(k int64) string {
	return fmt.Sprintf(`{"@type":"/cosmos.crypto.ed25519.PubKey","key":"%s"}`, b64(privOf(k).PubKey().Bytes()))
}
func cid(c int64) string { return strconv.FormatInt(c, 10) }

func rel(t time.Time) int64 {
	if t.IsZero() {
		return 0
	}
	return t.Sub(common.T0).Nanoseconds()
}

func classify(r common.Result) int64 {
	if r.OK() {
		return eOK
	}
	if r.Panic != nil {
		return eOther
	}
	err := r.Err
	switch {
	case strings.HasPrefix(err.Error(), "validate-basic:"):
		return eBasic
	case errors.Is(err, providertypes.ErrInvalidPhase):
		return ePhase
	case errors.Is(err, providertypes.ErrConsumerKeyInUse):
		return eInUse
	case errors.Is(err, providertypes.ErrCannotAssignDefaultKeyAssignment):
		return eDefault
	case errors.Is(err, stakingtypes.ErrNoValidatorFound):
		return eNoVal
	case errors.Is(err, providertypes.ErrUnauthorized):
		return eBasic
	}
	return eOther
}

// result classes of Model/Evidence.v for a double-voting submission
func classifyDV(r common.Result) int64 {
	if r.OK() {
		return 0
	}
	if r.Panic != nil {
		return 26
	}
	s := r.Err.Error()
	has := func(x string) bool { return strings.Contains(s, x) }
	switch {
	case strings.HasPrefix(s, "validate-basic"):
		return 1
	case has("incorrectly derived from pubkey"):
		return 2
	case has("cannot be found in the infraction block header validator set"):
		return 3
	case has("cannot find consumer chain"):
		return 4
	case has("is too old"):
		return 5
	case has("failed to retrieve chain id"):
		return 6
	case has("public key cannot be empty"):
		return 7
	case has("doesn't correspond to the validator address"):
		return 8
	case has("height/round/type are not the same"):
		return 9
	case has("validator addresses do not match"):
		return 10
	case has("block IDs are the same"):
		return 11
	case has("verifying VoteA"):
		return 12
	case has("verifying VoteB"):
		return 13
	case has("failed to retrieve infraction parameters"):
		return 14
	case has("validator is unbonded"):
		return 16
	case has("validator is tombstoned"), errors.Is(r.Err, slashingtypes.ErrValidatorTombstoned):
		return 17
	case errors.Is(r.Err, slashingtypes.ErrNoValidatorForAddress):
		return 15
	case has("fail to set jail duration"), has("fail to tombstone"):
		return 18
	}
	return 99
}

func ints(l []int64) []math.Int {
	out := make([]math.Int, len(l))
	for i, x := range l {
		out[i] = math.NewInt(x)
	}
	return out
}

func sum(l []math.Int) int64 {
	t := math.ZeroInt()
	for _, x := range l {
		t = t.Add(x)
	}
	return t.Int64()
}

func applyVal(v *common.Val, c valCfg) {
	v.Tokens = math.NewInt(c.Tokens)
	v.Status = stakingtypes.BondStatus(c.Status)
	v.Jailed = c.Jailed != 0
	v.Tombstoned = v.Tombstoned || c.Tomb != 0 // x/slashing never removes a tombstone
	v.JailedUntil = time.Time{}
	if c.Until != 0 {
		v.JailedUntil = common.T0.Add(time.Duration(c.Until))
	}
	v.LastPower = c.LastPow
	v.Unbonding = ints(c.Unb)
	v.Redelegated = ints(c.Red)
}

func encCfg(c valCfg) common.T {
	s := func(l []int64) (t int64) {
		for _, x := range l {
			t += x
		}
		return
	}
	return common.L(int64(c.Status), common.B(c.Jailed != 0), c.Until, common.B(c.Tomb != 0), c.Tokens, c.LastPow, s(c.Unb), s(c.Red), 1, common.L())
}

func encVal(v *common.Val) common.T {
	log := []common.T{}
	for _, r := range v.SlashLog {
		frac := math.LegacyMustNewDecFromStr(r.Fraction).BigInt().Int64()
		if r.Reason != stakingtypes.Infraction_INFRACTION_DOUBLE_SIGN || r.Height != 0 {
			frac = -1
		}
		log = append(log, common.L(r.Power, frac))
	}
	return common.L(int64(v.Status), common.B(v.Jailed), rel(v.JailedUntil), common.B(v.Tombstoned), v.Tokens.Int64(), v.LastPower,
		sum(v.Unbonding), sum(v.Redelegated), 1, log)
}

type drv struct {
	k      kase
	w      *common.World
	env    *common.ProviderEnv
	owner  string
	other  string
	chains []int64
	ops    []common.T
}

func (d *drv) snapshot(res int64) common.T {
	env, w := d.env, d.w
	rows := make([]common.T, d.k.NK)
	for k := 0; k < d.k.NK; k++ {
		if v := w.ValByCons(consAddr(int64(k))); v != nil {
			rows[k] = encVal(v)
		} else {
			rows[k] = common.L()
		}
	}
	cons := make([]common.T, d.k.NC)
	for c := 0; c < d.k.NC; c++ {
		id := cid(int64(c))
		resolve := make([]common.T, d.k.NK)
		for k := 0; k < d.k.NK; k++ {
			rp := env.K.GetProviderAddrFromConsumerAddr(env.Ctx, id, providertypes.NewConsumerConsAddress(consAddr(int64(k))))
			resolve[k] = idOfAddr(rp.ToSdkConsAddr())
		}
		_, client := env.K.GetConsumerClientId(env.Ctx, id)
		cons[c] = common.L(int64(env.K.GetConsumerPhase(env.Ctx, id)), common.B(client), resolve)
	}
	return common.L(res, rel(env.Ctx.BlockTime()), rows, cons)
}

func (d *drv) signer(o int64, ok bool) string {
	if ok {
		return sdk.AccAddress(operAddr(o)).String()
	}
	return d.other
}

func pad5(a []int64) common.T {
	op := make([]common.T, 5)
	for j := 0; j < 5; j++ {
		op[j] = int64(0)
		if j < len(a) {
			op[j] = a[j]
		}
	}
	return op
}

func (d *drv) emit(op common.T) { d.ops = append(d.ops, op) }

// step executes one action and appends the model's op; returns the result class
func (d *drv) step(raw json.RawMessage) int64 {
	env, w := d.env, d.w
	var head []json.RawMessage
	if err := json.Unmarshal(raw, &head); err != nil {
		panic(err)
	}
	var code int64
	if err := json.Unmarshal(head[0], &code); err != nil {
		panic(err)
	}
	num := func(i int) int64 {
		var n int64
		if i < len(head) {
			if err := json.Unmarshal(head[i], &n); err != nil {
				panic(err)
			}
		}
		return n
	}
	switch code {
	case 2: // [2, o, key, valCfg]: staking creates a validator with this record
		var vc valCfg
		if err := json.Unmarshal(head[3], &vc); err != nil {
			panic(err)
		}
		o, key := num(1), num(2)
		d.emit(common.L(int64(2), o, key, encCfg(vc)))
		oper := operAddr(o)
		if w.ValByOper(oper) != nil || w.ValByCons(consAddr(key)) != nil {
			return eStaking
		}
		v := w.AddVal(vc.Tokens)
		v.Oper, v.Priv = oper, privOf(key)
		r := common.Tx(env.Ctx, func(ctx sdk.Context) error { return env.K.Hooks().AfterValidatorCreated(ctx, oper) })
		if !r.OK() {
			w.Vals = w.Vals[:len(w.Vals)-1]
			if r.Panic != nil {
				return eHook
			}
			return eOther
		}
		applyVal(v, vc)
		return eOK
	case 4: // [4, consCfg]: MsgCreateConsumer with chain id and double-sign parameters; minimum evidence height by setter
		var cc consCfg
		if err := json.Unmarshal(head[1], &cc); err != nil {
			panic(err)
		}
		d.emit(common.L(int64(4), common.L(cc.Chain), int64(cc.MinH), common.L(common.L(cc.DS[0], cc.DS[1], cc.DS[2]))))
		n := len(env.K.GetAllConsumerIds(env.Ctx))
		frac := math.LegacyNewDecFromIntWithPrec(math.NewInt(cc.DS[0]), math.LegacyPrecision)
		ip := &providertypes.InfractionParameters{
			DoubleSign: &providertypes.SlashJailParameters{SlashFraction: frac, JailDuration: time.Duration(cc.DS[1]), Tombstone: cc.DS[2] != 0},
			Downtime:   &providertypes.SlashJailParameters{SlashFraction: math.LegacyZeroDec(), JailDuration: time.Second}}
		r := env.Deliver(&providertypes.MsgCreateConsumer{Submitter: d.owner, ChainId: chainStr(cc.Chain),
			Metadata: providertypes.ConsumerMetadata{Name: "n", Description: "d", Metadata: "m"}, InfractionParameters: ip})
		if !r.OK() {
			panic("create consumer: " + r.String())
		}
		env.K.SetEquivocationEvidenceMinHeight(env.Ctx, cid(int64(n)), cc.MinH)
		d.chains = append(d.chains, cc.Chain)
		return eOK
	case 21: // [21, key, valCfg]: staking / slashing changes the validator with provider key `key` from outside
		var vc valCfg
		if err := json.Unmarshal(head[2], &vc); err != nil {
			panic(err)
		}
		key := num(1)
		d.emit(common.L(int64(21), key, encCfg(vc)))
		v := w.ValByCons(consAddr(key))
		if v == nil {
			return eLifecycle
		}
		applyVal(v, vc)
		return eOK
	case 30: // [30, entry, dvSpec]: real signed double-voting evidence
		entry := num(1)
		var sp dvSpec
		if err := json.Unmarshal(head[2], &sp); err != nil {
			panic(err)
		}
		b := buildDV(sp, entry, append([]int64{0, 90}, d.chains...))
		d.emit(common.L(int64(30), entry, b.Bits))
		before := env.DumpStore()
		var res common.Result
		if entry == 0 {
			res = env.Deliver(&providertypes.MsgSubmitConsumerDoubleVoting{Submitter: d.owner, DuplicateVoteEvidence: b.Ev.ToProto(),
				InfractionBlockHeader: dvHeader(b, sp.Chain, sp.H), ConsumerId: b.Cid})
		} else {
			res = common.Tx(env.Ctx, func(ctx sdk.Context) error { return env.K.HandleConsumerDoubleVoting(ctx, b.Cid, b.Ev, b.Pub) })
		}
		class := classifyDV(res)
		if len(common.DiffStores(before, env.DumpStore())) != 0 {
			class += 1000 // evidence handling never writes the provider store
		}
		return class
	}
	var a []int64
	if err := json.Unmarshal(raw, &a); err != nil {
		panic(err)
	}
	arg := func(i int) int64 {
		if i < len(a) {
			return a[i]
		}
		return 0
	}
	d.emit(pad5(a))
	switch code {
	case 0:
		return classify(env.Deliver(&providertypes.MsgAssignConsumerKey{ConsumerId: cid(arg(1)), ProviderAddr: operAddr(arg(2)).String(),
			ConsumerKey: keyJSON(arg(3)), Signer: d.signer(arg(2), arg(4) != 0)}))
	case 1:
		key := ""
		if arg(3) >= 0 {
			key = keyJSON(arg(3))
		}
		return classify(env.Deliver(&providertypes.MsgOptIn{ConsumerId: cid(arg(1)), ProviderAddr: operAddr(arg(2)).String(),
			ConsumerKey: key, Signer: d.signer(arg(2), arg(4) != 0)}))
	case 3:
		v := w.ValByOper(operAddr(arg(1)))
		if v == nil {
			return eNoVal
		}
		v.Removed = true
		if r := common.Tx(env.Ctx, func(ctx sdk.Context) error {
			return env.K.Hooks().AfterValidatorRemoved(ctx, v.ConsAddr(), v.Oper)
		}); !r.OK() {
			return eOther
		}
		return eOK
	case 5:
		if env.K.GetConsumerPhase(env.Ctx, cid(arg(1))) != providertypes.CONSUMER_PHASE_REGISTERED {
			return eLifecycle
		}
		env.K.SetConsumerPhase(env.Ctx, cid(arg(1)), providertypes.CONSUMER_PHASE_INITIALIZED)
		return eOK
	case 6: // launch: client id and phase (what LaunchConsumer stores that matters here)
		c := arg(1)
		if env.K.GetConsumerPhase(env.Ctx, cid(c)) != providertypes.CONSUMER_PHASE_INITIALIZED {
			return eLifecycle
		}
		env.K.SetConsumerClientId(env.Ctx, cid(c), "07-tendermint-"+cid(c))
		env.K.SetConsumerPhase(env.Ctx, cid(c), providertypes.CONSUMER_PHASE_LAUNCHED)
		return eOK
	case 7:
		owner := d.owner
		if arg(2) == 0 {
			owner = d.other
		}
		return classify(env.Deliver(&providertypes.MsgRemoveConsumer{Owner: owner, ConsumerId: cid(arg(1))}))
	case 8:
		r := common.Tx(env.Ctx, func(ctx sdk.Context) error { return env.K.DeleteConsumerChain(ctx, cid(arg(1))) })
		if r.Panic != nil {
			return eOther
		}
		if r.Err != nil {
			return eLifecycle
		}
		return eOK
	case 9:
		if r := env.BeginBlock(); !r.OK() {
			return eOther
		}
		return eOK
	case 10:
		if _, r := env.EndBlock(); !r.OK() {
			return eOther
		}
		return eOK
	case 11:
		env.NextBlock(time.Duration(arg(1)))
		return eOK
	}
	panic(fmt.Sprintf("unknown action %d", code))
}

func TestDriver(t *testing.T) {
	common.RunCases(t, func(c common.Case) (common.T, common.T) {
		var k kase
		if err := json.Unmarshal(c.Raw, &k); err != nil {
			panic(err)
		}
		w := common.NewWorld(0)
		w.Unbonding = time.Duration(k.U)
		env := common.NewProviderEnv(t, w)
		env.InitGenesis(providertypes.DefaultParams())
		d := &drv{k: k, w: w, env: env, ops: []common.T{},
			owner: sdk.AccAddress([]byte("owner_______________")).String(),
			other: sdk.AccAddress([]byte("somebody_else_______")).String()}
		obs := []common.T{d.snapshot(0)}
		for _, raw := range k.Hist {
			res := d.step(raw)
			obs = append(obs, d.snapshot(res))
		}
		return common.L(common.L(k.U, int64(k.NK), int64(k.NC)), d.ops), obs
	})
}
