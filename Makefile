# /verif top-level targets
.PHONY: setup model harness clean
setup:
	tools/setup.sh
model:
	tools/build_model.sh
harness:
	tools/mkgomod.sh
	cd harness && GOFLAGS=-mod=mod GOPROXY=off go test -c -tags verif -o ../.work/bin/common.test ./common
clean:
	rm -rf .work coq/Makefile.coq coq/Makefile.coq.conf coq/.*.aux coq/theories/*/*.vo* coq/theories/*/*.glob coq/theories/*.vo* coq/theories/*.glob
