(* ccvmodel: generic driver around the extracted Coq models.
   usage: model_<component> < in.jsonl > out.jsonl   (one binary per component, see tools/build_model.sh)
   each input line : [id, input, implobs]   (JSON restricted to integers and arrays)
   each output line: [id, modelobs, monitor_verdict]
   The driver contains no protocol logic: it parses trees, calls the extracted
   [run]/[mon] of the chosen component and prints trees. *)

module SL = Stdlib.List

(* ---- Coq Z <-> zarith ---- *)
let rec pos_of_z (n : Z.t) : BinNums.positive =
  if Z.equal n Z.one then BinNums.Coq_xH
  else if Z.is_even n then BinNums.Coq_xO (pos_of_z (Z.shift_right n 1))
  else BinNums.Coq_xI (pos_of_z (Z.shift_right n 1))

let coqz_of_z (n : Z.t) : BinNums.coq_Z =
  let s = Z.sign n in
  if s = 0 then BinNums.Z0
  else if s > 0 then BinNums.Zpos (pos_of_z n)
  else BinNums.Zneg (pos_of_z (Z.neg n))

let rec z_of_pos (p : BinNums.positive) : Z.t =
  match p with
  | BinNums.Coq_xH -> Z.one
  | BinNums.Coq_xO q -> Z.shift_left (z_of_pos q) 1
  | BinNums.Coq_xI q -> Z.succ (Z.shift_left (z_of_pos q) 1)

let z_of_coqz (z : BinNums.coq_Z) : Z.t =
  match z with
  | BinNums.Z0 -> Z.zero
  | BinNums.Zpos p -> z_of_pos p
  | BinNums.Zneg p -> Z.neg (z_of_pos p)

(* ---- parsing ---- *)
exception Parse of string

let parse (s : string) : Tree.tree =
  let n = String.length s in
  let pos = ref 0 in
  let peek () = if !pos < n then s.[!pos] else '\000' in
  let skip () =
    while !pos < n && (match s.[!pos] with ' ' | '\t' | '\r' | '\n' -> true | _ -> false) do incr pos done in
  let rec value () : Tree.tree =
    skip ();
    match peek () with
    | '[' ->
      incr pos; skip ();
      if peek () = ']' then (incr pos; Tree.TL [])
      else begin
        let items = ref [] in
        let continue = ref true in
        while !continue do
          items := value () :: !items;
          skip ();
          (match peek () with
           | ',' -> incr pos
           | ']' -> incr pos; continue := false
           | c -> raise (Parse (Printf.sprintf "unexpected %c at %d" c !pos)))
        done;
        Tree.TL (SL.rev !items)
      end
    | '-' | '0' .. '9' ->
      let start = !pos in
      incr pos;
      while !pos < n && (match s.[!pos] with '0' .. '9' -> true | _ -> false) do incr pos done;
      Tree.TI (coqz_of_z (Z.of_string (String.sub s start (!pos - start))))
    | c -> raise (Parse (Printf.sprintf "unexpected %c at %d" c !pos))
  in
  let t = value () in
  skip ();
  if !pos <> n then raise (Parse "trailing input");
  t

let rec print (b : Buffer.t) (t : Tree.tree) : unit =
  match t with
  | Tree.TI z -> Buffer.add_string b (Z.to_string (z_of_coqz z))
  | Tree.TL l ->
    Buffer.add_char b '[';
    SL.iteri (fun i x -> if i > 0 then Buffer.add_char b ','; print b x) l;
    Buffer.add_char b ']'

let () =
  let run = Component.run and mon = Component.mon in
  let b = Buffer.create 65536 in
  (try
     while true do
       let line = input_line stdin in
       if String.length line > 0 then begin
         match parse line with
         | Tree.TL [id; inp; obs] ->
           Buffer.clear b;
           print b (Tree.TL [id; run inp; mon inp obs]);
           Buffer.add_char b '\n';
           print_string (Buffer.contents b)
         | _ -> raise (Parse "line is not [id,input,obs]")
       end
     done
   with End_of_file -> ());
  flush stdout
