(* component name -> (run, mon) of the extracted model; one line per component *)
let table : (string * ((Tree.tree -> Tree.tree) * (Tree.tree -> Tree.tree -> Tree.tree))) list = [
  ("powercap", (PowerCap.run, PowerCap.mon));
]
