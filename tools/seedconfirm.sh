#!/bin/sh
# usage: seedconfirm.sh <seed dir containing patch.diff demo_test.go> <property id>
# Confirms in a scratch worktree: demo passes on clean HEAD; with the patch the tree builds, the x/ccv + app unit
# suites pass, and the demo fails. Writes <seed dir>/confirm.log and prints a one-line verdict.
D=$(cd "$1" && pwd); P=$2
export GOFLAGS=-mod=mod GOPROXY=off
WT=/tmp/seedconfirm.$$
git -C /repo worktree add -q "$WT" HEAD || exit 2
PKG=$(grep -m1 -o 'x/ccv/[a-z/_]*' "$D/demo_test.go" | head -1 | sed 's#/$##')
[ -d "$WT/$PKG" ] || PKG=$(grep -m1 -o 'tests/[a-z/_]*' "$D/demo_test.go")
cd "$WT"
LOG="$D/confirm.log"; : > "$LOG"
cp "$D/demo_test.go" "$PKG/zz_seed_demo_test.go"
TESTS=$(grep -o '^func Test[A-Za-z0-9_]*' "$D/demo_test.go" | sed 's/func //' | paste -sd'|')
go test -vet=off -count=1 -run "^($TESTS)\$" "./$PKG/" >> "$LOG" 2>&1; CLEAN=$?
rm "$PKG/zz_seed_demo_test.go"
git apply "$D/patch.diff" >> "$LOG" 2>&1 || { echo "patch does not apply" >> "$LOG"; }
go build ./... >> "$LOG" 2>&1; BUILD=$?
go test -vet=off -count=1 -timeout 40m ./x/ccv/... ./app/... >> "$LOG" 2>&1; SUITE=$?
cp "$D/demo_test.go" "$PKG/zz_seed_demo_test.go"
go test -vet=off -count=1 -run "^($TESTS)\$" "./$PKG/" >> "$LOG" 2>&1; MUT=$?
cd /; git -C /repo worktree remove --force "$WT"
echo "seedconfirm $P $(basename $D): pkg=$PKG demo_on_clean=$CLEAN(0 expected) build=$BUILD(0) unit_suite_with_patch=$SUITE(0) demo_with_patch=$MUT(nonzero expected)" | tee -a "$LOG"
