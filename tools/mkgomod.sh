#!/bin/sh
# Regenerates harness/go.mod and go.sum from /repo's current go.mod (run before every harness build).
set -e
REPO=${VERIF_REPO:-/repo}
H=${VERIF_HARNESS_DIR:-$(dirname "$0")/../harness}
sed -e '1s#^module .*#module verifharness#' "$REPO/go.mod" > "$H/go.mod.tmp.$$"
printf '\nreplace github.com/cosmos/interchain-security/v7 => %s\n' "$REPO" >> "$H/go.mod.tmp.$$"
if ! cmp -s "$H/go.mod.tmp.$$" "$H/go.mod" 2>/dev/null; then mv "$H/go.mod.tmp.$$" "$H/go.mod"; else rm "$H/go.mod.tmp.$$"; fi
cmp -s "$REPO/go.sum" "$H/go.sum" 2>/dev/null || cp "$REPO/go.sum" "$H/go.sum"
