#!/bin/sh
# usage: seedkeep.sh <PROPERTY> <k> <source dir with patch.diff demo_test.go notes.md> [other properties to test too]
# Copies an independently written breaking change into seeded/<PROPERTY>-<k>/, confirms it (seedconfirm.sh) and runs
# the property's quick check against it (seedtest.sh); writes meta.json.
P=$1; K=$2; SRC=$3; shift 3
V=$(cd "$(dirname "$0")/.." && pwd)
D=$V/seeded/$P-$K
mkdir -p "$D"
cp "$SRC/patch.diff" "$SRC/demo_test.go" "$SRC/notes.md" "$D/" 2>/dev/null
CONF=$("$V/tools/seedconfirm.sh" "$D" "$P" 2>&1 | tail -1)
DET=""
for Q in $P "$@"; do
  OUT=$("$V/tools/seedtest.sh" "$Q" "$D/patch.diff" 2>&1 | grep -E "VIOLATION|seedtest|quick:" | tr '\n' ' ')
  DET="$DET [$Q] $OUT"
done
python3 - "$P" "$K" "$D" "$CONF" "$DET" <<'PY'
import json, sys, re, os
p, k, d, conf, det = sys.argv[1:6]
notes = open(os.path.join(d, "notes.md")).read() if os.path.exists(os.path.join(d, "notes.md")) else ""
meta = {"property": p, "seed": f"{p}-{k}",
        "origin": "written by an independent sub-agent that saw only the property text and a scratch worktree of /repo (nothing from /verif)",
        "needs_to_manifest": (re.search(r"(?is)(needs?|manifest|trigger)[^\n]*\n(.{0,600})", notes) or [None, "", notes[:600]])[2].strip()[:600] if notes else "",
        "confirmation": conf,
        "confirmation_cmd": "tools/seedconfirm.sh (scratch worktree of /repo HEAD: demo on clean tree; git apply; go build ./...; go test ./x/ccv/... ./app/...; demo with patch); the sub-agent additionally ran go test ./tests/integration/... with the patch (see notes.md)",
        "check_result": det.strip(),
        "check_cmd": "tools/seedtest.sh <property> seeded/%s-%s/patch.diff (VERIF_REPO=<scratch worktree with the patch> python3 tools/check.py <property>)" % (p, k),
        "detected": "exit=1" in det}
json.dump(meta, open(os.path.join(d, "meta.json"), "w"), indent=1)
print(json.dumps({"seed": meta["seed"], "detected": meta["detected"], "confirmation": conf}))
PY
