#!/bin/sh
# Builds the Coq development (full .vo build), extracts the models and links the OCaml driver.
set -e
V=$(cd "$(dirname "$0")/.." && pwd)
W=$V/.work
mkdir -p "$W/extract" "$W/bin"
cd "$V/coq"
coq_makefile -f _CoqProject -o Makefile.coq > /dev/null
timeout 3000 make -f Makefile.coq -j16 > "$W/coq_build.log" 2>&1 || { tail -40 "$W/coq_build.log"; echo "COQ BUILD FAILED"; exit 3; }
cd "$W/extract"
rm -f ./*.ml ./*.mli ./*.cm* ./*.o
timeout 600 coqc -Q "$V/coq/theories" ICS "$V/coq/theories/Extract.v" > "$W/extract.log" 2>&1 || { cat "$W/extract.log"; exit 3; }
cp "$V/ocaml/main.ml" "$V/ocaml/components.ml" .
# dependency order via ocamlfind ocamldep -sort
FILES=$(ocamlfind ocamldep -sort ./*.mli ./*.ml)
ocamlfind ocamlopt -O2 -w -a -package zarith -linkpkg $FILES -o "$W/bin/ccvmodel" 2> "$W/ocaml.log" || \
ocamlfind ocamlopt -w -a -package zarith -linkpkg $FILES -o "$W/bin/ccvmodel" 2>> "$W/ocaml.log" || { tail -30 "$W/ocaml.log"; exit 3; }
echo "model built: $W/bin/ccvmodel"
