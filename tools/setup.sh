#!/bin/sh
# One-time set-up after a fresh restore (offline): clean full Coq build, extraction and linking of every model
# component, and a warm build of every harness package (fills the Go build cache so that checks relink in seconds).
V=$(cd "$(dirname "$0")/.." && pwd)
cd "$V"
mkdir -p .work/bin
tools/build_model.sh || echo "WARNING: some Coq files or components did not build (their checks will report it)"
tools/mkgomod.sh
cd harness
export GOFLAGS=-mod=mod GOPROXY=off
for d in */; do
  d=${d%/}
  ls "$d"/*_test.go >/dev/null 2>&1 || continue
  go test -c -tags verif -o "../.work/bin/$d.test" "./$d" || echo "WARNING: harness package $d does not build"
done
exit 0
