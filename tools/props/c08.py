"""C08: downtime reports jail exactly the right validator and are acknowledged (DESIGN.md 6.8)."""
import json
from check import Part

ID = "C08"
DESIGN_REF = "6.8"
RULE = ("provider part: random histories (10-45 actions) over 3-6 validators and 1-3 consumers (launched by real "
        "MsgCreateConsumer/MsgOptIn + BeginBlock, or built by direct setters with arbitrary phase / stored set / missing "
        "parameters): slash packets through AppModule.OnRecvPacket for current, replaced, unknown, provider and other-consumer keys, "
        "downtime/double-sign/invalid infractions, known/unknown vsc ids, malformed data, unknown channels; external validator "
        "changes (jail, unjail, tombstone, power, removal, unbonded), key assignments, opt-in/out, phase and parameter changes; "
        "blocks with epochs (VSC packets captured); plus directed/random same-block histories: 2-3 launched consumers report the same "
        "validator within one provider block, or a validator jailed externally earlier in the block, with assigned keys. consumer part: random histories over the real consumer keeper (queue reports, "
        "EndBlock sends with injected send errors, scripted acknowledgements, VSC packets with slash acks and validator changes, "
        "retry-delay boundary times). non-trivial = a validator was jailed by a packet or slash acks travelled in a VSC packet "
        "(provider) / an outstanding flag was set and cleared (consumer); distinct = distinct sequences of result classes")
ASSUMPTIONS = [
    "staking/slashing are the harness' stand-ins (World): Slash burns min(tokens, trunc(fraction*power*10^6)), Jail/JailUntil set flags; "
    "their agreement with the model's jail_val is checked on every run, the real SDK modules are not exercised",
    "address = 20-byte hash of the key, collision free (addresses are encoded as key numbers)",
    "a consumer is never deleted during a history (DeleteConsumerChain drops its pending slash acks); acks of a removed consumer are out of scope",
    "int64 overflow is not modelled (powers, tokens and times are small)",
]
TRUSTED_BASE = [
    "modelled: OnRecvSlashPacket, ValidateSlashPacket, HandleSlashPacket, SlashPacketData.Validate, AppendSlashAck, ConsumeSlashAcks "
    "(as used by QueueVSCPackets), GetEffectiveValPower, the meter check/deduction, AppModule.OnRecvPacket's mapping of results, errors "
    "and panics to acknowledgements; consumer QueueSlashPacket guard, OnRecvVSCPacket flag clearing, ApplyCCValidatorChanges flag clearing",
    "oracle inputs (observed from the real keeper before each step, not modelled): key -> provider validator resolution "
    "(GetProviderAddrFromConsumerAddr), vsc id -> infraction height, each consumer's phase / stored validator set / infraction "
    "parameters, whether an epoch produces a VSC packet for a consumer, staking end-block effects",
]

PERIODS = [3600 * 10 ** 9, 10 * 10 ** 9, 60 * 10 ** 9]
FRACS = ["0.05", "0.5", "1.0", "0.0001", "0.2", "0.05", "0.33"]


def gen_provider_case(rng, flood=False):
    n = rng.randint(3, 6)
    mode = rng.choice(["small", "small", "mixed", "big"])
    if mode == "small":
        pows = [rng.randint(1, 12) for _ in range(n)]
    elif mode == "mixed":
        pows = [rng.choice([1, 2, 5, 50, 100, 1000]) for _ in range(n)]
    else:
        pows = [rng.randint(10 ** 3, 10 ** 6) for _ in range(n)]
    period = rng.choice(PERIODS)
    ncons = rng.randint(1, 3)
    cons, cur, old = [], [], []
    for c in range(ncons):
        direct = 1 if (rng.random() < 0.3 and not (flood and c == 0)) else 0
        keys = {}
        cs = {"direct": direct, "dfrac": rng.choice(["0.01", "0", "0.5", "1.0", "0.0001", "0.05"]),
              "djail_ns": rng.choice([600 * 10 ** 9, 0, 1, 10 ** 9])}
        if direct:
            ids = [v for v in range(n) if rng.random() < 0.6] + [2000 + rng.randint(300, 305) for _ in range(rng.randint(0, 1))]
            cs.update({"phase": rng.choice([3, 3, 3, 3, 1, 2, 4, 5]), "set": sorted(set(ids)),
                       "noparams": 1 if rng.random() < 0.2 else 0, "noheight": 1 if rng.random() < 0.1 else 0, "optin": [], "keys": []})
        else:
            opt = [v for v in range(n) if rng.random() < 0.75] or [rng.randrange(n)]
            for v in opt:
                if rng.random() < 0.4:
                    keys[v] = 10 * (c + 1) + v
            cs.update({"optin": opt, "keys": [[v, k] for v, k in sorted(keys.items())]})
        cons.append(cs)
        cur.append({v: keys.get(v, 1000 + v) for v in range(n)})
        old.append([])
    fresh = [100]
    acts = []
    nacts = rng.randint(10, 45)

    def pick_addr(c):
        cc = c if 0 <= c < ncons else 0
        r = rng.random()
        v = rng.randrange(n)
        if r < 0.55:
            return cur[cc][v]
        if r < 0.65 and old[cc]:
            return rng.choice(old[cc])
        if r < 0.75:
            return 1000 + v                               # provider key (also when a consumer key is assigned)
        if r < 0.85 and ncons > 1:
            oc = rng.choice([x for x in range(ncons) if x != cc])
            return cur[oc][v]
        return 300 + rng.randint(0, 5)                    # unknown everywhere

    for _ in range(nacts):
        r = rng.random()
        if r < (0.62 if flood else 0.5):
            c = rng.randrange(ncons) if rng.random() < 0.96 else 99
            infr = 2 if rng.random() < 0.86 else rng.choice([1, 1, 0, 3])
            vsck = rng.choice([0, 1]) if rng.random() < 0.92 else 2
            power = rng.randint(1, 20) if rng.random() < 0.97 else 0
            bad = 1 if rng.random() < 0.03 else 0
            acts.append([1, c, pick_addr(c), infr, vsck, power, bad])
        elif r < (0.85 if flood else 0.7):
            dt = rng.choice([10 ** 9, 5 * 10 ** 9, period, period - 1, period + 1, 1, period // 2, period // 2 + 1, 2 * period])
            acts.append([2, dt])
        elif r < (0.93 if flood else 0.82):
            v = rng.randrange(n)
            f = rng.choice([1, 1, 1, 2, 3, 3, 4, 5])
            val = {1: rng.choice([0, 0, 1]), 2: 1, 3: rng.choice([0, 1, 3, 7, 30, 200]), 4: rng.choice([1, 1, 0]), 5: rng.choice([1, 1, 2])}[f]
            acts.append([3, v, f, val])
        elif r < 0.87:
            c = rng.randrange(ncons)
            v = rng.randrange(n)
            k = fresh[0]
            fresh[0] += 1
            acts.append([4, c, v, k])
            if not cons[c]["direct"]:
                old[c].append(cur[c][v])
                cur[c][v] = k
        elif r < 0.90:
            acts.append([5, rng.randrange(ncons), rng.choice([3, 3, 4, 1, 2, 5])])
        elif r < 0.95:
            acts.append([6, rng.randrange(ncons), rng.randrange(n), rng.choice([0, 1])])
        else:
            acts.append([7, rng.randrange(ncons), rng.choice([0, 100, 5000, 10000, 1]), rng.choice([0, 600 * 10 ** 9, 1])])
    return {"pows": pows, "frac": rng.choice(FRACS), "period_ns": period, "cons": cons, "acts": acts}


def gen_same_block_case(rng, directed=None):
    """Several launched consumers hold validator V in their stored sets and report V within ONE provider block (no staking
    end-block in between), or V was jailed externally earlier in the same block; with and without assigned consumer keys.
    The replenish fraction is large so that the meter stays non-negative after the first jailing."""
    n = rng.randint(3, 5)
    pows = [rng.randint(1, 9) for _ in range(n)]
    ncons = rng.choice([2, 3, 3])
    cons, cur = [], []
    for c in range(ncons):
        keys = {v: 10 * (c + 1) + v for v in range(n) if rng.random() < 0.5}
        cons.append({"direct": 0, "dfrac": rng.choice(["0.01", "0", "0.5"]), "djail_ns": rng.choice([600 * 10 ** 9, 10 ** 9]),
                     "optin": list(range(n)), "keys": [[v, k] for v, k in sorted(keys.items())]})
        cur.append({v: keys.get(v, 1000 + v) for v in range(n)})
    period = rng.choice(PERIODS)
    acts = []

    def report(c, v, provider_key=False):
        acts.append([1, c, 1000 + v if provider_key else cur[c][v], 2, 0, rng.randint(1, 9), 0])

    rounds = directed or [rng.choice(["multi", "multi", "extjail", "mixed"]) for _ in range(rng.randint(2, 5))]
    for kind in rounds:
        v = rng.randrange(n)
        order = list(range(ncons))
        rng.shuffle(order)
        if kind == "multi":                      # (a)/(c): every consumer reports V in the same block
            for c in order:
                report(c, v, provider_key=rng.random() < 0.2)
            if rng.random() < 0.5:
                report(order[0], v)              # and the first consumer once more
        elif kind == "extjail":                  # (b): jailed by other means earlier in the block
            acts.append([3, v, 1, 1])
            for c in order[:rng.randint(1, ncons)]:
                report(c, v)
        else:
            report(order[0], v)
            report(order[-1], rng.randrange(n))
            acts.append([3, rng.randrange(n), 1, 1])
            report(order[-1], v)
        acts.append([2, rng.choice([10 ** 9, period, period - 1, period + 1])])
        if rng.random() < 0.6:                   # unjail so that the validator is bonded with power again
            acts.append([3, v, 1, 0])
            acts.append([2, 10 ** 9])
    return {"pows": pows, "frac": rng.choice(["1.0", "1.0", "0.5", "0.33"]), "period_ns": period, "cons": cons, "acts": acts}


def gen_provider(rng, tier):
    total = 360 if tier == "quick" else 8000
    yield gen_same_block_case(rng, directed=["multi", "extjail", "multi"])
    for _ in range(60 if tier == "quick" else 1500):
        yield gen_same_block_case(rng)
    for _ in range(total):
        yield gen_provider_case(rng)


def nontrivial_provider(case, inp, obs):
    jailed = 0
    acked = 0
    classes = []
    prev = None
    for op, o in zip(inp[4], obs):
        if op[0] == 1:
            classes.append(o[0])
            if prev is not None and sum(r[2] for r in o[2]) > sum(r[2] for r in prev[2]):
                jailed += 1
        if op[0] == 2 and any(len(e) for e in o[1]):
            acked += 1
        prev = o
    if jailed == 0 and acked == 0:
        return None
    return json.dumps([classes, jailed, acked])


CLAUSES = {1: "a validator was jailed by a slash packet although the property's conditions do not hold, or was not jailed although they hold",
           2: "a validator other than the reported one changed", 3: "the reported validator changed although it was not jailed by this packet (or a double-sign packet changed a validator)",
           4: "slash fraction / jail duration / slashed power differ from the consumer's downtime parameters", 5: "slash ack appended or omitted contrary to the listed cases",
           6: "pending slash acks of another consumer changed", 7: "unexpected acknowledgement class", 8: "slash meter not deducted by the effective power exactly when the packet was handled",
           9: "VSC packet does not carry exactly the pending slash acks / acks consumed without a packet", 99: "observation count differs from the history"}


def describe(codes):
    return "; ".join(CLAUSES.get(c, str(c)) for c in codes)


def histogram(part, c):
    if part == "provider":
        out = ["cons=%d" % len(c["cons"]), "direct" if any(x["direct"] for x in c["cons"]) else "all-real"]
        out += ["recv"] * sum(1 for a in c["acts"] if a[0] == 1)
        return out
    return ["consumer-case"]


from props import c09 as _c09  # noqa: E402  (consumer half is shared with C09)

PARTS = [
    Part("provider", "c08", "slash", gen_provider, nontrivial=nontrivial_provider, describe=describe),
    Part("consumer", "c09", "throttle", _c09.gen_consumer, go_test="TestConsumer",
         nontrivial=_c09.nontrivial_outstanding, describe=_c09.describe_consumer),
]
