"""C04: validator-set cap, priority list and power cap (DESIGN.md 6.4)."""
import json
from check import Part

ID = "C04"
RULE = ("random validator multisets (sizes 1-60; powers from {1, small ties, 2^40..2^55, random}), power caps 0..100, "
        "set caps 0..n+2, top_n in {0,50..100}, random priority lists; a case is non-trivial when a cap actually "
        "changes the set or some power; distinct = distinct (sorted powers, caps, priority pattern)")
ASSUMPTIONS = [
    "powers are >= 1 and their sum is < 2^63 (CometBFT MaxTotalVotingPower); int64 overflow is not modelled",
    "sort.Slice is stable for n <= 12 (insertion sort); for n > 12 only tie-insensitive projections are compared",
]
TRUSTED_BASE = ["modelled: PartitionBasedOnPriorityList, CapValidatorSet, CapValidatorsPower, NoMoreThanPercentOfTheSum, sum "
                "(x/ccv/provider/keeper/power_shaping.go) and their composition order in ComputeNextValidators; "
                "store access of the priority list is exercised by the driver, not modelled"]


def gen_powers(rng, n):
    mode = rng.choice(["small", "ties", "huge", "mixed", "ones", "geometric"])
    out = []
    for i in range(n):
        if mode == "small":
            p = rng.randint(1, 20)
        elif mode == "ties":
            p = rng.choice([5, 5, 5, 7, 100])
        elif mode == "huge":
            p = rng.randint(2 ** 40, 2 ** 55)
        elif mode == "ones":
            p = 1
        elif mode == "geometric":
            p = max(1, int(1000 * (0.7 ** i))) + rng.randint(0, 2)
        else:
            p = rng.choice([1, rng.randint(1, 1000), rng.randint(1, 10 ** 9), 2 ** 40])
        out.append(p)
    return out


def gen(rng, tier):
    total = 4000 if tier == "quick" else 60000
    # exhaustive small block first: n<=4, powers<=4, selected percentages
    small = []
    for n in range(1, 4):
        def rec(prefix):
            if len(prefix) == n:
                for pc in (1, 20, 33, 34, 50, 67, 100):
                    small.append({"vals": [[i + 1, p] for i, p in enumerate(prefix)], "prio": [], "top_n": 0,
                                  "set_cap": 0, "power_cap": pc})
                return
            for p in range(1, 5):
                rec(prefix + [p])
        rec([])
    yield from small
    for _ in range(total):
        n = rng.choice([1, 2, 3, 4, 5, 6, 8, 10, 12, 12, rng.randint(13, 60)]) if rng.random() < 0.9 else rng.randint(1, 12)
        ids = rng.sample(range(1, 200), n)
        powers = gen_powers(rng, n)
        vals = [[i, p] for i, p in zip(ids, powers)]
        prio = [i for i in ids if rng.random() < rng.choice([0, 0.3, 0.8])]
        if rng.random() < 0.2:
            prio += [rng.randint(300, 400)]          # listed but not eligible
        rng.shuffle(prio)
        top_n = 0 if rng.random() < 0.8 else rng.randint(50, 100)
        set_cap = rng.choice([0, 0, rng.randint(1, n + 2)])
        power_cap = rng.choice([0, rng.randint(1, 100), rng.randint(1, 100), rng.choice([1, 5, 33, 34, 50, 99, 100])])
        yield {"vals": vals, "prio": prio, "top_n": top_n, "set_cap": set_cap, "power_cap": power_cap}


def _insens(lst, prio):
    return sorted([[p, 1 if i in prio else 0] for i, p in lst], reverse=True)


def project(case, obs):
    if len(case["vals"]) <= 12:
        return obs
    prio = set(case["prio"])
    nmp, p, np_, capped, shaped, composed = obs
    return [sorted(x[1] for x in nmp), sorted(map(tuple, p), key=lambda x: (-x[1], x[0])) and _insens(p, prio),
            _insens(np_, prio), _insens(capped, prio), sorted(x[1] for x in shaped), sorted(x[1] for x in composed)]


def nontrivial(case, inp, obs):
    nmp, p, np_, capped, shaped, composed = obs
    changed = (len(capped) != len(case["vals"])) or sorted(x[1] for x in shaped) != sorted(x[1] for x in capped)
    if not changed:
        return None
    return json.dumps([sorted(v[1] for v in case["vals"]), case["power_cap"], case["set_cap"], case["top_n"],
                       sorted(1 if v[0] in set(case["prio"]) else 0 for v in case["vals"])])


CLAUSES = {1: "power cap changed the validator identities", 2: "a capped power exceeds floor(p% of total) although achievable",
           3: "total power not preserved although achievable", 4: "a validator was reduced below 1",
           5: "relative order by power not preserved", 6: "cap not achievable but powers are not all equal to max(floor,1)",
           7: "more validators than the validator-set cap", 8: "a validator not in the eligible list (or with changed power) in the capped set",
           9: "an excluded eligible validator outranks an included one", 10: "capped set smaller than min(cap, eligible)",
           11: "ComputeNextValidators: power cap changed the identities of the final set", 12: "ComputeNextValidators: a power exceeds floor(p% of the final set's total) although achievable",
           13: "ComputeNextValidators: total power of the final set not preserved by the power cap", 14: "ComputeNextValidators: a validator reduced below 1",
           15: "ComputeNextValidators: relative order by power not preserved", 16: "ComputeNextValidators: cap not achievable but powers not all equal",
           17: "ComputeNextValidators: more validators than the validator-set cap", 18: "ComputeNextValidators: non-eligible validator in the set",
           19: "ComputeNextValidators: an excluded eligible validator outranks an included one", 20: "ComputeNextValidators: set smaller than min(cap, eligible)"}


def describe(codes):
    return "; ".join(CLAUSES.get(c, str(c)) for c in codes)


def histogram(part, c):
    n = len(c["vals"])
    return ["n<=12" if n <= 12 else "n>12", "power_cap" if c["power_cap"] else "no_power_cap",
            "set_cap" if c["set_cap"] else "no_set_cap", "topn" if c["top_n"] else "optin", "prio" if c["prio"] else "no_prio"]


PARTS = [Part("shape", "c04", "powercap", gen, project=project, nontrivial=nontrivial, describe=describe)]
