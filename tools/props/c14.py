"""C14: only owners, governance and the validator itself can change what is theirs (DESIGN.md 6.14)."""
import json
from check import Part

ID = "C14"
DESIGN_REF = "DESIGN.md 6.14"
RULE = ("histories of real messages through ValidateBasic + msg server + tx rollback: the matrix message type "
        "(create/update/remove consumer, update params, change reward denoms, opt-in/opt-out/assign-key/set-commission, "
        "consumer-chain update params) x sender role (owner, previous owner, other user, gov authority, validator operator, other "
        "validator, upper-case spelling of an address) x phase (registered, initialized, launched, stopped, deleted, unknown id) "
        "x ownership/Top-N history (user, transferred, gov, gov Top-N, gov Top-N handed back), incl. single messages that change owner "
        "and Top-N together in both directions, Top_N in {0,49,50,60,100,101}, invalid/blank new owners, unknown validators, "
        "colliding keys; launched Top-N consumers (launch opts in the top validators; opt-out allowed only below the minimum "
        "power); plus random histories. Non-trivial = a case with an unauthorized / Top-N-rule / ValidateBasic rejection "
        "or an ownership transfer; distinct = distinct set of (message type, result class, phase)")
ASSUMPTIONS = [
    "an account is identified with its address string (the code compares strings); accounts of the matrix are the authority, "
    "users, validator operator accounts and upper-case spellings",
    "tx rollback on error/panic is baseapp's (harness Deliver = ValidateBasic, CacheContext, write on success)",
    "staking has at least one bonded validator (ComputeMinPowerInTopN fails on an empty set); signature verification of the "
    "signer field (cosmos.msg.v1.signer) is the SDK's ante handler and is not exercised",
]
TRUSTED_BASE = ["modelled: ValidateBasic of the provider messages (validateProviderAddress, Top_N range), CreateConsumer, UpdateConsumer "
                "(owner check, owner transfer, Top-N pre/post checks in code order), RemoveConsumer, UpdateParams, ChangeRewardDenoms, "
                "OptIn/OptOut/AssignConsumerKey/SetConsumerCommissionRate incl. Keeper.AssignConsumerKey's key-collision rules, consumer "
                "UpdateParams; launch/delete are environment ops with oracle outcome (BeginBlock on the real keeper); metadata, chain id, "
                "allow/deny lists, infraction parameters and the validator-set computation are not modelled"]

UNBOND = 21 * 86400
HISTS = ["user", "transferred", "gov", "govtopn", "govback"]
PHASES = ["registered", "initialized", "launched", "stopped", "deleted"]


def prefix(phase, hist, rng):
    """history reaching (phase, ownership history) for consumer 0; returns (actions, owner, prev)"""
    acts = [[1, 1, -1, 0]]
    owner, prev = 1, 1
    if hist == "transferred":
        acts.append([2, 0, 1, 2, -1, 0]); owner, prev = 2, 1
    if hist in ("gov", "govtopn", "govback"):
        acts.append([2, 0, 1, 0, -1, 0]); owner, prev = 0, 1
    if hist in ("govtopn", "govback"):
        acts.append([2, 0, 0, -1, rng.choice([50, 60, 100]), 0])
    if hist == "govback":
        # one message: new owner and Top_N = 0 together
        acts.append([2, 0, 0, 3, 0, 0]); owner, prev = 3, 0
    pi = PHASES.index(phase)
    if pi >= 1:
        acts.append([2, 0, owner, -1, -1, 1])
    if pi >= 2:
        acts.append([6, 0, 0, 10, rng.choice([0, 1])])
        acts.append([10, 10])
    if pi >= 3:
        acts.append([3, 0, owner])
    if pi >= 4:
        acts.append([10, UNBOND + 10])
    return acts, owner, prev


def probes(rng, nvals, owner, prev, c):
    """one probe of every message type from every sender role"""
    roles = [owner, prev, 4, 0, 10, 11, 20 + owner if owner < 20 else owner]
    out = []
    for s in roles:
        out.append([2, c, s, -1, -1, 0])
        out.append([2, c, s, rng.choice([5, 0, 20, s, -3, -2]), -1, 0])
        out.append([2, c, s, -1, rng.choice([0, 49, 50, 60, 100, 101]), 0])
        out.append([2, c, s, rng.choice([5, 0, 20, 1]), rng.choice([0, 60, 100]), rng.choice([0, 0, 1, 2])])
        out.append([2, c, s, -1, -1, rng.choice([1, 2])])
        out.append([3, c, s])
        out.append([4, s, rng.choice([700, 800, 0])])
        out.append([5, s, rng.sample([1, 2, 3], rng.randint(0, 2)), rng.sample([1, 2, 3, 4], rng.randint(0, 2))])
        out.append([11, s, rng.choice([900, 1100, 0])])
        out.append([1, s, rng.choice([-1, -1, 0, 60]), rng.choice([0, 1, 2])])
        for tag in (6, 7, 8, 9):
            v = rng.choice([0, 0, 1, nvals, -1] if s < 10 or s > 19 else [s - 10, s - 10, s - 10, 0, 1])
            arg = {6: rng.choice([0, 0, 1, 2, 1000 + max(v, 0), 1001]), 8: rng.choice([0, 1, 2, 3, 1000 + max(v, 0), 1001]),
                   9: rng.choice([0, 3, 5, 10, 100, 101, -1])}.get(tag)
            out.append([tag, c, v, s] + ([arg] if arg is not None else []))
    # the validators themselves (valid signer), incl. colliding keys and own / foreign provider keys
    for v in range(nvals):
        for tag in rng.sample([6, 7, 8, 8, 9], 3):
            arg = {6: rng.choice([0, 1, 2, 1000 + v]), 8: rng.choice([1, 2, 3, 4, 1000 + v, 1000 + (v + 1) % nvals]),
                   9: rng.choice([0, 4, 5, 10, 100])}.get(tag)
            out.append([tag, c, v, 10 + v] + ([arg] if arg is not None else []))
    return out


def both_ways(rng):
    """single messages that change owner and Top-N together, in both directions"""
    n = rng.choice([50, 60, 100])
    yield {"kind": "both", "acts": [[1, 1, -1, 0], [2, 0, 1, 0, -1, 0], [2, 0, 0, -1, n, 0],
                                    [2, 0, 0, 2, -1, 0],        # Top-N chain, new owner only: refused
                                    [2, 0, 0, 20, -1, 0],       # ... to the upper-case spelling of gov: refused
                                    [2, 0, 0, 2, 49, 0],        # out of range
                                    [2, 0, 0, 2, 0, 0],         # owner -> user and Top_N -> 0 at once: accepted
                                    [2, 0, 0, -1, n, 0],        # old owner (gov) can no longer touch it
                                    [2, 0, 2, 0, n, 0],         # user: owner -> gov and Top_N at once: refused (old owner checked)
                                    [2, 0, 2, -1, n, 0],        # user-owned cannot be Top N
                                    [2, 0, 2, 0, -1, 0],        # hand to gov
                                    [2, 0, 0, 0, n, 0],         # gov: owner -> gov (same) and Top_N: accepted
                                    [2, 0, 0, 2, n, 0]]}        # gov: owner -> user keeping Top_N: refused by the post check
    yield {"kind": "both", "acts": [[1, 0, 60, 0], [1, 0, 0, 1], [2, 0, 0, -1, 60, 0], [2, 0, 0, 1, 0, 2], [2, 0, 1, 0, 60, 1],
                                    [2, 0, 1, 20, -1, 0], [2, 0, 20, -1, 60, 0], [2, 0, 0, -1, 60, 0], [2, 0, 20, 0, -1, 0],
                                    [2, 0, 0, -1, 100, 0], [2, 0, 0, 0, 0, 0], [2, 0, 0, 1, -1, 0]]}


def topn_launched(rng, nvals):
    """a launched Top-N consumer (the launch opts in the top validators) and the validators' own messages on it"""
    n = rng.choice([50, 60, 100])
    acts = [[1, 1, -1, 0], [2, 0, 1, 0, -1, 0]]
    if rng.random() < 0.5:
        acts += [[6, 0, 0, 10, rng.choice([0, 1])]]
    acts += [[2, 0, 0, -1, n, 1], [10, 10]]
    for _ in range(rng.randint(10, 22)):
        r = rng.random()
        v = rng.randrange(nvals)
        sg = 10 + v if rng.random() < 0.85 else rng.choice([0, 1, 10 + (v + 1) % nvals, 30 + v])
        if r < 0.35:
            acts.append([7, 0, v, sg])
        elif r < 0.5:
            acts.append([6, 0, v, sg, rng.choice([0, 0, 1, 2, 1000 + v])])
        elif r < 0.65:
            acts.append([8, 0, v, sg, rng.choice([1, 2, 3, 1000 + v, 1000 + (v + 1) % nvals])])
        elif r < 0.75:
            acts.append([9, 0, v, sg, rng.choice([0, 5, 10, 100])])
        elif r < 0.9:
            acts.append([2, 0, rng.choice([0, 0, 1, 20]), rng.choice([-1, -1, 1, 0]), rng.choice([-1, 0, n, 50, 100, 49]), rng.choice([0, 0, 1])])
        elif r < 0.95:
            acts.append([3, 0, rng.choice([0, 1])])
        else:
            acts.append([10, rng.choice([1, UNBOND + 10])])
    return acts


def rand_history(rng, nvals):
    acts = []
    ncons = 0
    accts = [0, 1, 2, 3, 10, 11, 20, 21]
    for _ in range(rng.randint(12, 34)):
        r = rng.random()
        s = rng.choice(accts)
        c = rng.randint(0, max(ncons, 1)) if rng.random() < 0.95 else -1
        if r < 0.10 or ncons == 0:
            acts.append([1, s, rng.choice([-1, -1, -1, 0, 60]), rng.choice([0, 0, 1, 2])]); ncons += 1
        elif r < 0.45:
            acts.append([2, c, s, rng.choice([-1, -1, -1, 0, 0, 1, 2, 3, 20, -2, -3]), rng.choice([-1, -1, -1, 0, 50, 60, 100, 49, 101]),
                         rng.choice([0, 0, 0, 1, 2])])
        elif r < 0.52:
            acts.append([3, c, s])
        elif r < 0.57:
            acts.append([4, s, rng.choice([0, 600, 700, 800])])
        elif r < 0.62:
            acts.append([5, s, rng.sample([1, 2, 3], rng.randint(0, 2)), rng.sample([1, 2, 3], rng.randint(0, 2))])
        elif r < 0.65:
            acts.append([11, s, rng.choice([0, 900, 1000])])
        elif r < 0.90:
            v = rng.choice([0, 1, 2, nvals, -1])
            sg = rng.choice([10 + max(v, 0)] * 4 + [s, 30 + max(v, 0)])
            tag = rng.choice([6, 6, 7, 8, 8, 9])
            arg = {6: rng.choice([0, 0, 1, 2, 3, 1000, 1001]), 8: rng.choice([1, 2, 3, 4, 1000, 1001, 1002, 0]),
                   9: rng.choice([0, 4, 5, 10, 50, 100, 101])}.get(tag)
            acts.append([tag, c, v, sg] + ([arg] if arg is not None else []))
        else:
            acts.append([10, rng.choice([1, 10, 10, UNBOND, UNBOND + 10])])
    return acts


def mk(rng, kind, acts, nvals=None):
    return {"kind": kind, "nvals": nvals or rng.choice([1, 2, 3, 4]), "minrate": rng.choice([0, 5, 5]), "params0": 600, "cparams0": 1000,
            "actions": acts}


def gen(rng, tier):
    reps, nrand, ntop = (4, 360, 60) if tier == "quick" else (40, 6000, 800)
    for b in both_ways(rng):
        yield mk(rng, "both", b["acts"])
    for _ in range(reps):
        for phase in PHASES:
            for hist in HISTS:
                nvals = rng.choice([2, 3, 4])
                pre, owner, prev = prefix(phase, hist, rng)
                pool = probes(rng, nvals, owner, prev, rng.choice([0, 0, 0, 0, 1, -1]))
                rng.shuffle(pool)
                yield mk(rng, phase + "/" + hist, pre + pool[:rng.randint(14, 26)], nvals)
    for _ in range(ntop):
        nvals = rng.choice([2, 3, 4, 4])
        yield mk(rng, "topn-launched", topn_launched(rng, nvals), nvals)
    for _ in range(nrand):
        nvals = rng.choice([1, 2, 3, 4])
        yield mk(rng, "random", rand_history(rng, nvals), nvals)


def nontrivial(case, inp, obs):
    seen = set()
    interesting = False
    phases = {}
    for act, o in zip(inp[1], obs):
        tag, cls = act[0], o[0]
        ph = -1
        if tag in (2, 3, 6, 7, 8, 9) and 0 <= act[1] < len(o[1]):
            ph = phases.get(act[1], 0)
        seen.add((tag, cls, ph))
        if cls in (1, 2, 4) or (tag == 2 and cls == 0 and act[3] >= 0):
            interesting = True
        phases = {i: c[0] for i, c in enumerate(o[1])}
    if not interesting:
        return None
    return json.dumps(sorted(seen))


CLAUSES = {1: "a rejected message changed the state (observables or raw store)",
           2: "owner or Top_N of a consumer changed without a successful update sent by its owner (owner: naming the new owner), or a consumer disappeared",
           3: "a consumer has Top_N != 0 although it is not owned by the authority or Top_N is outside 50..100",
           4: "a consumer appeared other than by a successful create owned by the creator with Top_N = 0",
           5: "provider params / reward denoms / consumer params changed by something else than a successful authority message",
           6: "a validator message succeeded with signer != operator, or changed records of another validator / consumer / global state",
           7: "update/remove succeeded for a sender that is not the current owner",
           99: "observation stream does not match the action stream"}


def describe(codes):
    return "; ".join(CLAUSES.get(c, str(c)) for c in sorted(set(codes)))


def histogram(part, c):
    out = [c["kind"].split("/")[0]]
    if "/" in c["kind"]:
        out.append("hist:" + c["kind"].split("/")[1])
    names = {1: "create", 2: "update", 3: "remove", 4: "params", 5: "denoms", 6: "optin", 7: "optout", 8: "assignkey", 9: "commission",
             10: "tick", 11: "cparams"}
    out += sorted({"msg:" + names[a[0]] for a in c["actions"]})
    return out


LEVEL_TEXT = "proof"
LEVEL_NOTE = ("all clauses proved for arbitrary message sequences on the model that the correspondence runs; rollback of rejected messages "
              "is the model's step semantics and is checked against the real store on every rejected message")

PARTS = [Part("matrix", "c14", "auth", gen, nontrivial=nontrivial, describe=describe)]
