"""C11: stopped consumers get no updates and are removed after the unbonding period (DESIGN.md 6.11).

Same Go driver (harness/c10) and model component (lifecycle) as C10; the generator concentrates on the ways and
times of stopping and on the block times around the removal time."""
import json
from check import Part
from props import c10 as base

ID = "C11"
DESIGN_REF = "DESIGN.md 6.11"
RULE = ("histories that launch 1-6 consumers (opt-ins, keys, extra per-consumer records), establish channels, produce "
        "validator-set changes and epochs (packets queued/sent), then stop consumers by owner message, packet timeout, error "
        "acknowledgement (also repeated, at the same and at later times) and send failure (closed channel), let handshakes "
        "complete after the stop, and advance block time to removal time -1/0/+1 ns and beyond; plus histories with 201-230 "
        "consumers stopped in the same block (200-limit carry-over); non-trivial = some consumer stopped; distinct = "
        "distinct (stop causes, repeated stops, deletions, packets, result codes)")
ASSUMPTIONS = base.ASSUMPTIONS
TRUSTED_BASE = base.TRUSTED_BASE
Gen = base.Gen


def launch_some(g, rng, n, quiet=False):
    ids = []
    for i in range(n):
        c = g.create(spawn=g.now + rng.choice([-1, 0, 1]), rev=1, hrev=1, conn=0, owner=1 + i % 3)
        ids.append(c)
        g.optin(c, v=rng.choice([2, 3]), key=1 if rng.random() < 0.4 else 0)
        if rng.random() < 0.5:
            g.optin(c, v=rng.choice([0, 1, 2, 3]), key=0)
        for _ in range(rng.choice([0, 0, 1, 2])):
            g.decorate(c)
    g.begin(dt=1)
    for c in ids:
        if rng.random() < 0.85:
            g.channel(c)
    return ids


def pending_removals(g):
    return sorted({c["rt"] for c in g.cons if c["phase"] == 4 and "rt" in c})


def stop_history(rng):
    U = rng.choice([30, 50, 100])
    g = Gen(rng, U)
    ids = launch_some(g, rng, rng.randint(1, 6))
    for _ in range(rng.choice([8, 15, 25, 40])):
        k = rng.random()
        launched = [i for i in ids if g.cons[i]["phase"] == 3]
        stopped = [i for i in ids if g.cons[i]["phase"] == 4]
        if k < 0.14:
            g.world(kind=1)
            g.end()
        elif k < 0.22:
            g.end()
        elif k < 0.34 and launched:
            cause = rng.choice(["owner", "timeout", "ack", "send"])
            c = rng.choice(launched)
            if cause == "owner":
                g.stop_owner(c)
            elif cause == "send":
                g.ops.append([11, 2, c])                  # close the channel, then produce a packet
                g.world(kind=1)
                g.end()
                if g.cons[c]["chan"]:
                    g.cons[c]["phase"], g.cons[c]["rt"] = 4, g.now + U
            else:
                g.packet_failure(c, kind=9 if cause == "timeout" else 10)
        elif k < 0.44 and stopped:
            g.packet_failure(rng.choice(stopped))         # another in-flight packet times out
        elif k < 0.50 and (launched or stopped):
            g.channel(rng.choice(launched + stopped))     # handshake completes (possibly after the stop)
        elif k < 0.55:
            g.decorate(rng.choice(ids))
        elif k < 0.60:
            g.optin(rng.choice(ids))
        elif k < 0.64:
            c = rng.choice(ids)
            g.update(c, sender=g.cons[c]["owner"])
        elif k < 0.67:
            g.remove(rng.choice(ids))
        elif k < 0.70:
            g.ops.append([11, 3, rng.choice(ids), rng.randint(0, 1)])
        elif k < 0.74:
            ids += launch_some(g, rng, 1)
        else:
            rts = pending_removals(g)
            if rts and rng.random() < 0.75:
                target = rng.choice(rts) + rng.choice([-1, 0, 0, 1])
                dt = max(0, target - g.now)
            else:
                dt = rng.choice([0, 1, 3, 10, U - 1, U, U + 1])
            g.begin(dt=dt)
    # drain: everything stopped gets its removal block
    for _ in range(2):
        g.begin(dt=g.U + 1)
    return g.case(epoch=rng.choice([1, 1, 2]))


def big_stop_history(rng):
    g = Gen(rng, 50)
    n = rng.randint(201, 230)
    for i in range(n):
        g.create(spawn=g.now, rev=1, hrev=1, conn=0, owner=1)
        g.optin(i, v=3, key=0)
    mark = len(g.ops)
    g.begin(dt=1)
    g.begin(dt=1)                                          # the 200-limit needs two blocks to launch them all
    for c in g.cons:
        c["phase"], c["client"] = 3, True
    for i in range(0, n, 9):
        g.channel(i)
    g.world(kind=1)
    g.end()
    mark2 = len(g.ops)
    for i in range(n):
        g.stop_owner(i)
    for i in range(0, n, 27):
        g.packet_failure(i, kind=9)
    mark3 = len(g.ops)
    g.world(kind=1)
    g.end()
    g.begin(dt=49)
    g.begin(dt=1)                                          # first 200 removals
    g.begin(dt=0)                                          # the carry-over
    g.begin(dt=1)
    base.quieten(g.ops, list(range(mark)) + list(range(mark2, mark3)), 40)
    return g.case()


def gen(rng, tier):
    total = 350 if tier == "quick" else 5000
    for _ in range(total):
        yield stop_history(rng)
    for _ in range(40 if tier == "quick" else 400):
        yield base.random_history(rng, rng.choice([15, 30, 60]), W_STOP)
    for _ in range(2 if tier == "quick" else 10):
        yield big_stop_history(rng)


W_STOP = {"create": 14, "update": 8, "optin": 16, "begin": 20, "end": 10, "remove": 10, "channel": 10, "pfail": 10,
          "decorate": 5, "world": 6}


def nontrivial(case, inp, obs):
    if not obs or obs == [-999] or not isinstance(obs[0], list):
        return None
    ops = [o for o in inp[1] if o[0] > 0]
    prev, causes, restops, deleted, packets = {}, set(), 0, 0, 0
    for op, st in zip(ops, obs[0]):
        for c in st[2]:
            p = prev.get(c[0], (0, 0, 0))
            if p[0] == 3 and c[1] == 4:
                causes.add(op[0])
            if p[0] == 4 and c[1] == 4 and p[1] != c[3]:
                restops += 1
            if p[0] == 4 and c[1] == 5:
                deleted += 1
            if c[10] > p[2]:
                packets += 1
            prev[c[0]] = (c[1], c[3], c[10])
    if not causes:
        return None
    codes = sorted({(op[0], st[0]) for op, st in zip(ops, obs[0])})
    return json.dumps([sorted(causes), min(restops, 3), min(deleted, 3), min(packets, 3), codes])


def histogram(part, c):
    n = sum(1 for o in c["ops"] if abs(o[0]) == 1)
    stops = sum(1 for o in c["ops"] if abs(o[0]) in (3, 9, 10))
    return ["consumers<=10" if n <= 10 else "consumers<=200" if n <= 200 else "consumers>200",
            "stop-actions=0" if stops == 0 else "stop-actions<=3" if stops <= 3 else "stop-actions>3"]


describe = base.describe
PARTS = [Part("stops", "c10", "lifecycle", gen, project=base.project, nontrivial=nontrivial, describe=describe)]

# ---- composed model (Model/VscLifecycle.v = Lifecycle x Vsc): theorems in Props/C11System.v, part "system" in harness/c11sys/part.py
EXTRA_PROPS = ["C11System"]
import importlib.util as _ilu, os as _os
_spec = _ilu.spec_from_file_location("c11sys_part", _os.path.join(_os.path.dirname(_os.path.abspath(__file__)), "..", "..", "harness", "c11sys", "part.py"))
_c11sys = _ilu.module_from_spec(_spec); _spec.loader.exec_module(_c11sys)
PARTS.append(_c11sys.PART)
