"""C01: consumer validator sets replicate the provider's decisions, in order (DESIGN.md 6.1).
Also hosts the shared history generator of C12 (same Go package c01, same model component vsc)."""
import json
from check import Part

ID = "C01"
DESIGN_REF = "6.1"
RULE = ("histories over the real provider keeper and 1-3 real consumer keepers: 3-7 validators with random powers, "
        "staking churn (power changes, jailing, leaving/entering the bonded set), opt-in/opt-out, consumer key "
        "assignments, power-shaping updates; relay schedules immediate / delayed k epochs / burst of all pending "
        "packets into one consumer block / channel opened after 1-20 epochs; injected SendPacket faults, expired "
        "clients, MsgRemoveConsumer, consumer restarts from exported genesis.  Non-trivial = some consumer adopted >= 3 distinct sets and some consumer block "
        "received >= 2 packets; distinct = distinct sequence of adopted sets")
ASSUMPTIONS = [
    "every set computed by ComputeNextValidators has pairwise distinct consumer keys (C05) and positive powers "
    "(checked on every run: monitor clause 1)",
    "IBC: ordered channel = FIFO; a client's status does not change inside one EndBlock, so ErrClientNotActive can "
    "only be returned by the first SendPacket call of a SendVSCPacketsToChain loop (the refuted variant is "
    "C01_midloop_expiry_refuted)",
    "block heights grow by one per block on both chains; BeginBlock precedes the transactions of a block",
    "valset update ids start at >= 1 (genesis default)",
    "a consumer restart (ExportGenesis, then InitGenesis of a fresh keeper with NewChain = false at the same height) is the "
    "identity on the modelled consumer state; export/import of the other consumer stores (pending consumer packets, "
    "outstanding downtime flags, last transmission height, parameters) is taken from the code, the slash record is not "
    "exported; restarts happen between two consumer blocks (no pending changes)",
]
TRUSTED_BASE = [
    "modelled: DiffValidators, the stored-set replacement of ComputeConsumerNextValSet, QueueVSCPackets, "
    "AppendPendingVSCPackets, SendVSCPackets/SendVSCPacketsToChain, IncrementValidatorSetUpdateId, EndBlockCIS, "
    "SetConsumerChain, getMappedInfractionHeight/ValidateSlashPacket, StopAndPrepareForConsumerRemoval (phase only), "
    "AccumulateChanges, OnRecvVSCPacket, ApplyCCValidatorChanges, consumer BeginBlock/EndBlock, InitGenesis (initial set), "
    "SlashWithInfractionReason (id lookup); oracle: the set computed by ComputeNextValidators, epoch flag, outcome of SendPacket",
    "not modelled: slash acks inside VSC packets, consumer removal after the unbonding period, error acknowledgements of VSC packets, "
    "the order of updates inside one update list (C18); keys are small integers (table built from common.Key(n))",
]

A_PEND, A_STAKE, A_JAIL, A_OPTIN, A_OPTOUT, A_ASSIGN, A_SHAPE, A_OPEN, A_EXPIRE, A_FAULT, A_STOP, A_CBLOCK, A_RELAY, A_FORGE, A_RESTART = range(1, 16)


def gen_case(rng, prop, tier):
    c12 = prop == 12
    nvals = rng.randint(3, 7)
    powers = [rng.randint(1, 40) for _ in range(nvals)]
    ncons = rng.choice([1, 1, 2, 3])
    bpe = rng.randint(1, 5) if c12 else rng.choice([1, 1, 1, 2, 3])
    cons = []
    for c in range(ncons):
        optin = [v for v in range(nvals) if rng.random() < 0.7] or [rng.randrange(nvals)]
        cons.append({
            "spawn": rng.randint(1, 3), "optin": optin,
            "set_cap": rng.choice([0, 0, rng.randint(1, nvals)]),
            "power_cap": rng.choice([0, 0, rng.randint(34, 100)]),
            "allow_inactive": rng.random() < 0.5,
            "assign": [[v, rng.randint(1, 60)] for v in optin if rng.random() < 0.3],
        })
    max_vals = rng.choice([0, 0, max(2, nvals - 1), max(2, nvals - 2)])
    acts = []
    nblocks = rng.randint(12, 40) if tier == "quick" else rng.randint(12, 80)
    sched = []
    for c in range(ncons):
        mode = rng.choice(["immediate", "delayed", "burst", "late", "random"])
        open_at = rng.randint(3, 6) if mode != "late" else min(nblocks - 2, 3 + bpe * rng.randint(1, 20))
        sched.append({"mode": mode, "open": open_at, "lag": rng.randint(1, 4) * bpe, "burst": rng.randint(open_at + 2, nblocks),
                      "expired": False})
    churn = rng.choice([0.3, 0.6, 0.9])
    slash_p = 0.8 if c12 else 0.1
    for b in range(1, nblocks + 1):
        # transactions of provider block b
        while rng.random() < churn:
            r = rng.random()
            v = rng.randrange(nvals)
            c = rng.randrange(ncons)
            if r < 0.45:
                acts.append([A_STAKE, v, rng.choice([0, rng.randint(1, 40), rng.randint(1, 40), powers[v]])])
            elif r < 0.55:
                acts.append([A_JAIL, v, rng.choice([0, 1])])
            elif r < 0.65:
                acts.append([A_OPTIN, c, v])
            elif r < 0.75:
                acts.append([A_OPTOUT, c, v])
            elif r < 0.9:
                acts.append([A_ASSIGN, c, v, rng.randint(1, 60)])
            else:
                acts.append([A_SHAPE, c, rng.choice([0, rng.randint(1, nvals)]), rng.choice([0, rng.randint(34, 100)]), rng.choice([0, 1])])
        for c in range(ncons):
            s = sched[c]
            if b == s["open"] or (b > s["open"] and rng.random() < 0.02):
                acts.append([A_OPEN, c])
            if s["expired"]:
                if rng.random() < 0.5:
                    s["expired"] = False
                    acts.append([A_EXPIRE, c, 0])
            elif rng.random() < 0.04:
                s["expired"] = True
                acts.append([A_EXPIRE, c, 1])
            if rng.random() < 0.004 and b > 8:
                acts.append([A_STOP, c])
            if rng.random() < (0.25 if c12 else 0.05):
                acts.append([A_RELAY, c, rng.randint(1, 3)])
            if c12 and rng.random() < 0.25:
                mode = rng.choice([0, 1, 1, 1])
                val = rng.choice([0, 0, 1, 2, rng.randint(0, 12)]) if mode == 0 else rng.choice([0, 0, 1, 2, -1, -1, -2, -3, 5])
                acts.append([A_FORGE, c, mode, val, rng.choice([-1, -1, rng.randrange(nvals)]), rng.choice([1, 2])])
        if rng.random() < 0.012:
            acts.append([A_FAULT, rng.randint(0, 3)])
        acts.append([A_PEND])
        # consumer blocks
        for c in range(ncons):
            s = sched[c]
            nb = rng.choice([1, 1, 1, 0, 2])
            for _ in range(nb):
                if s["mode"] == "immediate" or s["mode"] == "late":
                    nd = -1
                elif s["mode"] == "delayed":
                    nd = 1 if b > s["open"] + s["lag"] else 0
                elif s["mode"] == "burst":
                    nd = -1 if (b >= s["burst"] or b == nblocks) else 0
                else:
                    nd = rng.choice([-1, 0, 0, 1, 2, 3])
                a = [A_CBLOCK, c, nd]
                while rng.random() < slash_p and len(a) < 3 + 3 * 4:
                    a += [rng.choice([-1, 0, 0, 1, 1, 2, 3, rng.randint(0, 30)]), rng.choice([-1, rng.randrange(nvals), rng.randrange(nvals)]), rng.choice([1, 1, 2])]
                acts.append(a)
                # the consumer chain is restarted from its exported genesis between two of its blocks
                if b > s["open"] + 1 and rng.random() < (0.07 if c12 else 0.03):
                    acts.append([A_RESTART, c])
    # drain: everybody receives what is in flight
    for c in range(ncons):
        acts.append([A_CBLOCK, c, -1])
        acts.append([A_RELAY, c, 5])
    return {"prop": prop, "nvals": nvals, "powers": powers, "max_vals": max_vals, "bpe": bpe, "cons": cons, "acts": acts}


def gen(rng, tier):
    n = 200 if tier == "quick" else 4000
    for _ in range(n):
        yield gen_case(rng, 1, tier)


def _streams(inp, obs):
    for inst, o in zip(inp[1], obs):
        yield inst, list(zip(inst[5], o))


def nontrivial(case, inp, obs):
    if not inp or len(inp) < 2:
        return None
    best = None
    multi = False
    for inst, st in _streams(inp, obs):
        sets, recv_in_block = [], 0
        for op, o in st:
            if op[0] == 4:
                recv_in_block = 0
            elif op[0] == 3 and o[0] >= 0:
                recv_in_block += 1
                multi = multi or recv_in_block >= 2
            elif op[0] == 5:
                s = json.dumps(o[1])
                if not sets or sets[-1] != s:
                    sets.append(s)
        if len(set(sets)) >= 3 and (best is None or len(sets) > len(best)):
            best = sets
    if best is None or not multi:
        return None
    return json.dumps(best)


CLAUSES = {
    1: "oracle hypothesis violated: a computed consumer set has duplicate consumer keys or a non-positive power",
    2: "the set handed to the consensus engine differs from the consumer's stored set",
    3: "packets were not delivered in the order produced (delivered ids are not a prefix of the produced ids)",
    4: "ids of produced packets are not strictly increasing",
    5: "the provider's stored consumer set changed without a packet being produced",
    6: "more than one packet produced for a consumer in one block",
    7: "a delivered packet is not the next packet sent, or its updates do not lead from the previous provider set to the next one",
    8: "the consumer's set after EndBlock is not the provider set carried by the last packet received (or the launch set)",
    9: "pending changes not deleted by the consumer EndBlock",
    11: "valset update id did not grow by exactly one in an epoch block / by zero otherwise",
    12: "packet ids not strictly increasing or not equal to the epoch's update id",
    13: "an issued id does not map to 1 + the height of the block in which it was issued",
    14: "consumer height -> id map is not the id of the last packet received in an earlier block",
    15: "slash packet does not carry the id associated with the infraction height",
    16: "provider mapped a slash packet id to the wrong height / rejected a known id / wrong channel-opening height",
    17: "a slash packet with an id above the provider's current id was accepted",
    18: "a slash packet carrying an id the provider never issued (>= its current valset update id) was not answered with an error",
}


def describe(codes):
    return "; ".join(CLAUSES.get(c, str(c)) for c in codes)


def histogram(part, c):
    out = ["cons=%d" % len(c["cons"]), "bpe=%d" % c["bpe"]]
    kinds = {a[0] for a in c["acts"]}
    for k, name in ((A_FAULT, "fault"), (A_EXPIRE, "expire"), (A_STOP, "stop"), (A_FORGE, "forge"), (A_SHAPE, "shape"), (A_RESTART, "restart")):
        if k in kinds:
            out.append(name)
    return out


PARTS = [Part("replication", "c01", "vsc", gen, nontrivial=nontrivial, describe=describe)]

# ---- composed model (Model/System.v = Eligibility x Vsc): theorems in Props/C01System.v, part "system" in harness/c01sys/part.py
EXTRA_PROPS = ["C01System"]
import importlib.util as _ilu, os as _os
_spec = _ilu.spec_from_file_location("c01sys_part", _os.path.join(_os.path.dirname(_os.path.abspath(__file__)), "..", "..", "harness", "c01sys", "part.py"))
_c01sys = _ilu.module_from_spec(_spec); _spec.loader.exec_module(_c01sys)
PARTS.append(_c01sys.PART)
