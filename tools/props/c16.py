"""C16: rewards are conserved end to end and reach only eligible validators (DESIGN.md 6.16)."""
import json
import os
from check import Part

ID = "C16"
DESIGN_REF = "6.16, 9.4"
RULE = ("histories over one provider (real keeper + real transfer middleware) and 1-3 consumer chains (real consumer keeper): "
        "consumer blocks with fees (0, small, 10^3..10^9, 10^18..10^25 base units; 3 denoms), fractions {0, .25, .75, 1, 1/3, random 18 digits}, "
        "transmission periods 1-5, channel open/closed/try-open, failing transfers, relays with success/error acknowledgement, timeouts, "
        "spoofed/legacy/foreign memos, non-pool receivers, non-consumer channels, direct credits consistent and inconsistent with the pool, "
        "validator-set changes (direct with join heights at the eligibility boundary +-1, and through CreateConsumerValidator), commission "
        "messages (valid, below min, >1, unknown validator/consumer), reward-denom messages (authority/wrong authority/malformed), "
        "allowlists, epoch params, failing bank/distribution/staking calls. Non-trivial = a BeginBlock paid validators or a consumer "
        "transmitted; distinct = distinct (payout blocks, transmissions, credited relays, final outstanding rewards)")
ASSUMPTIONS = [
    "amounts, powers >= 0; community tax, commission rates and the consumer fraction are in [0,1] (enforced by the SDK/ICS param validation); "
    "int64 overflow of heights/powers is not modelled",
    "bank: SendCoinsFromModuleToModule / FundCommunityPool fail exactly on insufficient funds or an injected fault; "
    "x/distribution: AllocateTokensToValidator adds tokens to outstanding rewards and tokens.MulDec(commission) to the accumulated "
    "commission, FundCommunityPool moves the coins into the distribution module account (as in cosmos-sdk v0.53 allocation.go/keeper.go); "
    "ICS-20: a sent transfer is escrowed and refunded on timeout / error acknowledgement, the receiver is credited on success under the "
    "denom ibc-go v10 computes (ExtractDenomFromPath, Denom.HasPrefix, IBCDenom are called by the driver's stub application)",
    "consumer ids < 10 (store order of decimal strings = numeric order)",
    "denomination strings are mapped to indices by the driver (sorted strings = store order); GetProviderDenom is modelled on "
    "'/'-separated segments, sha256 is abstracted by an injective per-case table (key -> denom id) computed by the driver with the real hash; "
    "packet denoms have a non-empty base and (default generator) no client-id segment",
]
TRUSTED_BASE = [
    "modelled: consumer EndBlockRD/DistributeRewardsInternally/shouldSendRewardsToProvider/SendRewardsToProvider/AllowedRewardDenoms; "
    "provider IBCMiddleware.OnRecvPacket, IdentifyConsumerIdFromIBCPacket, BeginBlockRD/AllocateTokens/AllocateConsumerRewards/"
    "AllocateTokensToConsumerValidators/IsEligibleForConsumerRewards/ComputeConsumerTotalVotingPower, ChangeRewardDenoms, "
    "HandleSetConsumerCommissionRate, CreateConsumerValidator's JoinHeight rule",
    "store-backed fakes of bank, x/distribution and the ICS-20 keeper in harness/c16/fakes_test.go (state in the same multistore, so "
    "CacheContext rollback applies to them as to the real modules)",
]
LEVEL_NOTE = ("the clause 'rounding remainders go to the community pool or stay credited' is refuted by the model and reproduced on the real "
              "code (C16_remainder_refuted, known finding C16-allocation-dust: per-validator truncation dust stays in the distribution "
              "module account unrecorded, bound proved in C16_remainder); the forfeited credit on a failing FundCommunityPool was fixed "
              "in /repo 2504227 (C16_failed_community_funding_keeps_credit, corpus/C16/forfeit_on_community_pool_failure.json)")

P = 10 ** 18
# a finding candidate awaiting triage by the lead is only generated on request (see the final report):
# vouchers whose first remaining hop is an IBC v2 client id (07-tendermint-N)
PENDING = os.environ.get("VERIF_C16_PENDING") == "1"


def amount(rng, mode):
    if mode == "mixed":
        mode = rng.choice(["small", "mid", "huge"])
    if mode == "small":
        return rng.choice([0, 1, 2, 3, 7, 10, rng.randint(0, 50)])
    if mode == "mid":
        return rng.choice([999, 10 ** 6, rng.randint(10 ** 3, 10 ** 9)])
    return rng.choice([10 ** 18, 10 ** 24, rng.randint(10 ** 18, 10 ** 25)])


def frac(rng):
    return rng.choice([0, P // 4, 3 * P // 4, P, P // 3, rng.randint(0, P), 1, P - 1])


def rate(rng):
    return rng.choice([0, P // 10, P // 20, P // 2, P, rng.randint(0, P), 333333333333333333])


def gen_case(rng, tier):
    nc = rng.choice([1, 2, 2, 3])
    nv = rng.choice([2, 3, 4])
    mode = rng.choice(["small", "mid", "huge", "mixed", "mixed"])
    syms = [0, 1, 2] + [10 + i for i in range(2 * nc)] + [10 + 2 * nc] + [30 + i for i in range(nc + 1)]
    cons = []
    for c in range(nc):
        fl = [1, 1, 1, 1]
        if rng.random() < 0.12:
            fl[rng.randrange(4)] = 0
        cons.append(fl)
    epochs, bpe = rng.choice([0, 1, 1, 2, 3]), rng.choice([1, 2, 5])
    epochs0, bpe0 = epochs, bpe
    st_thr = [epochs * bpe]
    reg = [s for s in syms if rng.random() < (0.8 if s in (0, 2, 10, 12, 14) else 0.4)]
    rng.shuffle(reg)
    minrate = rng.choice([0, 0, P // 20])
    chains = []
    for c in range(nc):
        chains.append({"frac": frac(rng), "bpdt": rng.choice([1, 1, 2, 3, 5]),
                       "rd": rng.choice([[0], [0], [0, 1], [], [1, 0], [0, 0]]), "prd": rng.choice([[2], [2, 3], [3, 2], [3], []]),
                       "memo": c if rng.random() < 0.9 else rng.choice([(c + 1) % max(nc, 1), 7]),
                       "to_pool": 1 if rng.random() < 0.93 else 0})
    ops = []
    ph = 1                      # provider height
    chh = [1] * nc              # consumer heights
    taxes = [0, P // 50, P // 50, P // 10, P, rng.randint(0, P), 333333333333333333, 1, 2, P - 1]

    def valset(c, direct=True):
        vs = rng.sample(range(nv), rng.randint(0, nv))
        if direct:
            out = []
            for v in vs:
                thr = st_thr[0]
                jh = rng.choice([ph - thr, ph - thr + 1, ph - thr - 1, ph + 2 - thr, 0, ph, max(0, ph - thr - rng.randint(0, 3))])
                out.append([v, rng.choice([1, 1, 2, 3, 7, rng.randint(1, 1000), rng.randint(1, 10 ** 12)]), jh])
            return [8, c, out]
        return [9, c, [[v, rng.choice([1, 2, 3, 5, rng.randint(1, 10 ** 6)])] for v in vs]]

    def begin():
        nonlocal ph
        ph += rng.choice([1, 1, 1, 2, 3])
        st = [[rate(rng) if rng.random() < 0.5 else P // 10, 1 if rng.random() < 0.04 else 0] for _ in range(nv)]
        ft = 1 if rng.random() < 0.03 else 0
        fs = [rng.choice(syms)] if rng.random() < 0.05 else []
        ff = [rng.choice(syms)] if rng.random() < 0.07 else []
        fa = [rng.randrange(nv)] if rng.random() < 0.05 else []
        return [4, ph, rng.choice(taxes), st, ft, fs, ff, fa]

    # initial configuration
    for c in range(nc):
        ops.append(valset(c, direct=rng.random() < 0.7))
        if rng.random() < 0.5:
            ops.append([6, c, [s for s in syms if rng.random() < 0.3]])
    n = rng.randint(12, 34) if tier == "quick" else rng.randint(20, 70)
    for _ in range(n):
        r = rng.random()
        c = rng.randrange(nc)
        if r < 0.22:       # consumer block
            chh[c] += rng.choice([1, 1, 1, 2, 4])
            fees = [[d, amount(rng, mode)] for d in (0, 1, 2, 3) if rng.random() < 0.7]
            ops.append([11, c, chh[c], fees, rng.choice([1, 1, 1, 1, 0, 2]),
                        [rng.choice([0, 1, 2, 3])] if rng.random() < 0.08 else []])
        elif r < 0.36:     # relay
            ops.append([13, c, 1 if rng.random() < 0.85 else 0])
        elif r < 0.39:
            ops.append([14, c])
        elif r < 0.57:
            ops.append(begin())
        elif r < 0.63:     # direct receive (malformed stream included)
            ch = rng.choice([c, c, c, nc, nc + 1])
            memo = rng.choice([-1, -1, c, c, rng.randrange(nc), 7, -2])
            ops.append([3, ch, memo, rng.choice([0, 0, 1, 2, 2, 3, 4, 4, 4, 5, 5] + ([6, 6, 6] if PENDING else [])), amount(rng, mode),
                        1 if rng.random() < 0.85 else 0, 1 if rng.random() < 0.85 else 0])
        elif r < 0.70:     # direct credit, backed or not
            s = rng.choice(syms)
            a = amount(rng, mode)
            k = rng.random()
            if k < 0.6:
                ops.append([1, s, a]); ops.append([2, c, s, a * P])
            elif k < 0.8:
                ops.append([2, c, s, a * P + rng.choice([0, 1, P // 2, P - 1])])        # unbacked
            else:
                ops.append([1, s, a]); ops.append([2, c, s, a * P + rng.randint(1, P)])   # a little more credit than funds
        elif r < 0.78:
            ops.append(valset(c, direct=rng.random() < 0.6))
        elif r < 0.84:     # commission
            ops.append([7, rng.choice([c, c, c, 7]), rng.choice(list(range(nv)) + [nv + 1]),
                        rng.choice([rate(rng), rate(rng), P + 1, -1, P // 30])])
        elif r < 0.89:     # reward denoms message
            adds = [s for s in syms if rng.random() < 0.25]
            rems = [s for s in syms if rng.random() < 0.15 and (s not in adds or rng.random() < 0.2)]
            ops.append([5, 1 if rng.random() < 0.85 else 0, adds, rems])
        elif r < 0.92:
            ops.append([6, c, [s for s in syms if rng.random() < 0.3]])
        elif r < 0.95:
            nonlocal_set = (rng.choice([0, 1, 2, 3]), rng.choice([1, 2, 5]))
            epochs, bpe = nonlocal_set
            st_thr[0] = epochs * bpe
            ops.append([10, epochs, bpe])
        else:
            ops.append([12, c, frac(rng), rng.choice([1, 2, 3, 5]), rng.choice([[0], [0, 1], [], [1]]), rng.choice([[2], [2, 3], [3], []])])
    ops.append(begin())
    ops.append(begin())
    return {"nc": nc, "nv": nv, "cons": cons,
            "prov": {"epochs": epochs0, "bpe": bpe0, "registered": reg, "minrate": minrate},
            "chains": chains, "ops": ops}


def gen(rng, tier):
    total = 450 if tier == "quick" else 6000
    yield from fixed_cases()
    for _ in range(total):
        yield gen_case(rng, tier)


def fixed_cases():
    """Hand-written histories: the dust witness of C16_remainder_refuted and the forfeited credit."""
    st = [[P // 10, 0]] * 3
    # three validators of equal power, 10^6 and 10^24 base units credited and funded, no tax
    for amt in (10 ** 6, 10 ** 24, 100):
        yield {"nc": 1, "nv": 3, "cons": [[1, 1, 1, 1]],
               "prov": {"epochs": 1, "bpe": 1, "registered": [0], "minrate": 0},
               "chains": [{"frac": P // 4, "bpdt": 1, "rd": [0], "prd": [2], "memo": 0, "to_pool": 1}],
               "ops": [[8, 0, [[0, 1, 0], [1, 1, 0], [2, 1, 0]]], [1, 0, amt], [2, 0, 0, amt * P],
                       [4, 5, 0, st, 0, [], [], []], [4, 6, 0, st, 0, [], [], []]]}
    # zero eligible power and FundCommunityPool failing: the credit disappears, the coins stay in the pool
    yield {"nc": 1, "nv": 3, "cons": [[1, 1, 1, 1]],
           "prov": {"epochs": 1, "bpe": 1, "registered": [0], "minrate": 0},
           "chains": [{"frac": P // 4, "bpdt": 1, "rd": [0], "prd": [2], "memo": 0, "to_pool": 1}],
           "ops": [[8, 0, []], [1, 0, 1000], [2, 0, 0, 1000 * P], [4, 5, P // 50, st, 0, [], [0], []],
                   [4, 6, P // 50, st, 0, [], [], []]]}
    # rounding boundary of validatorsRewards = credit x (1 - tax): (1 + 10^-18) x (1 - 10^-18) = 1 - 10^-36 must truncate to 0 coins
    for a, tax, extra in ((1, 1, 1), (7, 1, 7), (3, 2, 6), (5, 3, 15)):
        yield {"nc": 1, "nv": 3, "cons": [[1, 1, 1, 1]],
               "prov": {"epochs": 1, "bpe": 1, "registered": [0], "minrate": 0},
               "chains": [{"frac": P // 4, "bpdt": 1, "rd": [0], "prd": [2], "memo": 0, "to_pool": 1}],
               "ops": [[8, 0, [[0, 1, 0]]], [1, 0, a], [2, 0, 0, a * P + extra], [4, 5, tax, st, 0, [], [], []],
                       [4, 6, tax, st, 0, [], [], []]]}
    # reward denoms of every shape on one channel: provider-native returned, multi-hop voucher through the provider,
    # consumer-native, third-chain token that reached the consumer directly; then a payout of the multi-hop denom
    yield {"nc": 1, "nv": 3, "cons": [[1, 1, 1, 1]],
           "prov": {"epochs": 1, "bpe": 1, "registered": [0, 2, 10, 30], "minrate": 0},
           "chains": [{"frac": P // 4, "bpdt": 1, "rd": [0], "prd": [2, 3], "memo": 0, "to_pool": 1}],
           "ops": [[8, 0, [[0, 1, 0], [1, 1, 0]]], [3, 0, 0, 0, 100, 1, 1], [3, 0, 0, 4, 200, 1, 1], [3, 0, -1, 4, 50, 1, 1],
                   [3, 0, 0, 2, 300, 1, 1], [3, 0, 0, 5, 400, 1, 1], [4, 5, P // 50, st, 0, [], [], []],
                   [11, 0, 2, [[3, 1000], [0, 10]], 1, []], [13, 0, 1], [13, 0, 1], [4, 6, P // 50, st, 0, [], [], []]]}
    # end to end: consumer block, transmission, relay, payout
    yield {"nc": 1, "nv": 3, "cons": [[1, 1, 1, 1]],
           "prov": {"epochs": 1, "bpe": 2, "registered": [10], "minrate": 0},
           "chains": [{"frac": 3 * P // 4, "bpdt": 2, "rd": [0], "prd": [2], "memo": 0, "to_pool": 1}],
           "ops": [[8, 0, [[0, 5, 0], [1, 3, 2], [2, 2, 9]]], [11, 0, 2, [[0, 1001], [1, 77]], 1, []],
                   [11, 0, 3, [[0, 10]], 1, []], [13, 0, 1], [4, 4, P // 50, st, 0, [], [], []],
                   [7, 0, 1, P // 2], [1, 10, 500], [2, 0, 10, 500 * P], [4, 11, P // 50, st, 0, [], [], []]]}


def project(case, obs):
    return obs


def _steps(case, obs):
    return list(zip(case["ops"], obs[1:]))


def nontrivial(case, inp, obs):
    if not isinstance(obs, list) or len(obs) < 2 or obs[0] == -999:
        return None
    payouts = sends = credited = 0
    lastp = obs[0][1]
    lastq = {}
    for k, cs in enumerate(obs[0][3]):
        lastq[k] = len(cs[5])
    for op, e in _steps(case, obs):
        if e[1]:
            p = e[1]
            if op[0] == 4 and sum(map(sum, p[2])) > sum(map(sum, lastp[2])):
                payouts += 1
            if op[0] == 13 and sum(map(sum, p[4])) > sum(map(sum, lastp[4])):
                credited += 1
            lastp = p
        if e[3]:
            k = e[2]
            if op[0] == 11 and len(e[3][5]) > lastq.get(k, 0):
                sends += 1
            lastq[k] = len(e[3][5])
    if payouts == 0 and sends == 0:
        return None
    return json.dumps([payouts, sends, credited, str(sum(map(sum, lastp[2])))])


CLAUSES = {
    1: "provider bank balances (pool + distribution + other) changed by something else than an inflow",
    2: "outstanding rewards + community pool exceed the distribution module account",
    3: "negative module balance",
    4: "more paid to validators and the community pool than credit was consumed",
    5: "more coins entered the distribution account than credit was consumed",
    6: "coins leaving the rewards pool differ from coins entering the distribution account",
    7: "a credit grew in BeginBlock, became negative, or was consumed for a denom that is neither registered nor allowlisted / a consumer without client",
    8: "a validator's reward or commission differs from the coded share (floor(power*10^18/eligible power) x coins moved, per-consumer commission) of the consumers in whose stored set it is eligible",
    17: "a validator received rewards in a denom although it is not eligible (not in the stored set / joined too recently) in any consumer whose credit was consumed, or commission exceeds reward",
    9: "a receive credited the wrong consumer/denom/amount (or credited despite a failed acknowledgement / foreign receiver)",
    10: "a receive changed validator rewards or the community pool",
    11: "consumer split is not floor(fees x fraction) / rest, or coins were created or lost on the consumer",
    12: "coins left the to-provider account for a denom that is not allowed, outside the transmission period, with the channel not open, or not the whole balance",
    13: "escrow decreased in a consumer block",
    14: "a transmission sent some allowed denoms but not all",
    15: "LastTransmissionBlockHeight not updated exactly at the transmission period",
    16: "a configuration operation changed credits or rewards",
    18: "credit was consumed but neither validators nor the community pool received it (loss beyond the proved dust bound T*(n-1)*10^-18 per allocation)",
    19: "allocation dust: part of the coins moved into the distribution account is recorded neither as outstanding rewards, nor in the community pool, nor as remaining credit (known finding C16-allocation-dust, within the proved bound)",
    20: "a credit is stored under a denom that no account holds (not the denom under which the ICS-20 application delivered the coins): it can never be paid",
    21: "the receiver's balance did not grow by the received amount under a single denom",
    99: "no observation",
}


def describe(codes):
    return "; ".join(CLAUSES.get(c, str(c)) for c in codes)


def known(case, inp, implobs, modelobs, mon):
    """The dust finding, and nothing else: only clause 19 fails (so the loss is within the proved bound, clause 18
    holds) and the implementation behaves exactly as the model."""
    if mon == [19] and implobs == modelobs:
        return "C16-allocation-dust"
    return None


def histogram(part, c):
    names = {1: "fund", 2: "credit", 3: "receive", 4: "begin_block", 5: "change_denoms", 6: "allowlist", 7: "commission",
             8: "set_valset", 9: "epoch_valset", 10: "params", 11: "consumer_block", 12: "consumer_params", 13: "relay", 14: "timeout"}
    return sorted({names[o[0]] for o in c["ops"]}) + ["nc=%d" % c["nc"]]


PARTS = [Part("e2e", "c16", "rewards", gen, project=project, nontrivial=nontrivial, describe=describe, known=known)]
