"""C05: a consumer consensus key never belongs to two validators (DESIGN.md 6.5).
Shared with C06 (tools/props/c06.py): generator, Go package c05, model component keyassign."""
import json
from check import Part

ID = "C05"
DESIGN_REF = "DESIGN.md 6.5"
DAY = 86400 * 10 ** 9
RULE = ("histories of 12-45 actions over the real provider keeper: MsgAssignConsumerKey / MsgOptIn (with and without key) "
        "by 3-5 operators drawing keys from a pool of 8-10 keys that contains every provider key (collisions are the norm), "
        "validator creation/removal through the staking hooks (incl. re-creation with the same or another key), "
        "consumer registration/initialize/launch/stop/delete, Begin/EndBlock, time advances (0, 1 ns, around pruning deadlines "
        "+-1 ns, unbonding period), slash requests, plus a malformed stream (wrong signer, unknown validator, unknown "
        "consumer, wrong owner, wrong phase); a case is non-trivial when an assignment or creation is rejected for a key "
        "collision (C05) resp. a replaced key is pruned (C06); distinct = distinct (action, result) sequences")
ASSUMPTIONS = [
    "staking keeps operator addresses and consensus keys unique among existing validators (reproduced by the driver's fake staking)",
    "a consensus address is identified with its public key (no hash collisions)",
    "consumer phases follow the lifecycle registered<->initialized->launched->stopped->deleted; the two steps "
    "registered->initialized->launched are performed with keeper setters by the driver (guarded), the others by real messages/BeginBlock",
]
TRUSTED_BASE = ["modelled: Keeper.AssignConsumerKey (all checks, in order), msgServer.AssignConsumerKey/OptIn validator lookup, HandleOptIn, "
                "GetProviderAddrFromConsumerAddr, AppendConsumerAddrsToPrune, ConsumeConsumerAddrsToPrune, PruneKeyAssignments (EndBlockCIS), "
                "DeleteKeyAssignments (DeleteConsumerChain, BeginBlockRemoveConsumers), ValidatorConsensusKeyInUse/AfterValidatorCreated, "
                "AfterValidatorRemoved, the resolution step of HandleSlashPacket; oracle: staking registry, block time, unbonding period"]

# op codes (must match Model/KeyAssign.v decode_op and harness/c05)
ASSIGN, OPTIN, CREATE, REMOVE, REGISTER, INIT, LAUNCH, STOP, DELETE, BEGIN, END, ADVANCE, SLASH = range(13)


class Hist:
    """generator-side approximate bookkeeping (only used to aim at interesting inputs; never trusted)"""

    def __init__(self, rng, u, nk, no, nc):
        self.rng, self.u, self.nk, self.no, self.nc = rng, u, nk, no, nc
        self.ops = []
        self.now = 0
        self.deadlines = []
        self.nreg = 0
        self.phase = {}
        self.vals = {}          # operator -> provider key (approximate)
        self.used = []          # keys recently named

    def add(self, *a):
        self.ops.append(list(a))

    def create(self, o, k):
        self.add(CREATE, o, k)
        if o not in self.vals and k not in self.vals.values():
            self.vals[o] = k

    def register(self):
        self.add(REGISTER)
        self.phase[self.nreg] = 1
        self.nreg += 1

    def lifecycle(self, c, code):
        self.add(code, c, 1)
        want = {INIT: 1, LAUNCH: 2, STOP: 3, DELETE: 4}[code]
        if self.phase.get(c) == want:
            self.phase[c] = want + 1

    def pick_key(self, o):
        r = self.rng.random()
        others = [k for oo, k in self.vals.items() if oo != o]
        if r < 0.15 and others:
            return self.rng.choice(others)               # another validator's provider key
        if r < 0.25 and o in self.vals:
            return self.vals[o]                          # own provider key
        if r < 0.50 and self.used:
            return self.rng.choice(self.used[-6:])       # a key somebody named recently
        return self.rng.randrange(self.nk)

    def assign(self, c, o, k=None, optin=False, sok=1):
        if k is None:
            k = self.pick_key(o)
        self.add(OPTIN if optin else ASSIGN, c, o, k, sok)
        if k >= 0:
            self.used.append(k)
        if self.phase.get(c) == 3:
            self.deadlines.append(self.now + self.u)

    def advance(self, dt):
        dt = max(0, dt)
        self.add(ADVANCE, dt)
        self.now += dt

    def advance_near_deadline(self):
        fut = [d for d in self.deadlines if d >= self.now - 1]
        if not fut:
            return self.advance(self.rng.choice([0, 1, self.u - 1, self.u, self.u + 1]))
        d = self.rng.choice(fut[:3])
        self.advance(d - self.now + self.rng.choice([-1, -1, 0, 0, 1]))

    def some_consumer(self, prefer=None):
        if prefer is not None:
            cs = [c for c, p in self.phase.items() if p == prefer]
            if cs and self.rng.random() < 0.8:
                return self.rng.choice(cs)
        return self.rng.randrange(self.nc + (1 if self.rng.random() < 0.1 else 0))

    def some_oper(self):
        if self.vals and self.rng.random() < 0.93:
            return self.rng.choice(sorted(self.vals))
        return self.rng.randrange(self.no)


def gen_history(rng, emphasis):
    u = rng.choice([1000, 1000, 10 ** 6, 21 * DAY])
    nk, no, nc = rng.choice([8, 9, 10]), rng.choice([4, 5]), 3
    h = Hist(rng, u, nk, no, nc)
    nv = rng.choice([2, 3, 3, 4])
    for o in range(nv):
        h.create(o, o)
    if emphasis == "c06":
        h.register(); h.lifecycle(0, INIT)
        if rng.random() < 0.5:                    # some keys assigned before launch
            for _ in range(rng.randint(1, 3)):
                h.assign(0, h.some_oper())
        h.lifecycle(0, LAUNCH)
        if rng.random() < 0.4:
            h.register()
            if rng.random() < 0.5:
                h.lifecycle(1, INIT); h.lifecycle(1, LAUNCH)
        weights = [(40, "assign"), (4, "optin"), (2, "create"), (3, "remove"), (3, "life"), (16, "end"), (14, "near"),
                   (3, "adv"), (4, "begin"), (9, "slash"), (1, "bad"), (1, "delete")]
        n = rng.randint(14, 45)
    else:
        for _ in range(rng.choice([1, 2, 2, 3])):
            h.register()
        for c in range(h.nreg):
            for code in (INIT, LAUNCH):
                if rng.random() < 0.6:
                    h.lifecycle(c, code)
                else:
                    break
        weights = [(38, "assign"), (10, "optin"), (9, "create"), (6, "remove"), (10, "life"), (7, "end"), (6, "near"),
                   (3, "adv"), (3, "begin"), (3, "slash"), (4, "bad"), (1, "delete")]
        n = rng.randint(12, 40)
    tot = sum(w for w, _ in weights)
    for _ in range(n):
        r = rng.randrange(tot)
        for w, kind in weights:
            if r < w:
                break
            r -= w
        if kind == "assign":
            c = h.some_consumer(prefer=3 if emphasis == "c06" else rng.choice([1, 2, 3, 3]))
            h.assign(c, h.some_oper())
        elif kind == "optin":
            c = h.some_consumer(prefer=rng.choice([1, 2, 3]))
            o = h.some_oper()
            if rng.random() < 0.3:
                h.assign(c, o, k=-1, optin=True)
            else:
                h.assign(c, o, optin=True)
        elif kind == "create":
            free = [o for o in range(no) if o not in h.vals]
            o = rng.choice(free) if free and rng.random() < 0.85 else rng.randrange(no)
            mode = rng.random()
            if mode < 0.45 and h.used:
                k = rng.choice(h.used[-8:])             # a key known on some consumer
            elif mode < 0.6:
                k = o
            else:
                k = rng.randrange(nk)
            h.create(o, k)
        elif kind == "remove":
            o = h.some_oper()
            h.add(REMOVE, o)
            h.vals.pop(o, None)
        elif kind == "life":
            if h.nreg < nc and rng.random() < 0.3:
                h.register()
            else:
                code = rng.choice([INIT, LAUNCH, LAUNCH, STOP])
                want = {INIT: 1, LAUNCH: 2, STOP: 3}[code]
                h.lifecycle(h.some_consumer(prefer=want), code)
        elif kind == "delete":
            h.lifecycle(h.some_consumer(prefer=4), DELETE)
        elif kind == "end":
            h.add(END)
        elif kind == "near":
            h.advance_near_deadline()
            if rng.random() < 0.7:
                h.add(END)
        elif kind == "adv":
            h.advance(rng.choice([0, 1, 2, u // 2, u - 1, u, u + 1, 2 * u]))
        elif kind == "begin":
            h.add(BEGIN)
        elif kind == "slash":
            c = h.some_consumer(prefer=3)
            k = rng.choice(h.used[-8:]) if h.used and rng.random() < 0.8 else rng.randrange(nk)
            h.add(SLASH, c, k)
        else:                                           # malformed stream
            m = rng.randrange(5)
            if m == 0:
                h.assign(h.some_consumer(), h.some_oper(), sok=0)              # wrong signer
            elif m == 1:
                h.assign(h.some_consumer(), rng.randrange(no), optin=rng.random() < 0.5)   # maybe unknown validator
            elif m == 2:
                h.assign(nc - 1 if h.nreg < nc else h.some_consumer(), h.some_oper())       # maybe unknown consumer
            elif m == 3:
                h.add(STOP, h.some_consumer(prefer=3), 0)                       # wrong owner
            else:
                h.add(rng.choice([INIT, LAUNCH, DELETE]), h.some_consumer())    # wrong phase
    return {"u": u, "nk": nk, "no": no, "nc": nc, "hist": h.ops}


# Replay of Props/C05.v C05_injective_refuted_witness on the real code: a validator is created with consensus key 5
# while STOPPED consumer 0 still attributes key 5 to validator 0 (ValidatorConsensusKeyInUse only looks at active consumers).
WITNESS_STOPPED = {"u": 1000, "nk": 8, "no": 4, "nc": 1,
                   "hist": [[CREATE, 0, 0], [REGISTER], [INIT, 0], [LAUNCH, 0], [ASSIGN, 0, 0, 5, 1], [STOP, 0, 1],
                            [CREATE, 1, 5], [SLASH, 0, 5], [END], [ASSIGN, 0, 0, 6, 1]]}


def gen(rng, tier, emphasis="c05", quick=300, thorough=12000):
    if emphasis == "c05":
        yield json.loads(json.dumps(WITNESS_STOPPED))
    for _ in range(quick if tier == "quick" else thorough):
        yield gen_history(rng, emphasis)


def results(case, obs):
    return [(a[0], s[0]) for a, s in zip(case["hist"], obs[1:])]


def nontrivial(case, inp, obs):
    if not isinstance(obs, list) or len(obs) != len(case["hist"]) + 1:
        return None
    rs = results(case, obs)
    if not any((code in (ASSIGN, OPTIN) and r in (2, 3)) or (code == CREATE and r == 5) for code, r in rs):
        return None
    return json.dumps(rs)


CLAUSES = {
    1: "C05: a key is associated (assigned / by-address / provider key) with two validators on an active consumer",
    2: "C05: store invariant broken - a by-address entry is neither a current assignment nor awaiting pruning",
    3: "a rejected message or creation changed the key-assignment state",
    4: "C06: a replaced key stopped resolving to its validator before its pruning deadline",
    5: "C06: a replaced key is still known after the first EndBlock at/after its pruning deadline",
    6: "C06: a key never assigned on the consumer does not resolve to itself",
    7: "C06: a key replaced before launch was not dropped at once",
    8: "C05: an assignment that had to be rejected was accepted",
    9: "C05: a validator was created with a key known on an active consumer",
    10: "C06: a slash request jailed somebody else than the validator the key resolved to",
    99: "malformed observation",
}


def describe(codes):
    return "; ".join(CLAUSES.get(c, str(c)) for c in codes)


NAMES = ["assign", "optin", "create", "remove", "register", "init", "launch", "stop", "delete", "begin", "end", "advance", "slash"]


def histogram(part, c):
    return sorted({NAMES[a[0]] for a in c["hist"]})


PARTS = [Part("keys", "c05", "keyassign", gen, nontrivial=nontrivial, describe=describe)]
