"""C06: replaced consumer keys stay attributable for the unbonding period (DESIGN.md 6.6).
Same Go package (c05) and model component (keyassign) as C05; the generator concentrates on launched consumers,
several replaced keys per validator, block-time advances to the pruning deadline t+U -1/0/+1 ns followed by EndBlock,
and slash requests for old keys."""
import json
from check import Part
from props import c05

ID = "C06"
DESIGN_REF = "DESIGN.md 6.6"
RULE = ("histories of 14-45 actions on launched (and some not-yet-launched) consumers: repeated MsgAssignConsumerKey by the same "
        "validators (several replaced keys each), time advances to pruning deadlines t+U-1ns / t+U / t+U+1ns each followed by "
        "EndBlock, slash requests (HandleSlashPacket) for current, old and never-assigned keys, validator removal/re-creation, "
        "stop + BeginBlock removal; a case is non-trivial when an EndBlock prunes at least one replaced key; "
        "distinct = distinct (action, result, number of keys awaiting pruning) sequences")
ASSUMPTIONS = c05.ASSUMPTIONS + [
    "block time is non-decreasing (the generator only advances time); the theorems do not need it",
    "evidence handling (HandleConsumerDoubleVoting) resolves the key through the same GetProviderAddrFromConsumerAddr; only the "
    "downtime path (HandleSlashPacket) is executed by the driver",
]
TRUSTED_BASE = c05.TRUSTED_BASE
CLAUSES = c05.CLAUSES
describe = c05.describe
histogram = c05.histogram


def gen(rng, tier):
    return c05.gen(rng, tier, emphasis="c06", quick=250, thorough=10000)


def nontrivial(case, inp, obs):
    if not isinstance(obs, list) or len(obs) != len(case["hist"]) + 1:
        return None
    pruned, sig = False, []
    for a, prev, cur in zip(case["hist"], obs, obs[1:]):
        n = sum(len(x[5]) for x in cur[4])
        if a[0] == c05.END and any(len(xp[5]) > len(xc[5]) and xc[0] != 5 for xp, xc in zip(prev[4], cur[4])):
            pruned = True
        sig.append((a[0], cur[0], n))
    return json.dumps(sig) if pruned else None


PARTS = [Part("window", "c05", "keyassign", gen, nontrivial=nontrivial, describe=describe)]

# ---- composed model (Model/SlashKeys.v = KeyAssign x Slash): theorems in Props/C06System.v, part "system" in harness/c06sys/part.py
EXTRA_PROPS = ["C06System"]
import importlib.util as _ilu, os as _os
_spec = _ilu.spec_from_file_location("c06sys_part", _os.path.join(_os.path.dirname(_os.path.abspath(__file__)), "..", "..", "harness", "c06sys", "part.py"))
_c06sys = _ilu.module_from_spec(_spec); _spec.loader.exec_module(_c06sys)
PARTS.append(_c06sys.PART)
