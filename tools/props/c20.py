"""C20: infraction parameters in force are used; changes are delayed by the unbonding period (DESIGN.md 6.20)."""
import json
from check import Part

ID = "C20"
DESIGN_REF = "DESIGN.md 6.20"
RULE = ("histories over the real provider keeper: MsgCreateConsumer with/without (partial) infraction parameters, real launches "
        "(spawn time + MsgOptIn + BeginBlock), failed launches, MsgUpdateConsumer with partial/full/equal/invalid parameters from the "
        "owner or a stranger, MsgRemoveConsumer, deletion by BeginBlock after unbonding, block times aimed at due-1ns/due/due+1ns, "
        "many consumers with equal due times, histories with 201..260 entries due at once (direct UpdateQueuedInfractionParams on "
        "consumers whose phase was set directly), changes of the provider unbonding period, downtime slashes through HandleSlashPacket "
        "and signed duplicate-vote evidence through HandleConsumerDoubleVoting before/after the switch; a case is non-trivial when a "
        "queued change is applied, cancelled, replaced or discarded; distinct = distinct event signature")
ASSUMPTIONS = [
    "block time is non-decreasing; the unbonding period used for a request is the staking parameter at request time (oracle input per request)",
    "phase changes (launch, deletion) are decided outside this component and enter as oracle ops observed from the implementation",
    "the sender being the owner, evidence validity and validator punishability are oracle inputs (C14, C07, C08)",
    "times are >= 1970 so that big-endian timestamp keys iterate in numeric order",
]
TRUSTED_BASE = [
    "modelled: infraction_parameters.go (all), ConsumeIdsFromTimeQueue/appendConsumerIdOnTime/removeConsumerIdFromTime, "
    "infraction branches of CreateConsumer/UpdateConsumer, phase checks of UpdateConsumer/RemoveConsumer, infraction part of "
    "DeleteConsumerChain, ValidateInfractionParameters, the parameter reads of HandleSlashPacket and HandleConsumerDoubleVoting",
    "not driven: HandleConsumerMisbehaviour (same read as HandleConsumerDoubleVoting, needs full light-client headers); "
    "fake staking/slashing World records the fraction, jail-until and tombstone it is given",
]

MAXI = (1 << 63) - 1
ONE = 10 ** 18
DS_DEFAULT = [MAXI, 5 * 10 ** 16, 1]
DT_DEFAULT = [600 * 10 ** 9, 0, 0]
HALVES = [DS_DEFAULT, DT_DEFAULT, [0, 0, 0], [1, 1, 0], [5 * 10 ** 9, 10 ** 16, 1], [7 * 10 ** 9, 3 * 10 ** 16, 0],
          [MAXI, ONE, 1], [600 * 10 ** 9, 0, 1]]
BAD_HALVES = [[-1, 0, 0], [5, -1, 0], [5, ONE + 1, 1]]


def pick_half(rng, bad=0.0):
    if rng.random() < bad:
        return list(rng.choice(BAD_HALVES))
    return list(rng.choice(HALVES))


def pick_req(rng, bad=0.03, allow_none=True):
    """None (field absent) | [ds|None, dt|None]"""
    x = rng.random()
    if allow_none and x < 0.05:
        return None
    if x < 0.12:
        return [None, None]
    if x < 0.40:
        return [pick_half(rng, bad), None]
    if x < 0.68:
        return [None, pick_half(rng, bad)]
    return [pick_half(rng, bad), pick_half(rng, bad)]


class Sim:
    """Rough generator-side picture of the history, only used to aim actions (never compared)."""

    def __init__(self, rng, u):
        self.rng, self.u, self.u0, self.now = rng, u, u, 0
        self.n = 0
        self.phase = {}        # c -> 'pre' | 'spawn' | 'nospawn' | 'launched' | 'stopped' | 'deleted'
        self.dues = []         # times at which something may become due / removable
        self.acts = []

    def create(self, mode, req):
        self.acts.append([0, mode, req])
        if req is None or all(h is None or h not in BAD_HALVES for h in req):
            self.phase[self.n] = {0: 'pre', 1: 'spawn', 2: 'nospawn'}[mode]
            self.n += 1

    def block(self, dt):
        dt = max(0, int(dt))
        self.acts.append([6, dt])
        self.now += dt
        for c, p in list(self.phase.items()):
            if p == 'spawn' and dt >= 1:
                self.phase[c] = 'launched'
            if p == 'nospawn' and dt >= 1:
                self.phase[c] = 'pre'

    def aim(self):
        """a dt that lands just before / at / just after one of the interesting times"""
        fut = [d for d in self.dues if d + 1 >= self.now]
        if not fut or self.rng.random() < 0.15:
            return self.rng.choice([0, 1, 2, self.u // 2, self.u - 1, self.u, self.u + 1, 2 * self.u + 3])
        d = self.rng.choice(fut[:3] if self.rng.random() < 0.7 else fut)
        t = d + self.rng.choice([-1, -1, 0, 0, 1, 1, 5])
        return max(0, t - self.now)

    def who(self, kinds=None):
        cs = [c for c, p in self.phase.items() if kinds is None or p in kinds]
        if not cs or self.rng.random() < 0.04:
            return self.rng.choice([self.n, self.n + 3, 0])      # mostly non-existing
        return self.rng.choice(cs)

    def update(self, c, req, sender=0):
        self.acts.append([1, c, sender, req])
        if self.phase.get(c) == 'launched' and sender == 0 and req is not None:
            self.dues.append(self.now + self.u)
            self.dues.sort()

    def stop(self, c, sender=0):
        self.acts.append([4, c, sender])
        if self.phase.get(c) == 'launched' and sender == 0:
            self.phase[c] = 'stopped'
            self.dues.append(self.now + self.u)
            self.dues.sort()

    def slash(self, c, kind):
        self.acts.append([7, c, kind])


def pick_u(rng):
    return rng.choice([1000, 1000, 50, 7, 21 * 24 * 3600 * 10 ** 9, 10 ** 10])


def gen_timeline(rng, size):
    """a few really launched consumers; requests, slashes and blocks around the due times"""
    s = Sim(rng, pick_u(rng))
    k = rng.choice([1, 1, 2, 3, 4])
    for _ in range(k):
        s.create(rng.choice([1, 1, 1, 1, 0, 2]), pick_req(rng, bad=0.02) if rng.random() < 0.5 else None)
    if rng.random() < 0.3:     # pre-launch updates: immediate
        for _ in range(rng.randint(1, 3)):
            s.update(s.who(), pick_req(rng), 0 if rng.random() < 0.9 else 1)
    s.block(rng.choice([1, 1, 1, 0, 5]))
    for _ in range(size):
        x = rng.random()
        if x < 0.30:
            c = s.who(['launched']) if rng.random() < 0.85 else s.who()
            s.update(c, pick_req(rng), 0 if rng.random() < 0.93 else 1)
        elif x < 0.55:
            s.block(s.aim())
        elif x < 0.80:
            s.slash(s.who(['launched', 'stopped']) if rng.random() < 0.9 else s.who(), rng.choice([0, 0, 1]))
        elif x < 0.86:
            s.stop(s.who(['launched']), 0 if rng.random() < 0.85 else 1)
        elif x < 0.92:
            s.create(rng.choice([1, 1, 0, 2]), pick_req(rng) if rng.random() < 0.5 else None)
        elif x < 0.96:
            nu = pick_u(rng)
            s.acts.append([8, nu])
            s.u = nu
        else:       # two requests in the same block, then the block right at the due time
            c = s.who(['launched'])
            s.update(c, pick_req(rng, allow_none=False))
            s.update(c, pick_req(rng, allow_none=False))
            s.slash(c, 0)
            s.block(s.aim())
            s.slash(c, 0)
    return {"unbonding": s_unb(s), "actions": s.acts, "shape": "timeline"}


def s_unb(s):
    return s.u0      # the unbonding period in force at the start of the history


def gen_equal_due(rng):
    """many consumers requested in the same block (equal due times), some cancelled / replaced / stopped in between"""
    u = pick_u(rng)
    s = Sim(rng, u)
    n = rng.randint(3, 9)
    for _ in range(n):
        s.create(1, None if rng.random() < 0.6 else pick_req(rng, bad=0))
    s.block(1)
    for rounds in range(rng.randint(1, 3)):
        order = list(range(n))
        rng.shuffle(order)
        for c in order:
            if rng.random() < 0.85:
                s.update(c, pick_req(rng, bad=0, allow_none=False))
        if rng.random() < 0.5:
            s.block(rng.choice([0, 1, 3]))
        for c in rng.sample(range(n), rng.randint(0, 3)):
            y = rng.random()
            if y < 0.4:
                s.update(c, [None, None])             # equal to current: cancel
            elif y < 0.8:
                s.update(c, pick_req(rng, bad=0, allow_none=False))
            else:
                s.stop(c)
        s.slash(rng.randrange(n), 0)
        s.block(s.aim())
        s.slash(rng.randrange(n), rng.choice([0, 1]))
        s.block(s.aim())
        s.slash(rng.randrange(n), 0)
    s.block(u + 1)
    s.block(u + 1)
    return {"unbonding": u, "actions": s.acts, "shape": "equal_due"}


def gen_over_limit(rng, tier):
    """more than 200 entries due at once: cheap consumers (phase set directly) + direct keeper calls, in batches"""
    u = rng.choice([1000, 50])
    n = rng.randint(201, 260) if rng.random() < 0.8 else rng.choice([199, 200, 201, 400, 401])
    acts = []
    acts.append([9, [[0, 0, None] for _ in range(n)]])
    acts.append([9, [[3, c] for c in range(n)]])
    ids = list(range(n))
    if rng.random() < 0.5:
        rng.shuffle(ids)
    split = rng.choice([n, n, n // 2, 150, 1])
    val = lambda: [list(rng.choice(HALVES[2:])), list(rng.choice(HALVES[2:]))]
    acts.append([9, [[2, c, val()] for c in ids[:split]]])
    if split < n:
        acts.append([6, rng.choice([0, 1, 3])])
        acts.append([9, [[2, c, val()] for c in ids[split:]]])
    # some single requests with full observation: re-request (moves to the tail), cancel, stop
    for _ in range(rng.randint(0, 3)):
        c = rng.choice(ids)
        y = rng.random()
        if y < 0.4:
            acts.append([2, c, val()])
        elif y < 0.7:
            acts.append([1, c, 0, [None, None]])
        else:
            acts.append([4, c, 0])
    acts.append([7, ids[0], 0])
    acts.append([6, u - rng.choice([0, 1, 2, 3])])      # everything (or the first batch) becomes due
    acts.append([7, ids[0], 0])
    acts.append([7, ids[-1], 0])
    for _ in range(rng.randint(1, 3)):
        if rng.random() < 0.4:
            acts.append([2, rng.choice(ids), val()])
        acts.append([6, rng.choice([0, 0, 1, 3])])
        acts.append([7, ids[-1], 0])
    acts.append([6, u + 5])
    acts.append([6, 0])
    return {"unbonding": u, "actions": acts, "shape": "over_limit"}


def gen(rng, tier):
    quick = tier == "quick"
    for _ in range(450 if quick else 12000):
        yield gen_timeline(rng, rng.choice([6, 10, 16, 24] if quick else [6, 10, 16, 24, 40, 60]))
    for _ in range(160 if quick else 4000):
        yield gen_equal_due(rng)
    for _ in range(5 if quick else 60):
        yield gen_over_limit(rng, tier)


def _events(case, inp, obs):
    """event signature read off the implementation's observations"""
    applied = cancelled = replaced = discarded = 0
    maxdue = 0
    prev = None
    for g, ob in zip(inp, obs):
        snap = ob[1]
        cons, sched = snap
        maxdue = max(maxdue, max([len(e[1]) for e in sched] + [0]))
        if prev is not None:
            pc = prev[0]
            last = g[-1] if g else None
            for c, (ph, cur, q) in enumerate(cons):
                if c >= len(pc):
                    continue
                ph0, cur0, q0 = pc[c]
                if ph0 >= 2 and cur0 != cur:
                    applied += 1
                if q0 and not q and cur0 == cur:
                    if ph == 4 and ph0 == 3:
                        discarded += 1
                    else:
                        cancelled += 1
                if q0 and q and last and last[0] in (1, 2) and last[1] == c and ob[0] == [0]:
                    replaced += 1
        prev = snap
    return applied, cancelled, replaced, discarded, maxdue


def nontrivial(case, inp, obs):
    a, c, r, d, m = _events(case, inp, obs)
    if a + c + r + d == 0:
        return None
    return json.dumps([case.get("shape"), min(a, 9), min(c, 5), min(r, 5), min(d, 3), m > 200,
                       sum(1 for ob in obs if len(ob[0]) > 1)])


CLAUSES = {
    1: "parameters in force of a launched/stopped consumer changed outside a begin-block, before request time + unbonding, or to a value that was not requested",
    2: "queued-parameters store and update schedule disagree (not exactly one schedule entry per queued change, or under the wrong time)",
    3: "an applied change left its queued/schedule entry behind (it would be applied again)",
    4: "the slash fraction / jail duration / tombstone applied differ from the consumer's parameters in force at handling time",
    5: "a pre-launch update did not take effect immediately",
    6: "a deleted consumer still has a pending change",
    7: "a request equal to the current values did not cancel the pending change (or queued something)",
    8: "a request on a launched consumer did not replace the pending change with one due at now + unbonding",
    9: "the provider BeginBlock failed",
}


def describe(codes):
    return "; ".join(CLAUSES.get(c, str(c)) for c in codes)


def histogram(part, c):
    out = [c.get("shape", "?")]
    names = {0: "create", 1: "update", 2: "queue_direct", 3: "set_launched", 4: "remove", 6: "block", 7: "slash", 8: "unbonding_change", 9: "batch"}
    for a in c["actions"]:
        out.append(names.get(a[0], "?"))
    return out


PARTS = [Part("history", "c20", "infraction", gen, nontrivial=nontrivial, describe=describe)]

# ---- composed model (Model/SlashParams.v = Infraction x Slash): theorems in Props/C20System.v, part "system" in harness/c20sys/part.py
EXTRA_PROPS = ["C20System"]
import importlib.util as _ilu, os as _os
_spec = _ilu.spec_from_file_location("c20sys_part", _os.path.join(_os.path.dirname(_os.path.abspath(__file__)), "..", "..", "harness", "c20sys", "part.py"))
_c20sys = _ilu.module_from_spec(_spec); _spec.loader.exec_module(_c20sys)
PARTS.append(_c20sys.PART)
