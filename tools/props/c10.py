"""C10: consumer lifecycle follows the phase machine and the launch schedule (DESIGN.md 6.10).

The history generator below is shared with C11 (tools/props/c11.py imports it).  A case is
  {"U": unbonding ns, "nvals": 4, "maxprov": 2, "epoch": E, "ops": [action...]}
with the actions interpreted by harness/c10/driver_test.go:
  [1, owner, chain, rev, ini]  [2, c, sender, newchain, newowner, ini]  [3, c, sender]  [4, c, v, withkey]
  [5, c, tag]  [6, c]  [7, dt, fault]  [8]  [9, c]  [10, c]  [11, kind, ...]
(fault: 0 none, 1 every CreateClient call of the block fails, 2+k the (k+1)-th call fails; a negative tag marks an
action that is executed but not observed)
(ini = [] | [spawn, hrev, conn]; times are ns relative to T0 - 1000 ns, 0 = zero time).
"""
import json
from check import Part

ID = "C10"
DESIGN_REF = "DESIGN.md 6.10"
RULE = ("random histories of create/update/remove messages from several senders (spawn times zero, past, equal to the block "
        "time, +-1 ns, future, shared by many consumers), chain-id and owner changes, opt-ins with and without keys, "
        "begin/end blocks with chosen time steps, failing launches (nobody opted in, only inactive validators, unknown "
        "connection, every / the k-th CreateClient call of a block failing), the chain-id revision change of finding C10-F1 "
        "as a regression, channel handshakes, owner/timeout/error-ack/send-failure stops, plus a malformed "
        "stream (wrong sender, wrong phase, unknown id, mismatching revision) and a few histories with 201-260 consumers due "
        "in one block; non-trivial = at least one launch attempt; distinct = distinct (phase edges, result codes, due bucket)")
ASSUMPTIONS = [
    "block time is non-decreasing (hypothesis `monotone` of the C11 time theorems); the unbonding period is constant and >= 0",
    "consumers are opt-in (Top_N = 0) and launch with a new client or an unknown connection id; launching on an existing "
    "connection is C17's subject; infraction-parameter updates (C20) are not part of the histories",
    "staking.UnbondingTime does not fail (a failure inside SendVSCPacketsToChain is swallowed by the Go code and would leave "
    "a stopped consumer without removal time; not modelled)",
    "a validator assigns at most one consumer key per consumer in the histories (key replacement and pruning: C05/C06)",
    "spawn time of a launched/stopped/deleted consumer keeps its last value (descriptive record): 'initialized iff spawn time "
    "non-zero' is stated for pre-launch phases",
]
TRUSTED_BASE = [
    "modelled (coq/theories/Model/Lifecycle.v): FetchAndIncrementConsumerId, CreateConsumer, UpdateConsumer (phase, owner, "
    "chain id, initialization parameters, InitializeConsumer, PrepareConsumerForLaunch), RemoveConsumer, HandleOptIn phase "
    "check, BeginBlockLaunchConsumers, ConsumeIdsFromTimeQueue, LaunchConsumer/CreateConsumerClient/MakeConsumerGenesis "
    "decision and artefacts, StopAndPrepareForConsumerRemoval, BeginBlockRemoveConsumers, DeleteConsumerChain, "
    "OnTimeoutPacket, OnAcknowledgementPacket(error), QueueVSCPackets/SendVSCPackets phase filter and send failure, "
    "SetConsumerChain, time-queue helpers",
    "oracle inputs (read from the fake world / a discarded dry run before each block operation): size of the computed "
    "validator set, presence of an active provider validator, failure of an external call during launch, iteration order of "
    "the client-id index, validator-set changes per epoch, SendPacket outcome per channel",
    "BeginBlock is run on a cached context and discarded when it returns an error (a failed block commits nothing)",
]

NVALS, MAXPROV = 4, 2          # validators 0..3 with power 1..4; provider active set = {2, 3}
TAGS = [36, 37, 56, 39, 15, 40, 41]


class Gen:
    """Approximate bookkeeping so that most generated actions are meaningful; exactness is not needed."""

    def __init__(self, rng, U):
        self.rng, self.U = rng, U
        self.now = 1000
        self.ops = []
        self.cons = []          # dict(owner, phase, spawn, rev, hrev, conn, optin:set, chan, client)
        self.spawns = []
        self.keyed = set()

    # -------------------------------------------------------------- helpers
    def pick_spawn(self):
        r = self.rng
        k = r.random()
        if k < 0.15:
            return 0
        if k < 0.30 and self.spawns:
            return r.choice(self.spawns)
        if k < 0.45:
            return r.randint(1, self.now)                 # past
        if k < 0.60:
            return self.now + r.choice([-1, 0, 1])
        return self.now + r.randint(1, 40)

    def existing(self, pred=lambda c: True):
        l = [i for i, c in enumerate(self.cons) if pred(c)]
        return self.rng.choice(l) if l else None

    def any_id(self):
        r = self.rng
        if self.cons and r.random() < 0.93:
            return r.randrange(len(self.cons))
        return len(self.cons) + r.randint(0, 2)          # unknown id

    def sender_for(self, c):
        if c < len(self.cons) and self.rng.random() < 0.88:
            return self.cons[c]["owner"]
        return self.rng.randint(1, 4)

    # -------------------------------------------------------------- actions
    def create(self, spawn=None, rev=None, hrev=None, conn=None, owner=None, ini=True):
        r = self.rng
        owner = owner if owner is not None else r.randint(1, 3)
        rev = rev if rev is not None else r.choice([0, 1, 1, 1, 2])
        chain = r.randint(1, 5)
        if not ini:
            self.ops.append([1, owner, chain, rev, []])
            ok, spawn, hrev, conn = (rev == 1), 0, 1, 0
        else:
            spawn = self.pick_spawn() if spawn is None else spawn
            hrev = (rev if r.random() < 0.93 else rev + 1) if hrev is None else hrev
            conn = (0 if r.random() < 0.9 else r.randint(1, 2)) if conn is None else conn
            self.ops.append([1, owner, chain, rev, [spawn, hrev, conn]])
            ok = hrev == rev
        if ok:
            self.cons.append(dict(owner=owner, phase=2 if spawn else 1, spawn=spawn, rev=rev, hrev=hrev, conn=conn,
                                  optin=set(), chan=False, client=False))
            if spawn:
                self.spawns.append(spawn)
            return len(self.cons) - 1
        return None

    def update(self, c=None, nc=None, no=None, ini=None, sender=None):
        r = self.rng
        c = self.any_id() if c is None else c
        sender = self.sender_for(c) if sender is None else sender
        known = c < len(self.cons)
        st = self.cons[c] if known else None
        if nc is None:
            nc = []
            if r.random() < 0.25:
                nc = [r.randint(1, 5), (st["rev"] if known and r.random() < 0.6 else r.choice([0, 1, 2]))]
        if no is None:
            no = [r.randint(1, 3)] if r.random() < 0.15 else []
        if ini is None:
            ini = []
            if r.random() < 0.6:
                rev = nc[1] if nc else (st["rev"] if known else 1)
                ini = [self.pick_spawn(), rev if r.random() < 0.93 else rev + 1, 0 if r.random() < 0.9 else r.randint(1, 2)]
        self.ops.append([2, c, sender, nc, no, ini])
        if not known or st["owner"] != sender or st["phase"] not in (1, 2, 3):
            return
        if st["phase"] == 3 and (ini or nc):
            return
        rev = nc[1] if nc else st["rev"]
        if (ini[1] if ini else st["hrev"]) != rev:
            return
        if nc:
            st["rev"] = nc[1]
        if no:
            st["owner"] = no[0]
        if ini:
            st["spawn"], st["hrev"], st["conn"] = ini
            if ini[0]:
                self.spawns.append(ini[0])
        if st["phase"] in (1, 2):
            st["phase"] = 2 if st["spawn"] else 1

    def remove(self, c=None):
        c = self.any_id() if c is None else c
        sender = self.sender_for(c)
        self.ops.append([3, c, sender])
        if c < len(self.cons) and self.cons[c]["owner"] == sender and self.cons[c]["phase"] == 3:
            self.cons[c]["phase"] = 4

    def optin(self, c=None, v=None, key=None):
        r = self.rng
        c = self.any_id() if c is None else c
        v = r.choice([0, 1, 2, 3, 3]) if v is None else v
        key = (1 if r.random() < 0.3 else 0) if key is None else key
        if key and (c, v) in self.keyed:
            key = 0                                       # key replacement is C05/C06's subject
        if key:
            self.keyed.add((c, v))
        self.ops.append([4, c, v, key])
        if c < len(self.cons) and self.cons[c]["phase"] in (1, 2, 3):
            self.cons[c]["optin"].add(v)

    def decorate(self, c=None, tag=None):
        c = self.any_id() if c is None else c
        self.ops.append([5, c, self.rng.choice(TAGS) if tag is None else tag])

    def channel(self, c=None):
        c = self.any_id() if c is None else c
        self.ops.append([6, c])
        if c < len(self.cons) and self.cons[c]["client"] and self.cons[c]["phase"] in (3, 4):
            self.cons[c]["chan"] = True

    def begin(self, dt=None, failclient=0):
        r = self.rng
        if dt is None:
            dt = r.choice([0, 1, 1, 2, 5, 10, 20, self.U - 1, self.U, self.U + 1])
        self.now += dt
        self.ops.append([7, dt, failclient])
        due = [c for c in self.cons if c["phase"] == 2 and c["spawn"] <= self.now]
        for c in due[:200]:
            if (c["optin"] & {2, 3}) and not c["conn"] and failclient != 1:
                c["phase"], c["client"] = 3, True
            else:
                c["phase"], c["spawn"] = 1, 0
        for c in self.cons:
            if c["phase"] == 4 and c.get("rt", 1 << 60) <= self.now:
                c["phase"], c["client"], c["chan"] = 5, False, False

    def end(self):
        self.ops.append([8])

    def packet_failure(self, c=None, kind=None):
        c = self.any_id() if c is None else c
        self.ops.append([self.rng.choice([9, 10]) if kind is None else kind, c])
        if c < len(self.cons) and self.cons[c]["chan"]:
            st = self.cons[c]
            if st["phase"] == 3:
                st["phase"], st["rt"] = 4, self.now + self.U

    def world(self, kind=None):
        r = self.rng
        kind = r.choice([1, 1, 2, 3]) if kind is None else kind
        if kind == 1:
            self.ops.append([11, 1, r.randint(0, 3), r.randint(1, 9)])
        elif kind == 2:
            self.ops.append([11, 2, self.any_id()])
        else:
            self.ops.append([11, 3, self.any_id(), r.randint(0, 1)])

    def stop_owner(self, c):
        self.ops.append([3, c, self.cons[c]["owner"]])
        if self.cons[c]["phase"] == 3:
            self.cons[c]["phase"], self.cons[c]["rt"] = 4, self.now + self.U

    def case(self, epoch=1):
        return {"U": self.U, "nvals": NVALS, "maxprov": MAXPROV, "epoch": epoch, "ops": self.ops}


def random_history(rng, n_ops, weights, U=None):
    U = U if U is not None else rng.choice([30, 50, 100])
    g = Gen(rng, U)
    acts = [a for a, w in weights.items() for _ in range(w)]
    for _ in range(n_ops):
        a = rng.choice(acts)
        if a == "create":
            g.create(ini=rng.random() < 0.85)
        elif a == "update":
            g.update()
        elif a == "remove":
            c = g.existing(lambda c: c["phase"] == 3)
            g.remove(c if c is not None and rng.random() < 0.7 else None)
        elif a == "optin":
            c = g.existing(lambda c: c["phase"] in (1, 2, 3))
            g.optin(c if c is not None and rng.random() < 0.85 else None)
        elif a == "decorate":
            g.decorate()
        elif a == "channel":
            c = g.existing(lambda c: c["client"] and not c["chan"])
            g.channel(c if c is not None and rng.random() < 0.8 else None)
        elif a == "begin":
            g.begin(failclient=rng.choice([1, 2, 2, 3]) if rng.random() < 0.09 else 0)
        elif a == "end":
            g.end()
        elif a == "pfail":
            c = g.existing(lambda c: c["chan"])
            g.packet_failure(c if c is not None and rng.random() < 0.8 else None)
        elif a == "world":
            g.world()
    return g.case(epoch=rng.choice([1, 1, 1, 2]))


W_LAUNCH = {"create": 24, "update": 20, "optin": 18, "begin": 16, "end": 5, "remove": 4, "channel": 4, "pfail": 2,
            "decorate": 3, "world": 2}


def halting_history(rng):
    """Regression for finding C10-F1: a chain-id-only update that changes the revision made the launch fallback fail
    and BeginBlock return an error; the fixed UpdateConsumer rejects the update (monitor clause 10 guards it)."""
    g = Gen(rng, 50)
    for _ in range(rng.randint(0, 2)):
        g.create()
    c = g.create(spawn=g.now + rng.randint(0, 5), rev=1, hrev=1, conn=0, owner=1)
    if rng.random() < 0.5:
        g.optin(c, v=rng.choice([0, 1]))                # only inactive validators: the launch still fails
    g.update(c, nc=[rng.randint(1, 5), 2], no=[], ini=[], sender=1)
    g.begin(dt=10)
    g.begin(dt=1)
    return g.case()


def quieten(ops, idxs, every):
    """Bulk set-up: of the creates / opt-ins / owner stops at the given positions only every `every`-th is observed
    (negative tag = executed but not observed).  The action right before a begin-block is always observed, so that
    the schedule clauses of the monitor see the exact pre-state."""
    for j in idxs:
        if ops[j][0] in (1, 3, 4) and j % every != every - 1 and j + 1 < len(ops) and abs(ops[j + 1][0]) != 7:
            ops[j][0] = -ops[j][0]


def big_history(rng):
    """More than 200 consumers due in one block; some launch, some fall back; later blocks pick up the rest."""
    g = Gen(rng, 50)
    n = rng.randint(201, 260)
    t0 = g.now + 5
    mode = rng.choice(["same", "two", "spread"])
    for i in range(n):
        if mode == "same":
            sp = t0
        elif mode == "two":
            sp = t0 if i % 3 else t0 - 1
        else:
            sp = t0 - (i % 7)
        g.create(spawn=sp, rev=1, hrev=1, conn=0 if i % 11 else 1, owner=1 + i % 3)
    for i in range(n):
        if i % 4 != 1:
            g.optin(i, v=3 if i % 5 else 0, key=0)
    quieten(g.ops, range(len(g.ops)), 25)
    # a few reschedules move consumers to the back of their queue entry
    for _ in range(rng.randint(0, 5)):
        c = rng.randrange(n)
        g.update(c, nc=[], no=[], ini=[t0 - rng.randint(0, 3), 1, 0], sender=g.cons[c]["owner"])
    g.begin(dt=rng.choice([4, 5, 6]), failclient=rng.choice([0, 0, 2 + rng.randint(0, 150)]))
    g.end()
    g.begin(dt=rng.choice([0, 1]))
    g.begin(dt=1)
    return g.case()


def gen(rng, tier):
    for _ in range(3):
        yield halting_history(rng)
    total = 500 if tier == "quick" else 6000
    for i in range(total):
        n = rng.choice([6, 10, 15, 25, 40]) if rng.random() < 0.9 else rng.randint(40, 90)
        yield random_history(rng, n, W_LAUNCH)
    for _ in range(2 if tier == "quick" else 12):
        yield big_history(rng)


# ------------------------------------------------------------------ evidence helpers

def project(case, obs):
    """The implementation's observation of a consumer carries a 14th element (IBC channel object closed) that the
    model does not track (monitor clause 13 checks it); it is dropped before model and implementation are compared."""
    if not isinstance(obs, list) or len(obs) != 2:
        return obs
    return [[[st[0], st[1], [c[:13] for c in st[2]], st[3], st[4]] for st in obs[0]], obs[1]]


def edges_of(obs):
    prev, out = {}, set()
    for step in obs[0]:
        for c in step[2]:
            p = prev.get(c[0], 0)
            if p != c[1]:
                out.add((p, c[1]))
            prev[c[0]] = c[1]
    return out


def nontrivial(case, inp, obs):
    if not obs or not isinstance(obs[0], list) or obs == [-999]:
        return None
    e = edges_of(obs)
    if not ({(2, 3), (2, 1)} & e):
        return None
    codes = sorted({s[0] for s in obs[0]})
    maxdue = 0
    for op, step in zip(inp[1], obs[0]):
        if op[0] == 7:
            maxdue = max(maxdue, len(op[2]))
    return json.dumps([sorted(e), codes, 0 if maxdue <= 3 else 1 if maxdue <= 200 else 2])


CLAUSES = {
    1: "consumer ids are not 0,1,2,... issued once each in order by successful creates",
    2: "a consumer's phase moved along an edge outside registered<->initialized->launched->stopped->deleted",
    3: "phase, spawn time and spawn-queue membership are inconsistent",
    4: "a launched consumer has no genesis or no client binding",
    5: "launch schedule: wrong consumers attempted (first min(200, due) in queue order) or wrong outcome of an attempt",
    6: "a VSC packet was queued or sent for a stopped/deleted consumer",
    7: "a consumer was deleted outside a begin-block or before stop time + unbonding period",
    8: "a deleted consumer still has protocol state",
    9: "protocol state of a stopped consumer changed before its removal",
    10: "BeginBlock returned an error instead of falling back to registered (chain halt)",
    11: "removal schedule: wrong consumers processed (first min(200, due)) or a due stopped consumer was not deleted",
    12: "raw store keys of a consumer do not match its records",
    13: "a consumer with an established channel was deleted but the channel was not closed",
    14: "EndBlock returned an error (chain halt)",
    15: "an operation panicked (chain halt)",
    16: "a stopped consumer is not scheduled for removal under its removal time",
}


def describe(codes):
    return "; ".join(CLAUSES.get(c, str(c)) for c in codes)


def histogram(part, c):
    n = sum(1 for o in c["ops"] if abs(o[0]) == 1)
    return ["consumers<=10" if n <= 10 else "consumers<=200" if n <= 200 else "consumers>200", "ops<=20" if len(c["ops"]) <= 20 else "ops>20"]


PARTS = [Part("lifecycle", "c10", "lifecycle", gen, project=project, nontrivial=nontrivial, describe=describe)]
