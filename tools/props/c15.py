"""C15: the provider's own consensus set is the top-M bonded validators (DESIGN.md 6.15)."""
import json
from check import Part

ID = "C15"
DESIGN_REF = "DESIGN.md 6.15"
RULE = ("staking histories over the real provider keeper: 1-12 validators (some not existing at genesis), tokens from "
        "{k*10^6, k*10^6+r} (ties in power frequent), InitGenesis then 3-14 blocks; between blocks validators gain/lose tokens "
        "(crossing the M boundary both ways, unbonding to zero, new validators), are jailed/unjailed with or without the staking "
        "EndBlock, staking MaxValidators changes, M is changed by MsgUpdateParams from the authority (below/equal/above the number "
        "bonded and relative to MaxValidators, incl. rejected M = 0); view queries (IterateBondedValidatorsByPower, "
        "TotalBondedTokens, BondedRatio) at arbitrary points incl. mid-block after staking changes. Non-trivial = a block whose "
        "returned updates contain a removal or an addition; distinct = distinct (oracle list, M, updates)")
ASSUMPTIONS = [
    "the staking oracle list (GetBondedValidatorsByPower) holds distinct consensus addresses and keys with positive last powers "
    "(checked on every snapshot, monitor clause 7)",
    "the consensus engine applies the returned updates as CometBFT does (power 0 removes the key, any other power sets it); "
    "no_valupdates_staking / no_valupdates_genutil return no updates (read in the source, not executed by the driver)",
    "int64 ranges are not modelled",
]
TRUSTED_BASE = [
    "modelled: ProviderValidatorUpdates, CreateProviderConsensusValidator, Set/GetLastProviderConsensusValSet (store in address order), "
    "DiffValidators, InitGenesisValUpdates, IterateBondedValidatorsByPower, TotalBondedTokens, BondedRatio; oracle inputs: staking "
    "bonded-by-power list (address, key, last power, tokens), M, staking token supply",
]

MIL = 10 ** 6


def gen_history(rng, tier):
    n = rng.choice([1, 2, 3, 4, 4, 5, 6, 6, 8, 10, 12, rng.randint(13, 25)])
    tokens = []
    for _ in range(n):
        if rng.random() < 0.15:
            tokens.append(0)
        else:
            tokens.append(rng.choice([1, 1, 2, 2, 3, 5, 10]) * MIL + rng.choice([0, 0, 1, 500000, 999999]))
    max_vals = max(1, rng.choice([100, 100, n, n - 1, n + 1, n // 2]))
    M = max(1, rng.choice([1, 2, n // 2, n - 1, n, n + 1, rng.randint(1, n + 2)]))
    ops = []
    for _ in range(rng.randint(3, 14)):
        for _ in range(rng.randint(0, 4)):
            k = rng.random()
            v = rng.randrange(n)
            if k < 0.4:
                kk = rng.choice([0, 1, 1, 2, 3, 5, 10])
                ops.append([20, v, kk * MIL + rng.choice([0, 0, 1, 999999]) if kk else rng.choice([0, 999999])])
            elif k < 0.55:
                ops.append([21, v, rng.choice([1, 1, 0])])
            elif k < 0.72:
                ops.append([24, rng.choice([0, 1, 1, 2, n - 1, n, n + 1, max_vals, max_vals + 1, rng.randint(1, n + 2)])])
            elif k < 0.8:
                ops.append([23, max(1, rng.choice([n, n - 1, n + 1, n // 2, 100, 1]))])
            elif k < 0.9:
                ops.append([2])
            else:
                ops.append([22])
        if rng.random() < 0.9:
            ops.append([22])
        if rng.random() < 0.3:
            ops.append([2])
        ops.append([1])
    return {"tokens": tokens, "max_vals": max_vals, "M": M, "ops": ops}


def boundary_case():
    """two validators of equal power swap places around M = 1 by one token; then M grows and shrinks"""
    return {"tokens": [2 * MIL, 2 * MIL + 1, MIL], "max_vals": 100, "M": 1,
            "ops": [[1], [2], [20, 0, 3 * MIL], [22], [1], [2], [20, 0, 2 * MIL], [20, 1, 3 * MIL], [22], [1], [24, 3], [1], [2],
                    [24, 2], [1], [21, 1, 1], [2], [22], [1], [21, 1, 0], [22], [1], [23, 1], [22], [1], [2]]}


def gen(rng, tier):
    total = 500 if tier == "quick" else 15000
    yield boundary_case()
    for _ in range(total):
        yield gen_history(rng, tier)


def nontrivial(case, inp, obs):
    for o, ob in zip(inp, obs):
        if o[0] == 1 and len(ob) == 3:
            us = ob[0]
            if any(u[1] == 0 for u in us) or len(us) >= 2:
                return json.dumps([o[1], o[2], us])
    return None


CLAUSES = {1: "the recorded provider consensus set is not the first min(M, bonded) validators of the bonded-by-power list with provider keys and last powers",
           2: "the engine-side set (all returned updates folded from genesis) differs from the recorded set",
           3: "the recorded or engine-side set has more than M validators",
           4: "IterateBondedValidatorsByPower does not visit exactly the first min(M, bonded) validators",
           5: "TotalBondedTokens is not the bonded tokens of the first min(M, bonded) validators",
           6: "BondedRatio is not TotalBondedTokens / staking token supply",
           7: "oracle hypothesis violated (duplicate address/key or non-positive power in the bonded list)",
           8: "the returned updates are not the difference between the previously recorded set and the new one"}


def describe(codes):
    return "; ".join(CLAUSES.get(c, str(c)) for c in sorted(set(codes)))


def histogram(part, c):
    n = len(c["tokens"])
    out = ["n<=12" if n <= 12 else "n>12", "M<n" if c["M"] < n else ("M=n" if c["M"] == n else "M>n")]
    for name, code in (("jailing", 21), ("M changed", 24), ("MaxValidators changed", 23), ("views", 2)):
        if any(o[0] == code for o in c["ops"]):
            out.append(name)
    return out


PARTS = [Part("history", "c15", "provcons", gen, nontrivial=nontrivial, describe=describe)]
