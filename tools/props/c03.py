"""C03: Top-N consumers are validated by every validator in the top N% of power (DESIGN.md 6.3)."""
import hashlib
import json
from check import Part

ID = "C03"
DESIGN_REF = "DESIGN.md 6.3"
RULE = ("dec: ~20k LegacyDec operations per run on raw big integers (ties at exactly .5, negatives, zero, 10^30-scale); "
        "minpower: power tables of 1-40 validators (many equal powers, powers up to 2^55, totals around and above 2*10^16 "
        "incl. the rounding witness) with N in {1,49,50,51,66,67,99,100,0,101,...}; history: 3-10 validators, one consumer "
        "driven by real messages (Top-N changes/resets, opt-in/out incl. wrong signer and unknown validators, power changes "
        "to boundary values, jailing, re-launch attempts) across epochs. Non-trivial = the threshold is not the largest power "
        "(minpower), an opt-out is refused because of the threshold or a below-threshold member stays (history)")
ASSUMPTIONS = [
    "powers are >= 0 with positive total and fit int64; total < 2*10^16 for exactness of the threshold (LegacyDec.Quo rounds at "
    "18 decimals; C03_threshold_rounding_witness shows the bound is needed)",
    "history part: tokens = power * 10^6 and at most 10 validators, so the token-sorted truncation of ComputeNextValidators "
    "coincides with the provider's active set (property C02 covers the general case)",
    "priority list, validator-set cap and power cap are unset in the history part (property C04)",
]
TRUSTED_BASE = [
    "modelled: ComputeMinPowerInTopN, UpdateMinimumPowerInTopN, CanValidateChain, HasMinPower, FulfillsMinStake, HandleOptIn, "
    "HandleOptOut, OptInTopNValidators, ComputeConsumerNextValSet, ComputeNextValidators (sort + truncation + filter), the "
    "power-shaping branch of UpdateConsumer, the validator-set conditions of LaunchConsumer; oracle inputs: staking's bonded "
    "list, last powers, tokens, MaxProviderConsensusValidators; cosmossdk.io/math.LegacyDec is modelled in Base/Dec.v and "
    "differentially tested by part 'dec'",
]

P = 10 ** 18
H = 5 * 10 ** 17
I63 = 2 ** 63 - 1


# ------------------------------------------------------------------ dec
def _dval(rng):
    k = rng.random()
    if k < 0.05:
        v = 0
    elif k < 0.15:
        v = rng.randint(1, 1000)
    elif k < 0.3:
        v = rng.randint(1, 50) * P
    elif k < 0.45:
        v = rng.randint(0, 200) * P + H + rng.choice([0, 0, 0, 1, -1])
    elif k < 0.55:
        v = rng.randint(0, 10 ** 6) * (P // 10 ** rng.randint(0, 18))
    elif k < 0.7:
        v = rng.randint(1, 10 ** 20)
    elif k < 0.9:
        v = rng.randint(10 ** 29, 10 ** 31)
    else:
        v = rng.randint(10 ** 35, 10 ** 40)
    return -v if rng.random() < 0.3 else v


def _dec_op(rng):
    op = rng.choice([1, 1, 2, 3, 3, 3, 4, 5, 6, 7, 7, 8, 9, 10, 11, 12, 13])
    a, b = _dval(rng), _dval(rng)
    if op in (1, 2) and rng.random() < 0.4:        # products that end exactly in .5 (banker's rounding)
        a = rng.choice([H, 3 * H, -H, 5 * H, 25 * 10 ** 16])
        b = (2 * rng.randint(0, 10 ** rng.randint(1, 30)) + 1) * rng.choice([1, -1]) * rng.choice([1, 2, 4])
    if op in (3, 4):
        if rng.random() < 0.4:                     # quotients that end exactly in .5 at the 18th decimal
            b = rng.choice([2, 4, 8, 16, 5 * 2, -2]) * P * rng.choice([1, 10, 1000])
            a = (2 * rng.randint(0, 10 ** rng.randint(1, 30)) + 1) * rng.choice([1, -1])
        if b == 0:
            b = 1
    if op in (5, 11):
        b = rng.choice([1, -1, 2, 3, 7, 100, rng.randint(1, 10 ** 6), rng.randint(1, I63), -rng.randint(1, I63)])
    if op in (6, 7, 8):
        b = 0
    if op == 12:
        a, b = rng.choice([0, 1, -1, rng.randint(-10 ** 6, 10 ** 6), rng.randint(-I63, I63)]), 0
    if op == 13 and rng.random() < 0.3:
        b = a
    return [op, a, b]


def gen_dec(rng, tier):
    ncases = 100 if tier == "quick" else 1000
    for _ in range(ncases):
        yield {"kind": "dec", "dec_ops": [_dec_op(rng) for _ in range(200)]}


# ------------------------------------------------------------------ minpower
NS = [1, 50, 51, 66, 67, 99, 100, 49, 33, 34, 2, 75, 80, 95]


def _powers(rng, n):
    mode = rng.choice(["small", "ties", "ties2", "huge", "mixed", "ones", "geometric", "zeros", "big16"])
    out = []
    for i in range(n):
        if mode == "small":
            p = rng.randint(1, 20)
        elif mode == "ties":
            p = rng.choice([5, 5, 5, 7, 100])
        elif mode == "ties2":
            p = rng.choice([1, 1, 2, 3])
        elif mode == "huge":
            p = rng.randint(2 ** 40, 2 ** 55)
        elif mode == "ones":
            p = 1
        elif mode == "geometric":
            p = max(1, int(1000 * (0.7 ** i))) + rng.randint(0, 2)
        elif mode == "zeros":
            p = rng.choice([0, 0, 1, 3, 10])
        elif mode == "big16":
            p = rng.randint(10 ** 14, 2 * 10 ** 15)
        else:
            p = rng.choice([1, rng.randint(1, 1000), rng.randint(1, 10 ** 9), 2 ** 40])
        out.append(p)
    if sum(out) == 0:
        out[rng.randrange(n)] = 1
    while sum(out) > I63 // 2:
        out = [max(1, p // 2) for p in out]
    return out


def _exact_share_table(rng):
    """tables where some prefix holds exactly N % (the GTE boundary)"""
    n_pct = rng.choice([50, 51, 66, 67, 75, 99, 100, 1])
    unit = rng.choice([1, 3, 10 ** 6, 10 ** 12])
    top = [n_pct * unit]
    rest = 100 - n_pct
    tail = []
    while rest > 0:
        x = rng.randint(1, rest)
        tail.append(x * unit)
        rest -= x
    if rng.random() < 0.5 and top[0] > unit:      # split the top into pieces, keeps the exact prefix sum
        a = rng.randint(1, n_pct - 1) if n_pct > 1 else 1
        top = [a * unit, (n_pct - a) * unit] if n_pct > 1 else top
    powers = (top + tail)[:40]
    rng.shuffle(powers)
    return {"powers": powers, "n": n_pct + rng.choice([0, 0, 0, 1, -1]) if 1 < n_pct < 100 else n_pct}


WITNESS = {"powers": [5 * 10 ** 17, 25 * 10 ** 16, 25 * 10 ** 16 + 1], "n": 50}


def gen_minpower(rng, tier):
    ncases = 500 if tier == "quick" else 6000
    yield {"kind": "minpower", "tables": [
        WITNESS, {"powers": [25 * 10 ** 16 + 1, 5 * 10 ** 17, 25 * 10 ** 16], "n": 50},
        {"powers": [1], "n": 0}, {"powers": [1], "n": 101}, {"powers": [1, 2, 3], "n": 4000000000},
        {"powers": [], "n": 50}, {"powers": [10 ** 16, 10 ** 16 - 1, 1], "n": 50},
        {"powers": [10 ** 16, 10 ** 16, 1], "n": 50}, {"powers": [10 ** 16 - 1, 10 ** 16 - 1, 1], "n": 50}]}
    for _ in range(ncases):
        tables = []
        for _ in range(8):
            r = rng.random()
            if r < 0.15:
                tables.append(_exact_share_table(rng))
                continue
            n = rng.choice([1, 1, 2, 3, 4, 5, 8, 12, 13, rng.randint(1, 40), rng.randint(14, 40)])
            powers = _powers(rng, n)
            topn = rng.choice(NS + NS + [rng.randint(1, 100), rng.randint(50, 100), 0, 101, 255, 1000])
            tables.append({"powers": powers, "n": topn})
        yield {"kind": "minpower", "tables": tables}


# ------------------------------------------------------------------ history
def gen_history(rng, tier):
    ncases = 700 if tier == "quick" else 8000
    for _ in range(ncases):
        n = rng.randint(3, 10)
        base = rng.choice([[5, 5, 5, 7, 10], [1, 2, 3], [10, 20, 30, 40, 100], [1], list(range(1, 12)), [3, 3, 4, 1000]])
        powers = [rng.choice(base) for _ in range(n)]
        max_active = rng.choice([n, n, n + 1, max(1, n - 1), max(1, n - 2), max(2, n // 2), 180])
        max_vals = rng.choice([100, 100, n, max(2, n - 1)])
        cur = list(powers)
        jailed = [False] * n
        ops = []

        def topn_op():
            k = rng.random()
            if k < 0.12:
                tn = 0
            elif k < 0.2:
                tn = rng.choice([1, 30, 49, 101, 200])
            else:
                tn = rng.choice([50, 51, 66, 67, 75, 80, 90, 99, 100, rng.randint(50, 100)])
            al = [] if rng.random() < 0.75 else rng.sample(range(n + 2), rng.randint(1, n))
            dl = [] if rng.random() < 0.75 else rng.sample(range(n + 2), rng.randint(1, max(1, n // 2)))
            ms = 0 if rng.random() < 0.7 else rng.choice(cur + [1]) * 10 ** 6 + rng.choice([0, 0, 1, -1])
            return [1, tn, al, dl, max(0, ms), rng.choice([0, 0, 1])]

        def opt_op(code):
            r = rng.random()
            if r < 0.06:
                return [code, n + rng.randint(0, 3), 0]          # unregistered operator
            if r < 0.12:
                return [code, rng.randrange(n), 1]               # somebody else signs
            return [code, rng.randrange(n), 0]

        def power_op():
            v = rng.randrange(n)
            if jailed[v]:
                return None
            r = rng.random()
            if r < 0.55:
                p = rng.choice(cur)                              # tie with somebody
            elif r < 0.8:
                p = max(0, rng.choice(cur) + rng.choice([1, -1]))
            elif r < 0.9:
                p = 0
            else:
                p = rng.choice(base) * rng.choice([1, 2, 10])
            if v == 0:
                p = max(1, p)
            cur[v] = p
            return [6, v, p]

        # prelude: a few opt-ins / a refused opt-out before launch, Top-N set before or after launch
        for _ in range(rng.randint(0, 3)):
            ops.append(opt_op(rng.choice([4, 4, 4, 5])))
        pre = rng.random() < 0.7
        if pre:
            ops.append(topn_op())
            if rng.random() < 0.3:
                ops.append(power_op() or [3])
        ops.append([2])
        if not pre or rng.random() < 0.3:
            ops.append(topn_op())
        for _ in range(rng.randint(4, 16)):
            r = rng.random()
            if r < 0.28:
                ops.append([3])
            elif r < 0.52:
                o = power_op()
                if o:
                    ops.append(o)
            elif r < 0.74:
                ops.append(opt_op(5))
            elif r < 0.86:
                ops.append(opt_op(4))
            elif r < 0.95:
                ops.append(topn_op())
            elif r < 0.98:
                v = rng.randrange(1, n)
                jailed[v] = not jailed[v]
                ops.append([7, v, 1 if jailed[v] else 0])
            else:
                ops.append([2])
        ops.append([3])
        yield {"kind": "history", "powers": powers, "max_vals": max_vals, "max_active": max_active, "ops": ops}


# ------------------------------------------------------------------ evidence helpers
def _digest(x):
    return hashlib.sha1(json.dumps(x).encode()).hexdigest()[:16]


def nontrivial_dec(case, inp, obs):
    return _digest(obs)


def nontrivial_minpower(case, inp, obs):
    keys = []
    for tb, r in zip(case["tables"], obs):
        if r and tb["powers"] and r[0] != max(tb["powers"]):
            keys.append([sorted(tb["powers"]), tb["n"]])
    return _digest(keys) if keys else None


def nontrivial_history(case, inp, obs):
    refused = any(o[0] == 4 for o in obs)
    stays = False
    for op, o in zip(inp[1] if len(inp) > 1 else [], obs):
        if op[0] in (2, 3) and o[0] == 0 and o[1]:
            pw = {b[0]: b[1] for b in op[2]}
            if any(pw.get(v, 0) < o[1][0] for v in o[3]):
                stays = True
    if not (refused or stays):
        return None
    return _digest([case["powers"], [o[:2] for o in obs]])


CLAUSES = {
    1: "the stored/returned Top-N threshold is not the power m with share(p >= m) >= N% > share(p > m)",
    2: "an active validator with power >= m that passes allowlist/denylist/min-stake is missing from the consumer set or has no opt-in record",
    3: "opt-out outcome contradicts 'succeeds iff launched and (not Top-N or power < stored m)', or records changed on rejection",
    4: "a validator below m is in the consumer set without an opt-in record",
    5: "ComputeMinPowerInTopN accepted N outside (0,100]",
    6: "an accepted opt-in left no record",
}


def describe(codes):
    return "; ".join(CLAUSES.get(c, str(c)) for c in codes)


def histogram(part, c):
    if part == "dec":
        return ["dec_ops"]
    if part == "minpower":
        out = []
        for tb in c["tables"]:
            out.append("table n<=12" if len(tb["powers"]) <= 12 else "table n>12")
            if sum(tb["powers"]) >= 2 * 10 ** 16:
                out.append("table total>=2e16")
        return out
    if part == "system":
        n = len(c["tokens"])
        out = ["system", "M<n" if c["M"] < n else ("M=n" if c["M"] == n else "M>n")]
        for name, i in (("set_cap", 2), ("power_cap", 3), ("min_stake", 4), ("allow_inactive", 5), ("allowlist", 6), ("denylist", 7)):
            if any(o[0] == 10 and o[i] for o in c["ops"]):
                out.append("system " + name)
        return out
    out = ["history"]
    kinds = {1: "op set_top_n", 2: "op launch", 3: "op epoch", 4: "op opt_in", 5: "op opt_out", 6: "op power", 7: "op jail"}
    for o in c["ops"]:
        out.append(kinds[o[0]])
    return out


LEVEL_TEXT = "proof"
LEVEL_NOTE = ("C03_threshold is exact for total power < 2*10^16; above that LegacyDec.Quo's 18-decimal rounding can accept a share "
              "up to 5*10^-19 below N% (C03_threshold_rounding_witness, replayed on the real function by part 'minpower')")

PARTS = [
    Part("dec", "c03", "decrun", gen_dec, nontrivial=nontrivial_dec, describe=describe),
    Part("minpower", "c03", "topn", gen_minpower, nontrivial=nontrivial_minpower, describe=describe),
    Part("history", "c03", "topn", gen_history, nontrivial=nontrivial_history, describe=describe),
]

# ---- composed model (Model/EligibilityTopN.v = Eligibility x TopN): theorems in Props/C03System.v, part "system" in harness/c03sys/part.py
EXTRA_PROPS = ["C03System"]
import importlib.util as _ilu, os as _os
_spec = _ilu.spec_from_file_location("c03sys_part", _os.path.join(_os.path.dirname(_os.path.abspath(__file__)), "..", "..", "harness", "c03sys", "part.py"))
_c03sys = _ilu.module_from_spec(_spec); _spec.loader.exec_module(_c03sys)
PARTS.append(_c03sys.PART)
