"""C07 (partial): equivocation evidence punishes exactly the signer, and only when valid (DESIGN.md 6.7)."""
import json
from check import Part, ddmin

ID = "C07"
LEVEL_TEXT = "proof (partial: cryptographic validity is an oracle of the model; exercised by the driver with real signatures)"
DESIGN_REF = "DESIGN.md 6.7"
RULE = ("worlds of 2-4 validators (bonded / unbonding / unbonded / jailed / tombstoned, stake with unbonding and redelegating "
        "entries) and 1-3 consumers (chain ids shared on purpose, tombstone flag on/off, own slash fraction / jail duration / "
        "minimum evidence height, with / without client); histories of key assignments (assigned, replaced, never assigned, "
        "pruned), block time, external staking changes, parameter changes and evidence submissions; every submission is a "
        "VALID double-vote / misbehaviour built with real ed25519 signatures plus exactly one named mutation (or none), through "
        "the message (ValidateBasic + msg server) or the keeper entry; a case is non-trivial per distinct "
        "(kind, entry, mutation, result class); quick ~1000 histories")
ASSUMPTIONS = [
    "PARTIAL: Ed25519 verification and the 07-tendermint light client are oracles of the model (per vote: the chain ids over "
    "which its signature verifies under the supplied key; per commit signature: the verdict of verifyLightBlockCommitSig; "
    "CheckForMisbehaviour / VerifyClientMessage / Misbehaviour.ValidateBasic verdicts). The driver obtains them from "
    "cometbft / ibc-go directly (never from interchain-security code) on real signed objects",
    "addresses are identified with keys (no collisions of the 20-byte key hash)",
    "the staking stand-in burns min(tokens, trunc(fraction*power*10^6)) on Slash and records the call; unbonding / redelegation "
    "entries are reported by SlashUnbondingDelegation / SlashRedelegation at their initial balance (real x/staking skips mature entries)",
    "a failed transaction is rolled back by the SDK including staking / slashing state; the stand-in World is not transactional, "
    "the driver restores it after a failed submission and reports `dirty` when there was something to restore",
    "x/slashing never removes a tombstone; validator i has provider address i for its whole life (no consensus-key rotation)",
    "design observation, NOT flagged: evidence is bound to a chain id, not to a consumer. With consumers sharing a chain id the "
    "same double-vote evidence is accepted for each of them under which the key resolves (an unassigned key resolves to itself "
    "everywhere), every time with THAT consumer's slash fraction / jail duration / tombstone flag "
    "(Props/C07.v C07_params_of_infraction_chain_refuted, third scenario case); the property text accepts evidence valid for the consumer's chain id",
    "the full HandleConsumerMisbehaviour path runs the REAL light client (LightClientModule over a 02-client StoreProvider on a "
    "KV store of the same multistore, ClientState/ConsensusState written with Initialize); nothing is stubbed",
]
TRUSTED_BASE = [
    "modelled: HandleConsumerDoubleVoting, VerifyDoubleVotingEvidence, SubmitConsumerDoubleVoting (key lookup), ValidateBasic "
    "(as bits), HandleConsumerMisbehaviour, CheckMisbehaviour, GetByzantineValidators, headersStateTransitionsAreConflicting "
    "(as a bit), SlashValidator, JailAndTombstoneValidator, ComputePowerToSlash, GetProviderAddrFromConsumerAddr; "
    "oracles: ed25519, cometbft vote/commit sign bytes, ibc-go 07-tendermint; stand-ins: staking, slashing",
]

PR = 10 ** 6
FRACS = [0, 5 * 10 ** 16, 10 ** 17, 5 * 10 ** 17, 10 ** 18, 123456789 * 10 ** 9]
JAILS = [0, 600 * 10 ** 9, 10 ** 15]
DV_MUTS = ["chainA", "chainB", "chainAB", "heightB", "roundB", "typeB", "tsB", "bid_equal", "bid_swap", "sigA_otherkey",
           "sigB_otherkey", "addrB", "addrAB", "addrAB_in", "valset_missing", "valset_extra", "valset_wrongkey", "cid_bad",
           "cid_empty", "sig_swap", "sigA_forge", "sigB_forge", "post_tsA", "post_hAB"]
DV_MUTS_KEEPER = ["key_nil", "key_other", "bid_swap", "bid_equal", "chainA", "chainB", "heightB", "addrB", "sigB_forge", "tsB"]


def gen_val(rng, i, special=None):
    st = rng.choice([3, 3, 3, 3, 2, 1]) if special is None else special
    tokens = (i + 1) * PR + rng.choice([0, 0, 1, 499999, 999999, rng.randint(0, 5 * PR)])
    ent = lambda: [rng.choice([1, 400000, 999999, PR, 1600000, rng.randint(1, 3 * PR)]) for _ in range(rng.choice([0, 0, 1, 2]))]
    return {"tokens": tokens, "status": st, "jailed": int(rng.random() < 0.15), "tomb": int(rng.random() < 0.08),
            "until": rng.choice([0, 0, 5 * 10 ** 9, 10 ** 16]), "lastpow": tokens // PR if st == 3 else rng.choice([0, 0, tokens // PR]),
            "unb": ent(), "red": ent(), "noinfo": 0}


class World:
    """python-side bookkeeping only to generate mostly valid evidence; the model takes the truth from the store"""

    def __init__(self, rng, nv, nc):
        self.rng, self.nv, self.nc = rng, nv, nc
        self.vals = [gen_val(rng, i) for i in range(nv)]
        shared = rng.random() < 0.6
        self.cons = []
        for c in range(nc):
            self.cons.append({"chain": 5 if shared or c == 0 else 5 + c, "client": int(rng.random() < 0.9), "nochain": 0,
                              "minh": rng.choice([0, 10, 10, 50]),
                              "ds": [rng.choice(FRACS), rng.choice(JAILS), rng.choice([0, 1, 1])] if rng.random() < 0.97 else None,
                              "launched": int(rng.random() < 0.8), "trusted": []})
        self.cur = [[v for v in range(nv)] for _ in range(nc)]      # key id used by validator v on consumer c
        self.old = [[[] for _ in range(nv)] for _ in range(nc)]
        self.free = [list(range(100, 108)) for _ in range(nc)]
        self.acts = []

    def assign(self, c, v):
        if not self.free[c]:
            return
        k = self.free[c].pop(self.rng.randrange(len(self.free[c])))
        self.acts.append(["assign", c, v, k])
        if self.cur[c][v] != v:
            self.old[c][v].append(self.cur[c][v])
        self.cur[c][v] = k

    def key_for(self, c, v):
        r = self.rng.random()
        if self.old[c][v] and r < 0.25:
            return self.rng.choice(self.old[c][v])
        if r < 0.05:
            return v                      # provider key although another one may be assigned
        return self.cur[c][v]

    def other_key(self, c, v):
        pool = [x for x in range(self.nv) if x != v] + [200, 201, 107]
        w = self.rng.choice([x for x in range(self.nv) if x != v] or [v])
        pool.append(self.cur[c][w] if c < self.nc else w)
        return self.rng.choice(pool)

    def dv(self, mut=None, entry=None, c=None, v=None):
        rng = self.rng
        c = rng.randrange(self.nc) if c is None else c
        if rng.random() < 0.04:
            c = self.nc + rng.choice([0, 3])                      # unknown consumer
        cc = self.cons[c] if c < self.nc else self.cons[0]
        v = rng.randrange(self.nv) if v is None else v
        entry = (0 if rng.random() < 0.8 else 1) if entry is None else entry
        if mut is None:
            mut = "none" if rng.random() < 0.4 else rng.choice(DV_MUTS if entry == 0 else DV_MUTS_KEEPER)
        key = self.key_for(c, v) if c < self.nc else v
        minh = cc["minh"]
        h = rng.choice([minh, minh, minh + 1, minh + 100, max(1, minh - 1), max(1, minh)])
        arg = self.other_key(c, v)
        if mut.startswith("chain"):
            arg = rng.choice([0, 90, 91] + [x["chain"] for x in self.cons])
        self.acts.append(["dv", entry, {"c": c, "key": key, "chain": cc["chain"], "h": max(1, h), "mut": mut, "arg": arg}])

    def trusted_for(self, c):
        pw = [40, 30, 20, 10]
        return [[self.cur[c][v], pw[v]] for v in range(self.nv)]

    def mb(self, kind=None, entry=None, mut=None, c=None):
        rng = self.rng
        c = rng.randrange(self.nc) if c is None else c
        cc = self.cons[c]
        n = self.nv
        vals = [list(x) for x in cc["trusted"]]
        kind = kind or rng.choice(["equiv", "equiv", "lunatic", "amnesia", "same"])
        entry = rng.choice([0, 0, 0, 1, 2, 2]) if entry is None else entry
        mut = mut if mut is not None else ("none" if rng.random() < 0.45 else rng.choice(
            ["chain", "client", "client_none", "h2_lower", "h2_higher", "old", "trusted", "badsig_last", "nil_last", "absent_last",
             "few", "unknown_cons", "cid_bad"]))
        full = [1] * n
        h1 = {"round": 1, "dt": 10, "app": 0, "sigs": list(full)}
        h2 = {"round": 1, "dt": 20, "app": 0, "sigs": list(full)}
        if kind == "lunatic":
            h2["app"] = 1
            h2["round"] = rng.choice([1, 2])
        elif kind == "amnesia":
            h2["round"] = 2
        elif kind == "same":
            h2 = dict(h1, sigs=list(full))
        # random signer subsets that still carry > 2/3 (the first three of 40/30/20/10, or all)
        for hd in (h1, h2):
            r = rng.random()
            if n == 4 and r < 0.35:
                hd["sigs"][3] = rng.choice([0, 2])
            elif n == 4 and r < 0.5:
                hd["sigs"][2] = rng.choice([0, 2])              # 40+30+10 = 80 > 66.7
        minh = cc["minh"]
        sp = {"c": c, "cid": "", "chain": cc["chain"], "client": c, "h": max(minh, trusted_h() + 1) + rng.choice([0, 0, 1, 7]), "h2": 0,
              "vals": vals, "trusted": [list(x) for x in cc["trusted"]], "h1": h1, "hd2": h2, "mut": mut}
        if mut == "chain":
            sp["chain"] = rng.choice([90, 0] + [x["chain"] + 1 for x in self.cons])
        elif mut == "client":
            sp["client"] = (c + 1) % max(2, self.nc)
        elif mut == "client_none":
            sp["client"] = -1
        elif mut == "h2_lower":
            sp["h2"] = sp["h"] - 1
        elif mut == "h2_higher":
            sp["h2"] = sp["h"] + 1
        elif mut == "old":
            if minh > trusted_h() + 1:
                sp["h"] = minh - 1
        elif mut == "trusted":
            sp["trusted"] = [[200, 50], [201, 50]]
        elif mut == "badsig_last":
            rng.choice([h1, h2])["sigs"][n - 1] = rng.choice([3, 4])
        elif mut == "nil_last":
            h2["sigs"][n - 1] = 2
        elif mut == "absent_last":
            h1["sigs"][n - 1] = 0
        elif mut == "few":
            hd = rng.choice([h1, h2])
            hd["sigs"] = [1] + [0] * (n - 1)                    # 40 % only: ValidateBasic fails, light client passes
        elif mut == "unknown_cons":
            sp["c"] = self.nc + 1
        elif mut == "cid_bad":
            sp["cid"] = "x1"
        if entry == 2:
            # GetByzantineValidators alone: arbitrary flags / corrupted signatures anywhere
            for hd in (h1, h2):
                hd["sigs"] = [rng.choice([0, 1, 1, 2, 3, 4] if rng.random() < 0.3 else [0, 1, 1, 2]) for _ in range(n)]
            if rng.random() < 0.08:
                sp["mut"] = "empty_h2"
        self.acts.append(["mb", entry, sp])

    def ext(self):
        rng = self.rng
        v = rng.randrange(self.nv)
        nv = gen_val(rng, v)
        nv["jailed"] = rng.choice([0, 0, 1])
        nv["tomb"] = 0
        self.acts.append(["ext", v, nv])

    def case(self):
        return {"vals": self.vals, "cons": self.cons, "acts": self.acts}


def trusted_h():
    return 5


def build(rng, shape):
    nv = rng.choice([2, 3, 4]) if shape != "mb" else 4
    nc = rng.choice([1, 2, 2, 3])
    w = World(rng, nv, nc)
    for c in range(nc):                                   # initial key assignments, then the light clients' trusted sets
        for v in range(nv):
            if rng.random() < 0.5:
                w.assign(c, v)
    for c in range(nc):
        w.cons[c]["trusted"] = w.trusted_for(c)
    if shape == "dv":
        for _ in range(rng.randint(2, 6)):
            r = rng.random()
            if r < 0.6:
                w.dv()
            elif r < 0.7:
                w.assign(rng.randrange(nc), rng.randrange(nv))
            elif r < 0.78:
                w.ext()
            elif r < 0.85:
                w.acts.append(["time", rng.choice([1, 10 ** 9, 6 * 10 ** 9, 22 * 86400 * 10 ** 9])])
            elif r < 0.9:
                w.acts.append(["prune", rng.randrange(nc)])
            else:
                c = rng.randrange(nc)
                u = rng.choice([{"minh": rng.choice([0, 11, 51])}, {"ds": [rng.choice(FRACS), rng.choice(JAILS), rng.choice([0, 1])]},
                                {"client": 0}])
                w.acts.append(["cons", c, u])
                if "minh" in u:
                    w.cons[c] = dict(w.cons[c], minh=u["minh"])
    elif shape == "repeat":
        # the same validator hit repeatedly, through different consumers / keys, interleaved with unjailing
        v = rng.randrange(nv)
        for _ in range(rng.randint(2, 5)):
            w.dv(mut="none" if rng.random() < 0.8 else None, v=v)
            r = rng.random()
            if r < 0.3:
                nvv = dict(w.vals[v], jailed=0, tomb=0, status=3, lastpow=w.vals[v]["tokens"] // PR)
                w.acts.append(["ext", v, nvv])
            elif r < 0.4:
                w.acts.append(["time", 10 ** 9])
    elif shape == "mb":
        for v in w.vals:                                   # mostly punishable validators
            if rng.random() < 0.7:
                v.update(status=3, tomb=0, lastpow=v["tokens"] // PR)
        for _ in range(rng.randint(1, 3)):
            r = rng.random()
            if r < 0.75:
                w.mb()
            elif r < 0.85:
                w.acts.append(["time", rng.choice([10 ** 9, 13 * 86400 * 10 ** 9, 15 * 86400 * 10 ** 9])])
            else:
                w.dv()
    elif shape == "noinfo":
        v = rng.randrange(nv)
        w.vals[v].update(noinfo=1, status=3, tomb=0, lastpow=w.vals[v]["tokens"] // PR)
        w.dv(mut="none", v=v, entry=rng.choice([0, 1]))
        if nv == 4:
            w.mb(kind="equiv", entry=rng.choice([0, 1]), mut="none")
    return w.case()


def _val(i, **kw):
    v = {"tokens": (i + 1) * 10 * PR, "status": 3, "jailed": 0, "tomb": 0, "until": 0, "lastpow": (i + 1) * 10, "unb": [], "red": [], "noinfo": 0}
    v.update(kw)
    return v


def scenarios():
    """hand-written histories replaying the clauses the model refutes (Props/C07.v, *_refuted) on the real code"""
    tr = [[0, 40], [1, 30], [2, 20], [3, 10]]
    con = lambda **kw: dict({"chain": 5, "client": 1, "nochain": 0, "minh": 10, "ds": [5 * 10 ** 16, 10 ** 15, 1], "launched": 1, "trusted": tr}, **kw)
    mb = lambda **kw: dict({"c": 0, "cid": "", "chain": 5, "client": 0, "h": 10, "h2": 0, "vals": tr, "trusted": tr,
                            "h1": {"round": 1, "dt": 10, "app": 0, "sigs": [1, 1, 1, 1]},
                            "hd2": {"round": 1, "dt": 20, "app": 0, "sigs": [1, 1, 1, 1]}, "mut": "none"}, **kw)
    dv = lambda c, key, h=10: {"c": c, "key": key, "chain": 5, "h": h, "mut": "none", "arg": 0}
    # (b) finding C07-nil-precommit-framing (repaired; also corpus/C07/nil_precommit.json): header 1 = real block of round 1 committed by all; header 2 = lunatic block of round 0 with
    #     its own validator set {0, 3}, signed by attacker 0 and carrying validator 3's honest NIL precommit of round 0
    yield {"vals": [_val(i) for i in range(4)], "cons": [con(minh=0)],
           "acts": [["mb", 0, mb(vals2=[[0, 40], [3, 10]], hd2={"round": 0, "dt": 10, "app": 7, "sigs": [1, 2]})]]}
    # (a) partial punishment: validator 1 unbonded, validator 2 tombstoned: skipped, the others punished, message accepted
    yield {"vals": [_val(0), _val(1, status=1, lastpow=0), _val(2, tomb=1), _val(3)], "cons": [con()], "acts": [["mb", 0, mb()]]}
    # (d) the same evidence (validator 0, never-assigned key) accepted for two consumers sharing the chain id, each with its
    #     own parameters: 5 % without tombstone on consumer 0, then 100 % with tombstone on consumer 1; a third time: rejected
    yield {"vals": [_val(0), _val(1)], "cons": [con(ds=[5 * 10 ** 16, 600 * 10 ** 9, 0], trusted=tr[:2]), con(ds=[10 ** 18, 10 ** 15, 1], minh=3, trusted=tr[:2])],
           "acts": [["dv", 0, dv(0, 0)], ["dv", 0, dv(1, 0)], ["dv", 0, dv(0, 0)]]}
    # (e) a jailed validator is punished again and its jail end moves EARLIER (consumer 0: 10^15 ns, then consumer 1: 600 s)
    yield {"vals": [_val(0), _val(1)], "cons": [con(ds=[5 * 10 ** 16, 10 ** 15, 0], trusted=tr[:2]), con(ds=[10 ** 17, 600 * 10 ** 9, 0], trusted=tr[:2])],
           "acts": [["dv", 0, dv(0, 0)], ["time", 10 ** 9], ["dv", 1, dv(1, 0)]]}
    # evidence height exactly at / one below the minimum; replaced key still attributable; pruned afterwards
    yield {"vals": [_val(0), _val(1)], "cons": [con(ds=[5 * 10 ** 16, 600 * 10 ** 9, 0], trusted=tr[:2])],
           "acts": [["assign", 0, 1, 100], ["assign", 0, 1, 101], ["dv", 0, dv(0, 100, 9)], ["dv", 0, dv(0, 100, 10)],
                    ["time", 22 * 86400 * 10 ** 9], ["prune", 0], ["dv", 0, dv(0, 100, 10)], ["dv", 0, dv(0, 101, 10)]]}
    # (c) no signing info: SlashValidator succeeds, JailAndTombstoneValidator fails (error / panic), the transaction is rolled back
    yield {"vals": [_val(0, noinfo=1), _val(1), _val(2), _val(3)], "cons": [con()], "acts": [["dv", 0, dv(0, 0)], ["mb", 1, mb()]]}


def gen(rng, tier):
    total = 1000 if tier == "quick" else 20000
    yield from scenarios()
    for i in range(total):
        r = rng.random()
        shape = "dv" if r < 0.55 else "repeat" if r < 0.7 else "mb" if r < 0.97 else "noinfo"
        yield build(rng, shape)


def _ev_ops(inp, obs):
    if len(inp) < 2:            # harness-level panic: reported as a correspondence failure by check.py
        return
    for op, ob in zip(inp[1], obs):
        if op[0] in (3, 4, 5):
            yield op, ob


def nontrivial(case, inp, obs):
    keys = []
    acts = [a for a in case["acts"] if a[0] in ("dv", "mb")]
    for (op, ob), a in zip(_ev_ops(inp, obs), acts):
        keys.append([a[0], a[1], a[2]["mut"], ob[0], ob[1]])
    return json.dumps(keys) if keys else None


CLAUSES = {1: "a rejected submission changed a validator", 2: "accepted double-voting evidence that is not valid for that consumer",
           3: "accepted double voting changed a validator other than the resolved signer",
           4: "the signer was not punishable or not punished with the consumer's parameters / the right power",
           5: "a tombstoned validator was changed by a submission", 6: "staking written by a submission reported as accepted",
           7: "accepted misbehaviour although CheckMisbehaviour's conditions or a signature check fail",
           8: "misbehaviour: a validator not punished exactly as often as a byzantine key resolves to it (or somebody else changed)",
           9: "misbehaviour accepted although nobody was punished", 10: "GetByzantineValidators is not the intersection of non-absent signers",
           11: "valid double-voting evidence against a punishable validator was rejected",
           12: "valid misbehaviour with a punishable byzantine validator was rejected",
           13: "a validator without a BlockIDFlagCommit signature in BOTH commits (nil vote / absent) was punished by a misbehaviour",
           99: "observation count differs from op count"}


def describe(codes):
    return "; ".join(CLAUSES.get(c, str(c)) for c in codes)


def histogram(part, c):
    out = []
    for a in c["acts"]:
        if a[0] == "dv":
            out.append("dv:%s:%s" % ("msg" if a[1] == 0 else "keeper", a[2]["mut"]))
        elif a[0] == "mb":
            out.append("mb:%s:%s" % (["msg", "keeper", "gbv"][a[1]], a[2]["mut"]))
        else:
            out.append(a[0])
    return out


PARTS = [Part("evidence", "c07", "evidence", gen, nontrivial=nontrivial, describe=describe, shrink=ddmin("acts"))]

# ---- composed model (Model/EvidenceKeys.v = KeyAssign x Evidence): theorems in Props/C07System.v, part "system" in harness/c07sys/part.py
EXTRA_PROPS = ["C07System"]
import importlib.util as _ilu, os as _os
_spec = _ilu.spec_from_file_location("c07sys_part", _os.path.join(_os.path.dirname(_os.path.abspath(__file__)), "..", "..", "harness", "c07sys", "part.py"))
_c07sys = _ilu.module_from_spec(_spec); _spec.loader.exec_module(_c07sys)
PARTS.append(_c07sys.PART)
