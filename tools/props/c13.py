"""C13: consumers are isolated from one another (DESIGN.md 6.13)."""
import json
from check import Part

ID = "C13"
DESIGN_REF = "DESIGN.md 6.13"
RULE = ("keys: every exported key constructor and generic helper on ids {0,1,2,10,11,100, 20-digit, max uint64, empty, raw bytes} "
        "x addresses/timestamps/denoms, plus the prefix table; store: random histories of set / delete / Delete*-helper prefix "
        "iteration / ConsumeConsumerAddrsToPrune range over 2-5 consumers whose ids are textual prefixes of one another, dump "
        "compared after every operation; frame: 2..101 consumers created by MsgCreateConsumer, the interesting ones (0,1,2,10,11,100) "
        "in random phases with random decorations, one per-consumer operation (update, opt-in/out, key assignment, commission, "
        "remove, launch / failing launch / deletion / infraction-parameter switch in BeginBlock, packet timeout, error ack, create) "
        "incl. wrong-phase and unauthorized ones; differential stream: the same setup on two environments, with and without the "
        "operation on c1 (lexicographically early ids 1/10 preferred), then the same continuation (reward allocations in "
        "governance / per-consumer / foreign denoms with a funded pool, BeginBlock, epoch EndBlock, time advance past the unbonding "
        "period, second allocation round) and comparison of every other consumer's keys and getter-level state; lint: go/ast inventory of all store iterations of the keeper. "
        "non-trivial = the operation changed at least one key (frame), a prefix/range deletion removed a key while a sibling "
        "consumer kept one in the same space (store); distinct = distinct (operation, consumer, phases / key spaces)")
ASSUMPTIONS = [
    "consumer ids are byte strings shorter than 2^64 bytes (Go strings); the ids the provider issues are naturals below 2^64 in decimal",
    "keys of space ConsumerAddrsToPruneV2 carry a well-formed timestamp (only AppendConsumerAddrsToPrune writes them): "
    "ConsumeConsumerAddrsToPrune skips keys whose suffix does not parse, the model deletes the whole range (a superset)",
    "the calendar conversion of time.Time into year..nanosecond is Go's (input of the model's FormatTimeBytes)",
    "differential stream: provider-wide keys (slash meter, vsc ids, last provider validator set, governance denoms) and the "
    "fake World (balances, community pool, validator rewards) are not compared; the rewards pool is funded so that a shortage of "
    "the shared pool never occurs",
    "frame part: BeginBlock operations are scheduled so that only the event of c1 is due; the epoch EndBlock is not a per-consumer "
    "operation and is only used in the setup",
]
TRUSTED_BASE = [
    "modelled: getKeyPrefixes, every key constructor and generic helper of x/ccv/provider/types/keys.go, sdk.Uint64ToBigEndian, "
    "sdk.FormatTimeBytes (fixed-width fields), strconv.FormatUint; the access patterns exact Set/Delete, deletion by "
    "KVStorePrefixIterator over StringIdWithLenKey, the ConsumeConsumerAddrsToPrune range; not modelled: the values stored, "
    "the message handlers themselves (their store footprint is observed and attributed, not re-derived)",
    "Go-side decoder in harness/c13/frame_test.go mirrors decode_owner (compared with the model on every changed key); "
    "go/ast lint in harness/c13/lint_test.go (resolves local variables, parameters through call sites, key-returning helpers)",
]
LEVEL_NOTE = ("semantic frame theorem is about the abstract store operations (what the keeper's helpers do with keys); the message "
              "handlers are covered by the sys-level frame part (store diff + getter-level comparison), not by a handler model")

T2030 = 1893456000  # 2030-01-01T00:00:00Z

KIND = {}
for _k, _ps in {1: [255, 0, 2, 3, 4, 43], 2: [5, 7, 14, 15, 16, 17, 29], 3: [40, 44, 45, 46, 47, 48, 49, 50, 54, 57, 58],
                4: [22, 23, 31, 32, 36, 37, 39, 56, 41, 55], 5: [51, 52, 59], 6: [6], 7: [53], 8: [13, 26, 27, 42]}.items():
    for _p in _ps:
        KIND[_p] = _k
ADDR_SPACES = [22, 23, 31, 32, 36, 37, 39, 56]
LEGACY = [5, 7, 14, 15, 16, 17, 29]
LEN = [40, 44, 45, 46, 47, 48, 49, 50, 54, 57, 58]

NUM_IDS = [0, 1, 2, 10, 11, 100, 101, 12345678901234567890, 18446744073709551615]
RAW_IDS = [[], [49, 120], [0, 0, 0, 0, 0, 0, 0, 1, 49], [49, 0], [255, 254], list(b"cosmoshub-4")]


def id_num(n):
    return [0, n]


def id_raw(b):
    return [1, list(b)]


def addr(rng, i=None):
    i = rng.randrange(6) if i is None else i
    if i == 0:
        return [48] + [7] * 19          # starts with ASCII '0'
    if i == 1:
        return [0, 0, 0, 0, 0, 0, 0, 1, 49] + [9] * 11
    if i == 2:
        return []
    return [(i * 37 + j * 11) % 256 for j in range(20)]


def tstamp(rng):
    return [2, T2030 + rng.choice([0, 0, 1, 59, 3600, 86400 * 31, 86400 * 366, -86400 * 365 * 40]),
            rng.choice([0, 0, 1, 999999999, 123456789])]


def suffix_for(rng, p):
    k = KIND.get(p, 0)
    if k == 4:
        if p == 41:
            return tstamp(rng)
        if p == 55:
            return [1, list(rng.choice([b"stake", b"ibc/ABCDEF", b"", b"10"]))]
        return [1, addr(rng)]
    if k == 5:
        return tstamp(rng)
    if p == 13:
        return [3, rng.choice([0, 1, 255, 256, 2 ** 32, 2 ** 63, 2 ** 64 - 1, rng.randrange(2 ** 64)])]
    if p == 26:
        return [1, addr(rng)]
    if p == 27:
        return [1, list(rng.choice([b"stake", b"ibc/XYZ", b""]))]
    return [0]


def rand_id(rng):
    r = rng.random()
    if r < 0.6:
        return id_num(rng.choice(NUM_IDS))
    if r < 0.75:
        return id_num(rng.randrange(2 ** 64))
    if r < 0.9:
        return id_raw(rng.choice(RAW_IDS))
    return id_raw([rng.randrange(256) for _ in range(rng.randrange(0, 40))])


# ------------------------------------------------------------------ keys
def gen_keys(rng, tier):
    # every fully defined constructor on every fixed id
    for i in [id_num(n) for n in NUM_IDS] + [id_raw(b) for b in RAW_IDS]:
        yield {"part": "keys", "reqs": [[0, p, i, suffix_for(rng, p)] for p in sorted(KIND)]}
    # the prefix bytes without constructor: the model and the driver both build nothing
    yield {"part": "keys", "reqs": [[0, p, id_num(1), [0]] for p in range(256) if p not in KIND]}
    for _ in range(100 if tier == "quick" else 3000):
        reqs = []
        for _ in range(40):
            code = rng.choice([0, 0, 1, 2, 2, 3, 4])
            if code == 0:
                p = rng.choice(sorted(KIND))
                reqs.append([0, p, rand_id(rng), suffix_for(rng, p)])
            else:
                p = rng.randrange(256)
                suf = [0]
                if code == 2:
                    suf = rng.choice([[1, addr(rng)], tstamp(rng)])
                if code == 3:
                    suf = [3, rng.choice([0, 1, 2 ** 64 - 1, rng.randrange(2 ** 64)])]
                reqs.append([code, p, rand_id(rng), suf])
        yield {"part": "keys", "reqs": reqs}


# ------------------------------------------------------------------ store
SAFE_VALUES = [[], [10, 1, 7], [10, 2, 1, 2]]
ID_FAMILIES = [
    [id_num(1), id_num(10), id_num(100), id_num(11), id_num(0)],
    [id_num(1), id_num(10)],
    [id_num(10), id_num(100), id_num(101)],
    [id_num(2), id_num(20), id_raw(b"2"), id_raw(b"")],
    [id_raw(b""), id_num(0), id_raw([0])],
    [id_num(1844674407370955161), id_num(18446744073709551615), id_num(1)],
    [id_raw([49]), id_raw([49, 48]), id_raw([0, 0, 0, 0, 0, 0, 0, 1, 49]), id_raw([49, 0])],
]
ITER_SPACES = [32, 36, 37, 56, 31, 39, 22, 23, 41]


def gen_store(rng, tier):
    for _ in range(300 if tier == "quick" else 8000):
        ids = rng.choice(ID_FAMILIES)
        spaces = rng.sample(ITER_SPACES, rng.randint(1, 3)) + rng.sample(LEGACY + LEN + [55], rng.randint(0, 2))
        times = [[2, T2030 + s, ns] for s, ns in [(0, 0), (0, 1), (1, 0), (0, 999999999), (86400, 0)]]
        addrs = [addr(rng, i) for i in range(6)]

        def suf(p):
            if p == 41:
                return rng.choice(times)
            if p == 55:
                return [1, list(rng.choice([b"stake", b"10", b""]))]
            if KIND[p] == 4:
                return [1, rng.choice(addrs)]
            return [0]
        ops = []
        for _ in range(rng.randint(4, 10)):
            p = rng.choice(spaces)
            ops.append([1, p, rng.choice(ids), suf(p), rng.choice(SAFE_VALUES)])
        for _ in range(rng.randint(1, 6)):
            r = rng.random()
            p = rng.choice(spaces)
            i = rng.choice(ids)
            if r < 0.45 and p in ITER_SPACES:
                ops.append([3, p, i, [0], []])
            elif r < 0.65 and 41 in spaces:
                ops.append([4, 41, i, rng.choice(times), []])
            elif r < 0.8:
                ops.append([2, p, i, suf(p), []])
            else:
                ops.append([1, p, i, suf(p), rng.choice(SAFE_VALUES)])
        yield {"part": "store", "ops": ops}


def nontrivial_store(case, inp, obs):
    keys = set()
    prev = []
    for op, d in zip(case["ops"], obs):
        if not isinstance(d, list):
            return None
        if op[0] in (3, 4) and len(d) < len(prev) and any(k[0][0] == op[1] for k in d):
            keys.add((op[0], op[1], json.dumps(op[2]), len(prev) - len(d)))
        prev = d
    return json.dumps(sorted(keys)) if keys else None


# ------------------------------------------------------------------ frame
ACTIVE = (0, 1, 2, 3)


def gen_consumer(rng, cid, nvals, phase):
    vals = list(range(nvals))
    optin = rng.sample(vals, rng.randint(1, nvals)) if (phase >= 2 or rng.random() < 0.6) else []
    allow = []
    if rng.random() < 0.5:
        allow = sorted(set(rng.sample(vals, rng.randint(1, nvals)) + optin[:1]))
    deny = [v for v in rng.sample(vals, rng.randint(0, 2)) if not optin or v != optin[0]] if rng.random() < 0.5 else []
    prio = rng.sample(vals, rng.randint(0, 2)) if rng.random() < 0.5 else []
    keys = rng.sample(vals, rng.randint(0, 2))
    return {"id": cid, "phase": phase, "allow": allow, "deny": deny, "prio": prio, "optin": optin, "keys": keys,
            "comm": rng.sample(vals, rng.randint(0, 2)), "denoms": rng.random() < 0.5, "alloc": rng.random() < 0.5,
            "infra": rng.random() < 0.4, "acks": rng.random() < 0.4, "chan": rng.random() < 0.6,
            "rekey": [v for v in keys if rng.random() < 0.7], "qinfra": rng.random() < 0.4}


def gen_op(rng, kind, nvals, con):
    v = rng.randrange(nvals)
    if kind in (1, 13):
        ps = rng.choice([0, 1, 3])
        vals = list(range(nvals))
        init = 0
        if con and con["phase"] in (0, 1):
            init = rng.choice([0, 1, 2])
        elif rng.random() < 0.15:
            init = 1            # wrong phase: rejected
        return [kind, int(rng.random() < 0.5), int(rng.random() < 0.3), ps,
                rng.sample(vals, rng.randint(0, nvals)), rng.sample(vals, rng.randint(0, 2)), rng.sample(vals, rng.randint(0, 2)),
                init, int(rng.random() < 0.4), rng.choice([0, 0, 1, 2, 3]), int(rng.random() < 0.2)]
    if kind == 2:
        return [2, v, rng.randrange(2)]
    if kind == 3:
        if con and con["optin"] and rng.random() < 0.8:
            v = rng.choice(con["optin"])
        return [3, v]
    if kind == 4:
        return [4, v]
    if kind == 5:
        return [5, v, rng.choice([0, 5, 50, 100])]
    if kind == 7:
        return [7, int(rng.random() < 0.3)]
    if kind == 12:
        return [12, rng.randrange(2)]
    return [kind]


OPS_BY_PHASE = {0: [1, 1, 2, 3, 4, 5, 13], 1: [1, 1, 2, 3, 4, 5, 7, 7, 7, 13], 2: [1, 1, 2, 3, 4, 5, 6, 6, 9, 13],
                3: [1, 2, 3, 4, 5, 6, 9, 10, 10, 11, 13], 4: [8, 8, 8, 3, 1], 5: [1, 2, 3, 6]}


def gen_frame(rng, tier):
    total = 150 if tier == "quick" else 5000
    for _ in range(total):
        nvals = 4
        r = rng.random()
        if r < 0.12:            # create: the id being issued is a textual extension / sibling of existing ones
            n = rng.choice([1, 2, 10, 10, 11, 12, 20, 100, 100, 101])
            interesting = [c for c in (0, 1, 2, 10, 11, 100) if c < n]
            cons = [gen_consumer(rng, c, nvals, rng.randrange(6)) for c in interesting]
            yield {"part": "frame", "n": n, "nvals": nvals, "cons": cons, "c1": n, "op": gen_op(rng, 12, nvals, None)}
            continue
        n = 101 if r < 0.25 else rng.choice([11, 12, 12, 12])
        interesting = [c for c in (0, 1, 2, 10, 11, 100) if c < n]
        if r > 0.6:
            # directed stream: two consumers whose ids are textual prefixes of one another, in the same phase with the
            # same kind of state (shared time-queue entries, same validators), and an operation that removes or
            # replaces state of one of them
            a, b = rng.choice([p for p in [(1, 10), (1, 11), (1, 10), (10, 100), (1, 100)] if p[1] < n])
            ph = rng.choice([1, 1, 2, 3, 3, 4])
            cons = []
            for c in interesting:
                con = gen_consumer(rng, c, nvals, ph if c in (a, b) else rng.randrange(6))
                if c in (a, b):
                    con["qinfra"] = True
                    con["optin"] = con["optin"] or [0]
                    con["keys"] = con["keys"] or [1]
                    con["rekey"] = con["keys"]
                    con["comm"] = con["comm"] or [2]
                cons.append(con)
            c1 = rng.choice([a, b, b])
            con = [c for c in cons if c["id"] == c1][0]
            kind = rng.choice({1: [1, 1, 1, 7, 3], 2: [1, 1, 6, 9, 3, 4], 3: [1, 6, 9, 10, 11, 3, 4], 4: [8]}[ph])
            op = gen_op(rng, kind, nvals, con)
            if kind == 1:
                if ph == 1:
                    op[7] = rng.choice([1, 2])
                else:
                    op[8] = 1
                op[3] = rng.choice([1, 3])
        else:
            c1 = rng.choice(interesting if rng.random() < 0.3 else [c for c in interesting if c in (1, 10, 100, 11)])
            cons = [gen_consumer(rng, c, nvals, rng.randrange(6)) for c in interesting]
            con = [c for c in cons if c["id"] == c1][0]
            if rng.random() < 0.9:
                kind = rng.choice(OPS_BY_PHASE[con["phase"]])
            else:
                kind = rng.choice([1, 2, 3, 4, 5, 6, 7, 8, 9, 10, 11, 13])   # possibly in the wrong phase
            op = None
        if kind == 9:
            con["qinfra"] = True
        if kind in (10, 11) and con["phase"] >= 4:
            con["chan"] = True
        if kind == 7:
            # the launch of c1 is far in the future: nobody else may have a timed event before it
            for c in cons:
                c["qinfra"] = False
                if c["phase"] == 4 and c["id"] != c1:
                    c["phase"] = rng.choice([2, 3, 5])
            if con["phase"] == 1 and rng.random() < 0.25:
                con["optin"] = []       # failing launch: nobody opted in
        yield {"part": "frame", "n": n, "nvals": nvals, "cons": cons, "c1": c1,
               "op": op if op is not None else gen_op(rng, kind, nvals, con)}


DIFF_OPS = {0: [1, 1, 2, 3, 4, 5], 1: [1, 1, 2, 3, 4, 5, 7, 7], 2: [1, 1, 1, 2, 3, 4, 5, 6, 6], 3: [1, 1, 1, 2, 3, 4, 5, 6, 10, 11],
            4: [1, 3], 5: [1, 3]}


def gen_diff(rng, tier):
    """Differential non-interference: the same history with and without the operation on c1, then a common
    continuation (reward distribution, epoch EndBlock, time advance past the unbonding period)."""
    for _ in range(90 if tier == "quick" else 3000):
        nvals = 4
        r = rng.random()
        n = 101 if r < 0.15 else rng.choice([3, 11, 11, 12])
        interesting = [c for c in (0, 1, 2, 10, 11, 100) if c < n]
        if rng.random() < 0.1:
            # create: the new id is issued while its textual relatives exist
            n = rng.choice([2, 10, 11, 100]) if r >= 0.15 else 100
            interesting = [c for c in (0, 1, 2, 10, 11) if c < n]
            cons = [gen_consumer(rng, c, nvals, rng.choice([2, 3, 3, 1, 4])) for c in interesting]
            yield {"part": "frame", "diff": 1, "n": n, "nvals": nvals, "cons": cons, "c1": n, "op": gen_op(rng, 12, nvals, None)}
            continue
        # c1 is mostly the consumer that the lexicographic iterations ("1" < "10" < "100" < "11" < "2") visit first
        c1 = rng.choice([c for c in (1, 1, 1, 10, 10, 0, 2, 11, 100) if c in interesting])
        cons = []
        for c in interesting:
            ph = rng.choice([2, 3, 3, 2, 3, 1, 4, 0, 5])
            if c == c1 and rng.random() < 0.7:
                ph = rng.choice([2, 3, 3, 1])
            con = gen_consumer(rng, c, nvals, ph)
            con["denoms"] = rng.random() < 0.7
            cons.append(con)
        con = [c for c in cons if c["id"] == c1][0]
        kind = rng.choice(DIFF_OPS[con["phase"]])
        if kind in (10, 11):
            con["chan"] = True
        if kind == 7:
            for c in cons:
                c["qinfra"] = False
                if c["phase"] == 4 and c["id"] != c1:
                    c["phase"] = rng.choice([2, 3])
        op = gen_op(rng, kind, nvals, con)
        if kind == 1:
            f = rng.random()
            if f < 0.45:
                op[9] = rng.choice([1, 2, 3])       # AllowlistedRewardDenoms: none / one / two denoms
            elif f < 0.7:
                op[3] = rng.choice([1, 2, 3])       # power shaping incl. the lists and a validator-set cap
            elif f < 0.85:
                op[8] = 1                           # infraction parameters
        yield {"part": "frame", "diff": 1, "n": n, "nvals": nvals, "cons": cons, "c1": c1, "op": op}


def gen_frame_all(rng, tier):
    yield from gen_frame(rng, tier)
    yield from gen_diff(rng, tier)


def nontrivial_frame(case, inp, obs):
    attrs = obs[0] if obs and isinstance(obs[0], list) else None
    if not attrs:
        return None
    phases = sorted((c["id"], c["phase"]) for c in case["cons"])
    return json.dumps([case.get("diff", 0), case["op"][0], case["c1"], phases, sorted({a[0] for a in attrs})])


def project_frame(case, obs):
    return obs[0] if isinstance(obs, list) and obs and isinstance(obs[0], list) else obs


# ------------------------------------------------------------------ lint
# Expected iteration sites of x/ccv/provider/keeper: [prefix byte, form] (forms: see harness/c13/lint_test.go).
EXPECTED_SITES = [
    [6, 2],    # GetAllChannelToConsumers: whole ChannelIdToConsumerId space
    [7, 2],    # GetAllConsumersWithIBCClients: whole ConsumerIdToClientId space (legacy space, never per consumer)
    [13, 2],   # GetAllValsetUpdateBlockHeights
    [22, 1], [22, 2],   # GetAllValidatorConsumerPubKeys(consumerId / nil)
    [23, 1], [23, 2],   # GetAllValidatorsByConsumerAddr(consumerId / nil)
    [27, 2],   # GetAllConsumerRewardDenoms
    [31, 1], [31, 1], [31, 1],   # getValSet / deleteValSet / getTotalPower via GetConsumerChainConsensusValidatorsKey
    [32, 1], [32, 1],   # GetAllOptedIn, DeleteAllOptedIn
    [36, 1], [36, 1], [36, 1],   # GetAllowList, DeleteAllowlist, IsAllowlistEmpty
    [37, 1], [37, 1], [37, 1],   # GetDenyList, DeleteDenylist, IsDenylistEmpty
    [39, 1],   # GetAllCommissionRateValidators
    [41, 1], [41, 4],   # GetAllConsumerAddrsToPrune, ConsumeConsumerAddrsToPrune (range)
    [42, 2], [42, 2], [42, 2], [42, 2],   # LastProviderConsensusValSet: get / delete / total power / setValSet
    [51, 2], [52, 2],   # ConsumeIdsFromTimeQueue for the spawn and removal queues
    [56, 1], [56, 1], [56, 1],   # GetPriorityList, DeletePrioritylist, IsPrioritylistEmpty
    [59, 2], [59, 2],   # ConsumeIdsFromTimeQueue (infraction schedule), GetConsumerInfractionUpdateTime
]


def gen_lint(rng, tier):
    yield {"part": "lint", "expected": sorted(EXPECTED_SITES)}


CLAUSES = {
    1: "a key that changed belongs to a consumer other than the one operated on",
    2: "a key that changed cannot be attributed to a consumer and is not in a provider-wide key space",
    3: "the getter-level state of another consumer changed",
    4: "a time-queue / reverse-index entry changed with respect to a consumer other than the one operated on",
    5: "store operation of one consumer changed the value under a key of another consumer",
    6: "the keeper iterates a key space with a prefix that is not an allowed form (legacy `prefix|id` or unknown)",
    7: "two key names share a prefix byte",
    11: "after the common continuation a key of a consumer c2 != c1 differs depending on whether the operation on c1 happened",
    12: "after the common continuation an unattributable (unknown / deprecated space) key differs between the two runs",
    13: "after the common continuation the getter-level state of a consumer c2 != c1 depends on whether the operation on c1 happened",
    14: "after the common continuation a time-queue / reverse-index entry differs with respect to a consumer other than c1",
}


def describe(codes):
    return "; ".join(CLAUSES.get(c, str(c)) for c in codes)


def histogram(part, c):
    if part == "frame":
        con = [x for x in c["cons"] if x["id"] == c["c1"]]
        return ["frame:diff" if c.get("diff") else "frame:local", "frame:op%d" % c["op"][0], "frame:n%d" % c["n"], "frame:c1=%d" % c["c1"],
                "frame:phase%s" % (con[0]["phase"] if con else "new")]
    if c.get("part") == "store":
        return ["store:kind%d" % o[0] for o in c["ops"]]
    return [c.get("part", part)]


def gen_fn(rng, tier):
    """keys and store cases share one part (one harness link): both are function-level checks of the key layout."""
    yield from gen_keys(rng, tier)
    yield from gen_store(rng, tier)


def nontrivial_fn(case, inp, obs):
    if case["part"] == "store":
        return nontrivial_store(case, inp, obs)
    return json.dumps(case["reqs"][0])


PARTS = [
    Part("keys", "c13", "storekeys", gen_fn, nontrivial=nontrivial_fn, describe=describe),
    Part("frame", "c13", "storekeys", gen_frame_all, project=project_frame, nontrivial=nontrivial_frame, describe=describe),
    Part("lint", "c13", "storekeys", gen_lint, nontrivial=lambda c, i, o: None, describe=describe),
]
