"""C18: provider and consumer state machines are deterministic (partial: the Go runtime is outside the model)."""
import importlib, json, os, random, zlib
from check import Part, build_harness, run_impl, V

ID = "C18"
DESIGN_REF = "DESIGN.md section 6.18"
LEVEL_TEXT = ("PARTIAL. Proved (Rocq): AccumulateChanges' result is independent of the map iteration order and of the sorting "
              "algorithm; a list has at most one sorted permutation under a total antisymmetric comparator; the updates returned by the "
              "standalone->consumer changeover hand the consensus set over to exactly the provider's initial set, for every standalone set. Tied to the code by an "
              "ordered differential check of AccumulateChanges/DiffValidators and of the real consumer EndBlock in the PreCCV state, an AST inventory of nondeterminism sources, and "
              "replica runs (supporting runs, not proofs): a multi-consumer history on 2-3 independent replicas with raw store, "
              "validator-update order, packet bytes and events compared bit for bit, plus every other property's driver executed twice.")
LEVEL_NOTE = ("the model cannot exhibit divergence between real nodes (Go runtime, scheduler, memory layout): that half is exercised, "
              "not proved; map-range detection in the lint is syntactic (identifiers bound to make(map)/map literals/map-typed params)")
RULE = ("fn: random current/new update lists over a 24-key pool with power ties, duplicates and removals, compared IN ORDER; "
        "changeover: provider initial sets vs standalone bonded sets with overlapping keys, ties, MaxValidators truncation (non-trivial = "
        ">= 1 removal and >= 1 shared key); replica: random multi-consumer histories (8-20 validators with power ties, 2-4 consumers with different power shaping, "
        "staking churn, opt-in/out, key assignment, rewards, slash packets, relays) on R replicas; lint: AST inventory. "
        "non-trivial fn case = merged list has a power tie or an overriding key; non-trivial replica case = >= 1 VSC packet relayed")
ASSUMPTIONS = ["replicas run in one process on fresh keepers/stores (Go randomises map iteration per range statement)",
               "the fake World is deterministic by construction (sorted iteration everywhere)"]
TRUSTED_BASE = ["modelled: AccumulateChanges (x/ccv/types/utils.go), DiffValidators (x/ccv/provider/keeper/validator_set_update.go), ChangeoverToConsumer / ChangeoverIsComplete "
                "(x/ccv/consumer/keeper/changeover.go) with the standalone staking module's bonded list as an oracle; "
                "everything else in C18 is runtime verification"]

# Nondeterminism-relevant sites expected in /repo/x/ccv (non-test, non-generated, excluding cli/simulation/migrations).
# A new site is reported as an unmodelled nondeterminism source (correspondence failure, no-failing-input-found unless a replica run diverges).
EXPECTED_SITES = [
    "maprange:x/ccv/types/utils.go:AccumulateChanges",          # modelled: Model/Determinism.v, C18_accumulate_order_free
    "wallclock:x/ccv/democracy/distribution/module.go:BeginBlock",  # reviewed: time.Now() flows only into telemetry.ModuleMeasureSince
]


def gen_fn(rng, tier):
    n = 3000 if tier == "quick" else 40000
    for _ in range(n):
        def lst():
            k = rng.choice([0, 1, 2, 3, 5, 8, 13, 20])
            pw = rng.choice([[1, 2, 3], [5, 5, 5, 0], [0, 1, 10 ** 6, 10 ** 6], list(range(0, 4))])
            return [[rng.randrange(24), rng.choice(pw)] for _ in range(k)]
        uniq = rng.random() < 0.5
        cur, new = lst(), lst()
        if uniq:
            def dedup(l):
                seen, out = set(), []
                for k, p in l:
                    if k not in seen:
                        seen.add(k); out.append([k, p])
                return out
            cur, new = dedup(cur), dedup(new)
        yield {"cur": cur, "new": new}


def nontrivial_fn(case, inp, obs):
    acc = obs[0]
    pows = [p for _, p in acc]
    over = {k for k, _ in case["cur"]} & {k for k, _ in case["new"]}
    if len(set(pows)) < len(pows) or over:
        return json.dumps(inp)
    return None


def gen_replica(rng, tier):
    n = 24 if tier == "quick" else 300
    for _ in range(n):
        nvals = rng.randint(8, 20)
        ncons = rng.randint(2, 4)
        consumers = []
        for i in range(ncons):
            topn = rng.choice([0, 0, 0, 60, 100]) if i == 0 else 0
            consumers.append({
                "allow_inactive": rng.random() < 0.4, "set_cap": rng.choice([0, 0, 3, 6]), "power_cap": rng.choice([0, 0, 25, 40]),
                "min_stake": rng.choice([0, 0, 1500000]),
                "allow": rng.sample(range(nvals), rng.choice([0, 0, nvals // 2])),
                "deny": rng.sample(range(nvals), rng.choice([0, 0, 2])),
                "prio": rng.sample(range(nvals), rng.choice([0, 3])),
                "optin": rng.sample(range(nvals), rng.randint(max(1, nvals // 2), nvals)),
                "open_at": rng.randint(1, 6), "top_n": topn, "commission": [rng.randint(0, 99) for _ in range(rng.choice([0, 3]))]})
        blocks = []
        for b in range(rng.randint(8, 16)):
            ops = []
            for _ in range(rng.randint(0, 6)):
                op = rng.choice(["delegate", "delegate", "jail", "unjail", "optin", "optout", "assign", "fund", "slash",
                                 "relay", "relay", "cblock", "cblock"])
                ops.append({"op": op, "c": rng.randrange(ncons), "v": rng.randrange(nvals),
                            "n": rng.choice([-30, -10, 5, 10, 20, 37]) if op == "delegate" else rng.randint(1, 1000)})
            blocks.append(ops)
        yield {"nvals": nvals, "tokens": [rng.choice([10, 10, 15, 19, 20, 20, 25, 30, 70]) for _ in range(nvals)],
               "maxvals": rng.choice([nvals, nvals - 2, 100]), "m": rng.choice([3, nvals // 2, nvals, 180]),
               "epoch": rng.choice([1, 1, 2, 3]), "consumers": consumers, "blocks": blocks,
               "replicas": 2 if tier == "quick" else 3}


def nontrivial_replica(case, inp, obs):
    relays = sum(1 for b in case["blocks"] for o in b if o["op"] == "relay")
    return json.dumps(obs[0][:8]) if relays and len(obs[0]) > 20 else None


def gen_changeover(rng, tier):
    """standalone -> consumer changeover: provider initial set vs standalone bonded set, overlapping keys, MaxValidators
    truncation, power ties in the standalone set, occasional zero powers / duplicate keys in the initial set."""
    n = 250 if tier == "quick" else 4000
    for _ in range(n):
        ns = rng.choice([0, 1, 2, 3, 5, 8, 12])
        tokens = [rng.choice([0, 1, 1, 2, 5, 5, 9, 30]) for _ in range(ns)]
        pool = list(range(ns)) + [100 + j for j in range(rng.choice([0, 1, 3, 6]))]
        ni = rng.choice([0, 1, 2, 4, 7]) if pool else 0
        weird = rng.random() < 0.15
        if weird:
            init = [[rng.choice(pool), rng.choice([0, 1, 3, 3, 10])] for _ in range(ni)]
        else:
            init = [[k, rng.choice([1, 3, 3, 10, 10 ** 6])] for k in rng.sample(pool, min(ni, len(pool)))]
        yield {"init": init, "tokens": tokens, "maxvals": rng.choice([1, 2, 3, 5, 100]), "height": rng.choice([1, 2, 100, 10 ** 6])}


def nontrivial_changeover(case, inp, obs):
    ups = obs[0]
    zeros = sum(1 for _, p in ups if p == 0)
    overlap = any(k < 100 for k, _ in case["init"])
    return json.dumps(inp[1:4]) if zeros and overlap else None


def gen_lint(rng, tier):
    yield {"expected": EXPECTED_SITES}


def describe(codes):
    t = {1: "AccumulateChanges output is not the sorted last-writer-wins merge",
         2: "replicas of the same history diverge (stores / validator updates / packets / events differ)",
         4: "the updates returned at the standalone->consumer changeover do not hand the consensus set over to the provider's initial set",
         3: "nondeterminism-relevant construct inventory differs from the modelled one (see lint-site lines in the driver log)"}
    return "; ".join(t.get(c, str(c)) for c in codes)


PARTS = [
    Part("fn", "c18", "determinism", gen_fn, go_test="TestFn", nontrivial=nontrivial_fn, describe=describe),
    Part("replica", "c18", "determinism", gen_replica, go_test="TestReplica", nontrivial=nontrivial_replica, describe=describe),
    Part("changeover", "c18", "determinism", gen_changeover, go_test="TestChangeover", nontrivial=nontrivial_changeover, describe=describe),
    Part("lint", "c18", "determinism", gen_lint, go_test="TestLint", nontrivial=lambda c, i, o: None, describe=describe),
]


def extra(tier, seed):
    """Every other property's driver executed twice on the same cases; outputs must be byte-identical.
    quick: two properties chosen by the seed; thorough: all."""
    fails, stats = [], {"evaluations": 0, "distinct_nontrivial": 0, "modules": []}
    mods = sorted(f[:-3] for f in os.listdir(os.path.join(V, "tools", "props")) if f.startswith("c") and f.endswith(".py") and f != "c18.py")
    rng = random.Random(f"{seed}/C18/extra")
    if tier == "quick":
        mods = rng.sample(mods, min(2, len(mods)))
    for m in mods:
        try:
            mod = importlib.import_module("props." + m)
        except Exception:
            continue
        for part in mod.PARTS:
            if build_harness(part.go_pkg):
                continue
            cases = []
            g = part.gen(random.Random(f"{seed}/C18/{m}/{part.name}"), "quick")
            for i, c in enumerate(g):
                if i >= (150 if tier == "quick" else 1000):
                    break
                c["id"] = i
                cases.append(c)
            outs = []
            for rep in range(2):
                _, fout, _ = run_impl(part, cases, f"C18-rerun-{m}-{part.name}-{rep}")
                outs.append(open(fout, "rb").read())
            stats["evaluations"] += len(cases)
            stats["modules"].append(f"{m}/{part.name}")
            if outs[0] != outs[1]:
                a, b = outs[0].split(b"\n"), outs[1].split(b"\n")
                idx = next(i for i in range(min(len(a), len(b))) if a[i] != b[i])
                fails.append({"case": cases[idx] if idx < len(cases) else {}, "kind": "monitor", "part": f"rerun-{m}-{part.name}",
                              "detail": "two executions of the same cases by the same driver differ",
                              "monitor": [2], "monitor_text": describe([2]),
                              "impl_obs": [a[idx].decode()[:2000], b[idx].decode()[:2000]]})
    return stats, fails
