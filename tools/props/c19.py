"""C19: block processing never fails; a failing consumer operation is rolled back (DESIGN.md 6.19).

Provider side, on top of the lifecycle model (Model/Lifecycle.v, component `blocksafety` = the same run with the
monitor clauses that compare a faulty block with its fault-free reference run).  A case is a history prefix (the
actions of tools/props/c10.py) that sets up a multi-consumer block, plus one block operation in which the (n+1)-th
call of one external method fails:
  {"U", "nvals", "maxprov", "epoch", "reward_epochs", "ops": prefix, "block": "begin"|"end", "dt", "fault", "n"}
"""
import json
from check import Part
from props import c10 as base

ID = "C19"
DESIGN_REF = "DESIGN.md 6.19"
RULE = ("four kinds of multi-consumer blocks (launch block with 3-6 due consumers incl. naturally failing ones; removal "
        "block with several stopped consumers; epoch end-block with several launched consumers, channels and queued "
        "packets; begin-block with reward credits for several consumers) x every external method called inside them "
        "(client.CreateClient, connection.GetConnection, client.GetClientState, staking.GetHistoricalInfo, "
        "staking.UnbondingTime, staking.GetLastValidatorPower, channel.SendPacket, channel.ChanCloseInit, "
        "bank.SendCoinsFromModuleToModule, distribution.FundCommunityPool, distribution.AllocateTokensToValidator, "
        "distribution.GetCommunityTax) x every call index of the block, each executed with and without the fault; plus the random "
        "C10/C11 histories with a random fault in their last block; non-trivial = the fault fired; distinct = distinct "
        "(block kind, fault, call index, result, affected consumer)")
LEVEL_NOTE = ("provider side (Props/C19.v) and consumer side (Props/C19Consumer.v: two stated hypotheses with refutation witnesses, see DESIGN.md section 16); assumption: the staking keeper's bonded-set and last-power queries "
              "(GetBondedValidatorsByPower, GetLastValidatorPower, MaxValidators) do not fail during EndBlock -- "
              "EndBlockVSU returns such an error by design (ProviderValidatorUpdates and the validator-set computation "
              "of QueueVSCPackets are not per-consumer operations); the real keeper fails there only on a corrupted "
              "store.  The same failures inside a launch are contained and are part of the sweep.")
ASSUMPTIONS = [a for a in base.ASSUMPTIONS if "UnbondingTime" not in a] + [
    "the staking keeper's bonded-set and last-power queries do not fail during EndBlock (outside a launch); the real "
    "keeper fails there only on a corrupted store",
    "scope of the fault injection: calls made inside a per-consumer operation (launch, deletion, packet sending, reward "
    "allocation).  The provider's own end-block bookkeeping (ProviderValidatorUpdates, the validator-set computation in "
    "QueueVSCPackets) propagates an error of staking.GetLastValidatorPower / GetBondedValidatorsByPower to the block "
    "result by design (the staking keeper does not fail there); such faults are generated only where they stay inside a "
    "launch",
    "the fake world's bank / distribution / IBC state is not transactional (a cached context does not roll it back); "
    "rollback is observed on the provider store only",
]
TRUSTED_BASE = base.TRUSTED_BASE + [
    "the consumer hit by an injected fault is identified differentially (reference run without the fault on an "
    "independent environment); its rolled-back state, all other consumers, both time queues and the block result are "
    "then compared with the model and checked by the monitor (clauses 10, 14, 15, 20, 22)",
]
Gen = base.Gen

LAUNCH_FAULTS = ["client.CreateClient", "staking.UnbondingTime", "staking.GetHistoricalInfo", "staking.GetLastValidatorPower",
                 "connection.GetConnection", "client.GetClientState"]
REMOVE_FAULTS = ["channel.ChanCloseInit"]
END_FAULTS = ["channel.SendPacket"]
REWARD_FAULTS = ["bank.SendCoinsFromModuleToModule", "distribution.FundCommunityPool",
                 "distribution.AllocateTokensToValidator", "distribution.GetCommunityTax"]


def case(g, block, dt, fault, n, epoch=1, kind=""):
    c = g.case(epoch=epoch)
    c.update({"ops": list(g.ops), "block": block, "dt": dt, "fault": fault, "n": n, "reward_epochs": 1, "kind": kind})
    return c


def launch_prefix(rng):
    g = Gen(rng, 50)
    n = rng.randint(3, 6)
    t = g.now + 5
    for i in range(n):
        style = rng.choice(["ok", "ok", "ok", "none", "inactive", "conn", "goodconn"])
        c = g.create(spawn=t - rng.choice([0, 0, 1]), rev=1, hrev=1, conn=10 + i if style in ("conn", "goodconn") else 0,
                     owner=1 + i % 3)
        if style == "goodconn":
            g.ops.append([11, 4, c])                       # the named connection exists (own client of that chain id)
        if style in ("ok", "conn", "goodconn"):
            g.optin(c, v=rng.choice([2, 3]), key=rng.randint(0, 1))
            if rng.random() < 0.5:
                g.optin(c, v=rng.choice([0, 1]), key=0)
        elif style == "inactive":
            g.optin(c, v=rng.choice([0, 1]), key=0)
        if rng.random() < 0.3:
            g.decorate(c)
    return g


def launched_prefix(rng, n=None, channels=1.0):
    g = Gen(rng, 50)
    n = n or rng.randint(3, 5)
    ids = []
    for i in range(n):
        c = g.create(spawn=g.now, rev=1, hrev=1, conn=0, owner=1 + i % 3)
        ids.append(c)
        v = rng.choice([2, 3])
        g.optin(c, v=v, key=rng.randint(0, 1))
        if rng.random() < 0.7:
            g.optin(c, v=5 - v, key=0)
    g.begin(dt=1)
    for c in ids:
        if rng.random() < channels:
            g.channel(c)
    return g, ids


def gen_launch(rng):
    g = launch_prefix(rng)
    for f in LAUNCH_FAULTS:
        for n in range(10 if f == "staking.GetLastValidatorPower" else 5):
            yield case(g, "begin", 6, f, n, kind="launch")


def gen_remove(rng):
    g, ids = launched_prefix(rng)
    for c in ids:
        if rng.random() < 0.85:
            g.stop_owner(c)
    if rng.random() < 0.5 and ids:
        g.packet_failure(rng.choice(ids), kind=9)          # a second queue entry: its deletion attempt is a no-op
    for f in REMOVE_FAULTS:
        for n in range(4):
            yield case(g, "begin", 50, f, n, kind="remove")


def gen_end(rng):
    g, ids = launched_prefix(rng, channels=0.75)
    g.ops.append([11, 1, 3, rng.randint(5, 9)])
    g.end()                                               # sent where the channel exists, queued elsewhere
    g.begin(dt=1)
    g.ops.append([11, 1, 2, rng.randint(5, 9)])
    if rng.random() < 0.6:
        late = [c for c in ids if not g.cons[c]["chan"]]
        if late:
            g.channel(rng.choice(late))                   # this consumer now has several queued packets
    if rng.random() < 0.4:
        g.ops.append([11, 3, rng.choice(ids), 1])          # an expired client keeps its packets queued
    for f in END_FAULTS:
        for n in range(6):
            yield case(g, "end", 0, f, n, kind="end")
    # a closed channel (natural send failure) combined with a failing UnbondingTime inside the stop
    # (regression of finding C19-stop-without-removal)
    with_chan = [c for c in ids if g.cons[c]["chan"]]
    if with_chan:
        g.ops.append([11, 2, rng.choice(with_chan)])
    for n in range(2):
        yield case(g, "end", 0, "staking.UnbondingTime", n, kind="end-stop")


def gen_rewards(rng):
    g, ids = launched_prefix(rng, n=rng.randint(2, 4), channels=0.7)
    g.end()
    g.begin(dt=1)
    g.end()
    for c in ids:
        if rng.random() < 0.85:
            g.ops.append([12, c, rng.choice([1, 7, 1000, 123456])])
    if rng.random() < 0.3:
        g.stop_owner(rng.choice(ids))
    for f in REWARD_FAULTS:
        for n in range(5):
            yield case(g, "begin", 1, f, n, kind="rewards")


def gen_random(rng):
    """A random C10/C11-style history; the fault is injected in one more block at its end."""
    c = base.random_history(rng, rng.choice([15, 30, 50]), base.W_LAUNCH if rng.random() < 0.5 else W_MIX)
    block = rng.choice(["begin", "end"])
    fault = rng.choice(LAUNCH_FAULTS + REMOVE_FAULTS if block == "begin" else END_FAULTS)
    c.update({"block": block, "dt": rng.choice([0, 1, 10, 51]), "fault": fault, "n": rng.randint(0, 3), "reward_epochs": 1,
              "kind": "random"})
    return c


W_MIX = {"create": 14, "update": 8, "optin": 16, "begin": 20, "end": 10, "remove": 10, "channel": 10, "pfail": 10,
         "decorate": 5, "world": 6}


def gen(rng, tier):
    reps = 5 if tier == "quick" else 60
    for _ in range(reps):
        yield from gen_launch(rng)
        yield from gen_remove(rng)
        yield from gen_end(rng)
        yield from gen_rewards(rng)
    for _ in range(60 if tier == "quick" else 1500):
        yield gen_random(rng)


def nontrivial(case, inp, obs):
    if not inp or len(inp) < 6 or not inp[5][0]:
        return None
    ref, cur = inp[4], obs[0][-1][2] if obs and obs[0] else []
    diff = [c[0] for r, c in zip(ref, cur) if r != c]
    udiff = [i for i, u in enumerate(inp[3]) if u[1] != u[2]]
    return json.dumps([case.get("kind"), case["fault"], case["n"], inp[5][1:], len(diff), len(udiff)])


CLAUSES = dict(base.CLAUSES)
CLAUSES.update({
    14: "EndBlock returned an error (chain halt)",
    15: "an operation panicked (chain halt)",
    20: "a reward allocation is neither completely done nor completely rolled back",
    22: "more than one consumer differs from the fault-free run of the same block: a failing operation leaked into "
        "another consumer",
})


def describe(codes):
    return "; ".join(CLAUSES.get(c, str(c)) for c in codes)


def histogram(part, c):
    return [c.get("kind", "?"), c["fault"] or "no-fault"]


PARTS = [Part("faults", "c19", "blocksafety", gen, project=base.project, nontrivial=nontrivial, describe=describe)]

# ---- consumer half (Model/ConsumerBlock.v): theorems in Props/C19Consumer.v, part "consumer" in harness/c19c/part.py
EXTRA_PROPS = ["C19Consumer"]
import importlib.util as _ilu, os as _os
_spec = _ilu.spec_from_file_location("c19c_part", _os.path.join(_os.path.dirname(_os.path.abspath(__file__)), "..", "..", "harness", "c19c", "part.py"))
_c19c = _ilu.module_from_spec(_spec); _spec.loader.exec_module(_c19c)
PARTS.append(_c19c.PART)
