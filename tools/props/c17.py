"""C17: consumers, light clients and CCV channels are bound one to one (DESIGN.md 6.17, 9.2).

Two correspondence parts over the component `handshake` (coq/theories/Model/Handshake.v):

provider (harness/c17/driver_test.go, TestDriver) - case {"nc","nx","nch","ops":[action...]}
  [1, chain]               world: a client of chain `chain` created by somebody else (next client id)
  [2, conn, x]             world: connection conn over client x (x may not exist)
  [3, ch, conn]            world: provider-port channel ch over connection conn (IBC core after an accepted Try)
  [4, c, chain, [conn]?]   create/update consumer c with a due spawn time (+ opt-in), BeginBlock: launch on a new
                           client, or on the client of the named connection
  [5, order, port, cpport, version, [hops], chid]   OnChanOpenTry
  [6, ch] OnChanOpenConfirm   [7] OnChanOpenInit   [8] OnChanOpenAck   [9, c] MsgRemoveConsumer
  [10] a block after the unbonding period (deletes every stopped consumer)
  [11, ch] OnTimeoutPacket (+ IBC core closes the ordered channel when the callback succeeds)
  [12, ch] error acknowledgement   [13, ch] OnRecvSlashPacket   [14] [15] close init/confirm
  [16, ch] world: the channel end is closed by IBC core
consumer (harness/c17/consumer_test.go, TestConsumer) - case {"pre","kind","gconn","conns","ops"}
  [1, conn, x] [2, order, port, version, cpport, [hops], chid] [3] [4, ch, md] [5] [6, ch] [7, ch] [8]
codes: order 0 NONE 1 UNORDERED 2 ORDERED; port 0 "provider" 1 "consumer" 2 "transfer"; version 0 "1" 1 "v1" 2 "".
"""
import json
from check import Part

ID = "C17"
DESIGN_REF = "DESIGN.md 6.17, 9.2"
RULE = ("provider: an enumeration of every OnChanOpenTry combination (3 orderings x 3 ports x 3 counterparty ports x 3 versions "
        "x 7 hop shapes: none, bound+free client, bound client with channel, unbound client, connection over an unknown "
        "client, unknown connection, two hops) over a fixed prelude, plus random histories mixing world operations, launches "
        "on a new client / on a named connection (unbound, bound to the same or ANOTHER consumer, wrong chain id, unknown "
        "connection or client), retries of failed launches, Try/Confirm (first, repeated, second channel for a bound consumer, "
        "channels over other consumers' or nobody's client), provider-initiated Init/Ack, owner stops, timeouts, error acks, "
        "slash packets on bound and unbound channels, deletion after unbonding and re-use of the freed client; structured "
        "close-and-relaunch histories (channel closed by a timeout / by IBC core / still open at the removal block, removal, a "
        "new consumer launched on the SAME connection, new handshake, late timeout / slash / error-ack packets on the OLD "
        "channel); the regression corpus cases in corpus/C17/ are always run.  consumer: every OnChanOpenInit combination "
        "and random histories of Init/Ack/Try/Confirm/VSC packets on first and other channels/CloseInit after InitGenesis from "
        "a provider-made genesis (new client or named connection).  non-trivial = a handshake step was accepted or a launch on "
        "a named connection was refused; distinct = distinct (action, result) sequences")
ASSUMPTIONS = [
    "IBC core is an oracle: clients, connections and channel ends exist as the fake World says; a connection/channel never "
    "changes its client/connection and 02-client never re-issues a client identifier (modelled as a counter)",
    "a launch attempt is the only pending one in its block and has an opted-in active validator, so it fails only for the "
    "reasons of MakeConsumerGenesis' named-connection branch; consumers are opt-in chains owned by one account",
    "every queued removal time has passed at a purge block (the block is one unbonding period later)",
    "the channel keeper reports exactly one connection hop per existing channel end (ibc-go enforces it for these channels)",
]
TRUSTED_BASE = [
    "modelled (coq/theories/Model/Handshake.v): provider OnChanOpenInit/Try/Ack/Confirm, OnChanCloseInit/Confirm, "
    "validateCCVChannelParams, VerifyConsumerChain, SetConsumerChain, getUnderlyingClient, Set/DeleteConsumerClientId with the "
    "reverse index, channel index setters/deleters, LaunchConsumer -> MakeConsumerGenesis (named connection, with the "
    "already-bound check) / CreateConsumerClient, failed launch -> REGISTERED, StopAndPrepareForConsumerRemoval, "
    "BeginBlockRemoveConsumers/DeleteConsumerChain (binding part), attribution in OnRecvSlashPacket/OnTimeoutPacket/"
    "OnAcknowledgementPacket; consumer OnChanOpenInit/Try/Ack/Confirm, OnChanCloseInit, VerifyProviderChain, OnRecvVSCPacket "
    "channel adoption, InitGenesis provider client",
    "oracle inputs recorded by the driver per action and used by the monitor only: the existing client under a hop / channel, "
    "chain-id match, existence of the acknowledged channel and of the transfer channel",
    "packet attribution is observed independently of the index: the consumer whose removal queue entry / slash-ack list grows",
]
LEVEL_NOTE = ("C17_client_bijection is proved in full for the repaired MakeConsumerGenesis; "
              "C17_client_bijection_needs_check documents that the same step without the check violates it")

CHAINS = [7, 8]


# ---------------------------------------------------------------------------------------------- provider
class Sim:
    """Python bookkeeping mirror of the provider model, used only to steer generation towards meaningful actions."""

    def __init__(self):
        self.fwd, self.rev, self.c2ch, self.ch2c = {}, {}, {}, {}
        self.phase = {}
        self.clients, self.conns, self.chans = {}, {}, {}
        self.next_client = 0
        self.to_remove = []
        self.ncons = 0
        self.ops = []

    def emit(self, op):
        self.ops.append(op)

    def add_client(self, chain):
        self.clients[self.next_client] = chain
        self.next_client += 1
        self.emit([1, chain])

    def add_conn(self, conn, x):
        self.conns.setdefault(conn, x)
        self.emit([2, conn, x])

    def add_chan(self, ch, conn):
        self.chans.setdefault(ch, conn)
        self.emit([3, ch, conn])

    def launch(self, c, chain, conn):
        self.emit([4, c, chain, [] if conn is None else [conn]])
        if c == self.ncons:
            self.ncons += 1
        if self.phase.get(c, 0) not in (0, 1):
            return
        if conn is None:
            x = self.next_client
            self.next_client += 1
            self.clients[x] = chain
        else:
            x = self.conns.get(conn)
            if x is None or self.clients.get(x) != chain or self.rev.get(x, c) != c:
                self.phase[c] = 1
                return
        self.fwd[c], self.rev[x], self.phase[c] = x, c, 3

    def client_of_chan(self, ch):
        x = self.conns.get(self.chans.get(ch))
        return x if x in self.clients else None

    def confirm(self, ch):
        self.emit([6, ch])
        x = self.client_of_chan(ch)
        c = self.rev.get(x)
        if c is not None and c not in self.c2ch:
            self.c2ch[c], self.ch2c[ch] = ch, c

    def stop(self, c):
        self.emit([9, c])
        if self.phase.get(c) == 3:
            self.phase[c] = 4
            self.to_remove.append(c)

    def timeout(self, ch, tag):
        self.emit([tag, ch])
        c = self.ch2c.get(ch)
        if c is not None:
            self.phase[c] = 4
            self.to_remove.append(c)

    def world_close(self, ch):
        self.emit([16, ch])

    def purge(self):
        self.emit([10])
        for c in self.to_remove:
            if self.phase.get(c) == 4:
                x = self.fwd.pop(c, None)
                self.rev.pop(x, None)
                ch = self.c2ch.pop(c, None)
                self.ch2c.pop(ch, None)
                self.phase[c] = 5
        self.to_remove = []

    def case(self):
        nch = max([0] + list(self.chans) + [op[1] for op in self.ops if op[0] in (6, 11, 12, 13, 16)]) + 2
        return {"nc": self.ncons + 1, "nx": self.next_client + 2, "nch": min(nch, 40), "ops": self.ops}


def prelude(s):
    """client 0 (chain 7) + connection 0, consumer 0 launched on it (bound, no channel); consumer 1 on a new client 1 with
    connection 1 and an established channel 0; client 2 unbound under connection 2; connection 3 over an unknown client."""
    s.add_client(7)
    s.add_conn(0, 0)
    s.launch(0, 7, 0)
    s.launch(1, 8, None)
    s.add_conn(1, 1)
    s.add_chan(0, 1)
    s.confirm(0)
    s.add_client(8)
    s.add_conn(2, 2)
    s.add_conn(3, 9)


HOP_SHAPES = [[], [0], [1], [2], [3], [4], [0, 1]]


def gen_enumeration():
    combos = [(o, p, cp, v, h) for o in (0, 1, 2) for p in (0, 1, 2) for cp in (0, 1, 2) for v in (0, 1, 2) for h in HOP_SHAPES]
    for i in range(0, len(combos), 27):
        s = Sim()
        prelude(s)
        for (o, p, cp, v, h) in combos[i:i + 27]:
            s.emit([5, o, p, cp, v, h, 5])
        yield s.case()


def regression_case():
    """DESIGN.md 9.2: two consumers with the same chain id name the same pre-existing connection."""
    return {"nc": 3, "nx": 3, "nch": 3,
            "ops": [[1, 7], [2, 0, 0], [4, 0, 7, [0]], [4, 1, 7, [0]], [5, 2, 0, 1, 0, [0], 0], [3, 0, 0], [6, 0], [13, 0], [11, 0]]}


def pick_conn(rng, s, kind):
    """a connection id by the kind of its client"""
    def over(pred):
        l = [k for k, x in s.conns.items() if pred(x)]
        return rng.choice(l) if l else None
    if kind == "free":        # existing, unbound client
        return over(lambda x: x in s.clients and x not in s.rev)
    if kind == "bound":       # client bound to some consumer
        return over(lambda x: x in s.rev)
    if kind == "boundfree":   # bound to a consumer without channel
        return over(lambda x: x in s.rev and s.rev[x] not in s.c2ch)
    if kind == "noclient":
        return over(lambda x: x not in s.clients)
    if kind == "unknown":
        return max(list(s.conns) + [0]) + rng.randint(1, 2)
    return rng.choice(list(s.conns)) if s.conns else None


def gen_history(rng):
    s = Sim()
    n = rng.randint(8, 28)
    st = {"conn": 0, "chan": 0}

    def new_conn(x):
        conn, st["conn"] = st["conn"], st["conn"] + 1
        s.add_conn(conn, x)
        return conn

    def free_conn():
        conn = pick_conn(rng, s, "free")
        if conn is None:
            s.add_client(rng.choice(CHAINS))
            conn = new_conn(s.next_client - 1)
        return conn

    def launch_some():
        """launch a new consumer so that it ends up bound (new client + connection, or a free named connection)"""
        if rng.random() < 0.5:
            s.launch(s.ncons, rng.choice(CHAINS), None)
            return new_conn(s.next_client - 1)
        conn = free_conn()
        s.launch(s.ncons, s.clients[s.conns[conn]], conn)
        return conn

    while len(s.ops) < n:
        r = rng.random()
        if r < 0.04:
            s.add_client(rng.choice(CHAINS))
        elif r < 0.10:
            known = list(s.clients)
            x = rng.choice(known) if known and rng.random() < 0.8 else s.next_client + rng.randint(0, 3)
            if rng.random() < 0.85 or st["conn"] == 0:
                new_conn(x)
            else:
                s.add_conn(rng.randrange(st["conn"]), x)          # an existing connection id: no effect
        elif r < 0.34:
            q = rng.random()
            retry = [c for c in range(s.ncons) if s.phase.get(c) == 1]
            if q < 0.25 and retry:
                c = rng.choice(retry)
            elif q < 0.32 and s.ncons:
                c = rng.randrange(s.ncons)           # usually not launchable any more
            else:
                c = s.ncons
            q = rng.random()
            if q < 0.30:
                s.launch(c, rng.choice(CHAINS), None)
            else:
                kind = "free" if q < 0.55 else "bound" if q < 0.85 else rng.choice(["noclient", "unknown", "any"])
                conn = free_conn() if kind == "free" else pick_conn(rng, s, kind)
                if conn is None:
                    conn = free_conn()
                x = s.conns.get(conn)
                chain = s.clients.get(x, rng.choice(CHAINS))
                if rng.random() < 0.08:
                    chain = 15 - chain if chain in CHAINS else chain
                s.launch(c, chain, conn)
                if rng.random() < 0.35 and x in s.rev:   # another consumer (same chain id) names the same connection
                    s.launch(s.ncons, chain, conn)
        elif r < 0.60:
            # try, then usually the channel end + confirm
            q = rng.random()
            kind = "boundfree" if q < 0.6 else rng.choice(["bound", "free", "noclient", "unknown", "any"])
            conn = pick_conn(rng, s, kind)
            if conn is None:
                conn = launch_some() if kind == "boundfree" else free_conn()
            o, p, cp, v, hops = 2, 0, 1, 0, [conn]
            if rng.random() < 0.25:
                dev = rng.randrange(5)
                if dev == 0:
                    o = rng.choice([0, 1])
                elif dev == 1:
                    p = rng.choice([1, 2])
                elif dev == 2:
                    cp = rng.choice([0, 2])
                elif dev == 3:
                    v = rng.choice([1, 2])
                else:
                    hops = rng.choice([[], [conn, conn], [conn, pick_conn(rng, s, "unknown")]])
            ch, st["chan"] = st["chan"], st["chan"] + 1
            s.emit([5, o, p, cp, v, hops, ch])
            if rng.random() < 0.8 and len(hops) >= 1:
                s.add_chan(ch, hops[0])
                s.confirm(ch)
                if rng.random() < 0.25:
                    s.confirm(ch)                     # repeated confirm
                if rng.random() < 0.25:               # a second channel over the same connection
                    ch2, st["chan"] = st["chan"], st["chan"] + 1
                    s.emit([5, 2, 0, 1, 0, [hops[0]], ch2])
                    s.add_chan(ch2, hops[0])
                    s.confirm(ch2)
        elif r < 0.63:
            s.confirm(rng.randrange(st["chan"] + 2))
        elif r < 0.66:
            s.emit([rng.choice([7, 8, 14, 15])])
        elif r < 0.67:
            s.world_close(rng.randrange(st["chan"] + 1))
        elif r < 0.74:
            launched = [c for c in range(s.ncons) if s.phase.get(c) == 3]
            s.stop(rng.choice(launched) if launched and rng.random() < 0.85 else rng.randrange(s.ncons + 2))
        elif r < 0.81:
            s.purge()
        else:
            bound = list(s.ch2c)
            ch = rng.choice(bound) if bound and rng.random() < 0.8 else rng.randrange(st["chan"] + 2)
            tag = rng.choice([11, 12, 13, 13])
            if tag == 13:
                s.emit([13, ch])
            else:
                s.timeout(ch, tag)
                if rng.random() < 0.3:
                    s.timeout(ch, rng.choice([11, 12]))   # a second in-flight packet times out
    return s.case()


def closed_channel_case():
    """the CCV channel is already CLOSED (timeout) when its consumer is removed; relaunch on the same connection;
    late packets on the old channel"""
    return {"nc": 3, "nx": 3, "nch": 4,
            "ops": [[1, 7], [2, 0, 0], [4, 0, 7, [0]], [5, 2, 0, 1, 0, [0], 0], [3, 0, 0], [6, 0], [11, 0], [10],
                    [4, 1, 7, [0]], [5, 2, 0, 1, 0, [0], 1], [3, 1, 0], [6, 1], [11, 0], [13, 0], [12, 0], [13, 1]]}


def gen_relaunch(rng):
    """close-and-relaunch rounds over one connection"""
    s = Sim()
    if rng.random() < 0.3:
        s.add_client(rng.choice(CHAINS))           # an unrelated client first: ids differ from consumer ids
    chain = rng.choice(CHAINS)
    if rng.random() < 0.7:
        s.add_client(chain)
        x = s.next_client - 1
        s.add_conn(0, x)
        s.launch(s.ncons, chain, 0)
    else:
        s.launch(s.ncons, chain, None)
        x = s.next_client - 1
        s.add_conn(0, x)
    ch = 0
    old = []
    for _ in range(rng.randint(1, 3)):
        s.emit([5, 2, 0, 1, 0, [0], ch])
        s.add_chan(ch, 0)
        s.confirm(ch)
        if rng.random() < 0.3:
            s.emit([13, ch])
        how = rng.random()
        if how < 0.5:
            s.timeout(ch, 11)                      # closes the channel
            if rng.random() < 0.3:
                s.timeout(ch, rng.choice([11, 12]))
        elif how < 0.7:
            s.timeout(ch, 12)                      # error ack: channel stays open ...
            if rng.random() < 0.6:
                s.world_close(ch)                  # ... unless IBC core closes it
        else:
            c = s.ch2c.get(ch, 0)
            s.stop(c)
            if rng.random() < 0.5:
                s.world_close(ch)
        if rng.random() < 0.15:
            s.emit([rng.choice([11, 12, 13]), ch])  # still before the removal block
        s.purge()
        old.append(ch)
        ch += 1
        if rng.random() < 0.4:
            for o in rng.sample(old, len(old)):
                s.timeout(o, rng.choice([11, 12])) if rng.random() < 0.6 else s.emit([13, o])
        s.launch(s.ncons, chain, 0)                # a new consumer on the same pre-existing connection
    s.emit([5, 2, 0, 1, 0, [0], ch])
    s.add_chan(ch, 0)
    s.confirm(ch)
    for _ in range(rng.randint(1, 5)):
        o = rng.choice(old + [ch]) if rng.random() < 0.85 else ch + 1
        tag = rng.choice([11, 12, 13, 13])
        if tag == 13:
            s.emit([13, o])
        else:
            s.timeout(o, tag)
    if rng.random() < 0.5:
        s.purge()
        s.emit([13, rng.choice(old + [ch])])
    return s.case()


def gen_provider(rng, tier):
    yield regression_case()
    yield closed_channel_case()
    yield from gen_enumeration()
    for _ in range(60 if tier == "quick" else 1500):
        yield gen_relaunch(rng)
    total = 340 if tier == "quick" else 12000
    for _ in range(total):
        yield gen_history(rng)


# ---------------------------------------------------------------------------------------------- consumer
def gen_consumer_case(rng, ops=None):
    pre = rng.randint(0, 3)
    kind = rng.randint(0, 1)
    gconn = [rng.randint(0, 2), rng.randint(0, 5)]
    pc = pre if kind == 0 else gconn[1]
    conns = []
    for k in range(rng.randint(1, 4)):
        conns.append([k + (3 if kind == 1 else 0), pc if rng.random() < 0.5 else rng.randint(0, 6)])
    good = [c[0] for c in conns if c[1] == pc] + ([gconn[0]] if kind == 1 else [])
    if not good:
        conns.append([9, pc])
        good = [9]
    case = {"pre": pre, "kind": kind, "gconn": gconn if kind == 1 else [], "conns": conns}
    if ops is not None:
        case["ops"] = ops(good, [c[0] for c in conns if c[1] != pc])
        return case
    out = []
    next_chan = 0
    inited = []
    for _ in range(rng.randint(5, 16)):
        r = rng.random()
        if r < 0.35:
            conn = rng.choice(good) if rng.random() < 0.7 else rng.choice([c[0] for c in conns] + [12])
            o, p, v, cp, hops = 2, 1, rng.choice([0, 0, 2]), 0, [conn]
            if rng.random() < 0.3:
                dev = rng.randrange(5)
                if dev == 0:
                    o = rng.choice([0, 1])
                elif dev == 1:
                    p = rng.choice([0, 2])
                elif dev == 2:
                    v = 1
                elif dev == 3:
                    cp = rng.choice([1, 2])
                else:
                    hops = rng.choice([[], [conn, conn]])
            out.append([2, o, p, v, cp, hops, next_chan])
            inited.append(next_chan)
            next_chan += 1
        elif r < 0.50:
            ch = rng.choice(inited) if inited and rng.random() < 0.8 else next_chan + 3
            out.append([4, ch, rng.choice([0, 0, 0, 1, 2])])
        elif r < 0.72:
            out.append([6, rng.choice(inited) if inited and rng.random() < 0.8 else rng.randint(0, 4)])
        elif r < 0.82:
            out.append([7, rng.choice(inited) if inited and rng.random() < 0.8 else rng.randint(0, 4)])
        elif r < 0.90:
            out.append([rng.choice([3, 5])])
        elif r < 0.95:
            out.append([1, rng.randint(0, 12), rng.choice([pc, rng.randint(0, 6)])])
        else:
            out.append([8])
    case["ops"] = out
    return case


def gen_consumer(rng, tier):
    # every OnChanOpenInit combination, over a right / wrong / unknown connection, none and two hops
    combos = [(o, p, v, cp, h) for o in (0, 1, 2) for p in (0, 1, 2) for v in (0, 1, 2) for cp in (0, 1, 2) for h in range(5)]
    for i in range(0, len(combos), 45):
        chunk = combos[i:i + 45]

        def ops(good, bad, chunk=chunk):
            g, b = good[0], (bad[0] if bad else 13)
            shapes = [[g], [b], [14], [], [g, g]]
            return [[2, o, p, v, cp, shapes[h], 20] for (o, p, v, cp, h) in chunk] + [[6, 1], [2, 2, 1, 0, 0, [g], 21]]
        yield gen_consumer_case(rng, ops)
    total = 200 if tier == "quick" else 6000
    for _ in range(total):
        yield gen_consumer_case(rng)


# ---------------------------------------------------------------------------------------------- reporting
def nontrivial_provider(case, inp, obs):
    seq = [[op[0], o[0]] for op, o in zip(inp[2], obs)]
    if any((t in (5, 6) and r == 0) or (t == 4 and r == 20) for t, r in seq):
        return json.dumps(seq)
    return None


def nontrivial_consumer(case, inp, obs):
    seq = [[op[0], o[0]] for op, o in zip(inp[2], obs)]
    if any(t in (2, 6) and r == 0 for t, r in seq):
        return json.dumps([case["kind"], seq])
    return None


CLAUSES = {
    1: "a consumer's client is not mapped back to it by the reverse index (two consumers share a client, or stale forward entry)",
    2: "the reverse index names a consumer whose forward index names another client (or none)",
    3: "a consumer's channel is not mapped back to it by the channel index",
    4: "the channel index names a consumer whose channel is another one (or none)",
    5: "OnChanOpenTry accepted/rejected against the rule: ordered, provider/consumer ports, version, one hop, hop client "
       "bound by both indices to a consumer without channel",
    6: "OnChanOpenConfirm bound a channel although the channel's client is not bound to a channel-less consumer (or refused "
       "although it is, or bound the wrong pair)",
    7: "a rejected / read-only handshake or packet callback changed a binding",
    8: "the provider accepted a handshake step it initiated (OnChanOpenInit/Ack)",
    9: "a launch bound a consumer to a client that was bound to another consumer, or recorded the wrong client",
    10: "a packet was attributed to a consumer other than the one bound to the channel's underlying client",
    11: "the client or channel of a consumer was replaced while it was bound",
    12: "a deleted consumer is still bound: a channel or client is attributed to it, or it still has a client/channel",
    13: "a deleted consumer changed phase (e.g. a late packet on its old channel stopped it again)",
    21: "the consumer's recorded provider client changed",
    22: "the consumer's provider channel changed after it was set",
    23: "consumer OnChanOpenInit accepted/rejected against the rule: no provider channel yet, ordered, ports, version, one "
        "hop over the recorded provider client",
    24: "a consumer handshake callback changed the provider channel",
    25: "the consumer accepted OnChanOpenTry/Confirm",
    26: "VSC packet: the first must fix the provider channel, later ones are accepted only on that channel",
    27: "consumer OnChanCloseInit allowed for a channel that is not a duplicate of the established provider channel",
}


def describe(codes):
    return "; ".join(CLAUSES.get(c, str(c)) for c in codes)


def histogram(part, c):
    out = [part]
    tags = {op[0] for op in c["ops"]}
    if part == "provider":
        names = {4: "launch", 5: "try", 6: "confirm", 9: "stop", 10: "purge", 11: "timeout", 12: "ackerr", 13: "slash",
                 16: "world_close"}
        out += [names[t] for t in sorted(tags) if t in names]
        if any(op[0] == 4 and op[3] for op in c["ops"]):
            out.append("launch_on_connection")
    else:
        out.append("genesis_connection" if c["kind"] == 1 else "genesis_new_client")
    return out


PARTS = [
    Part("provider", "c17", "handshake", gen_provider, go_test="TestDriver", nontrivial=nontrivial_provider, describe=describe),
    Part("consumer", "c17", "handshake", gen_consumer, go_test="TestConsumer", nontrivial=nontrivial_consumer, describe=describe),
]
