"""C02: only eligible bonded provider validators secure a consumer, at provider power (DESIGN.md 6.2)."""
import json
from check import Part

ID = "C02"
DESIGN_REF = "DESIGN.md 6.2, 9.1, 9.7"
RULE = ("histories over the real provider keeper: 2-12 validators (10% 13-20) with tokens from {k*10^6, k*10^6+r} so that "
        "equal-power/different-token and equal-token pairs are frequent; staking MaxValidators and M below/equal/above the "
        "number bonded; 1-3 consumers with random combinations of top_n/set cap/power cap/min stake/allow-inactive/"
        "allow-, deny-, priority lists set by MsgCreateConsumer/MsgUpdateConsumer; opt-ins, opt-outs and key assignments by "
        "messages (incl. refused ones: unknown consumer, not launched, key in use); launches at BeginBlock and epochs at "
        "EndBlock; token changes, jailing with and without a staking EndBlock, validators entering/leaving the bonded set, "
        "changes of M and MaxValidators. Directed blocks: (a) Top-N consumers allowing inactive validators with (almost) all "
        "powers equal and M below the number bonded, few opt-ins, allow-/denylists naming inactive validators (an inactive "
        "validator reaches the threshold through HasMinPower without being opted in); (b) min_stake in {2^63-1, 2^63, 2^63+1, "
        "10^19, 2^64-1} against ordinary validators and validators holding more than 2^63 tokens. The corpus holds the tie witness of the repaired defect (DESIGN.md 9.1). "
        "Non-trivial = a computed consumer set that is neither empty nor the whole bonded list; distinct = distinct "
        "(oracle snapshot, set)")
ASSUMPTIONS = [
    "the staking oracle list (GetBondedValidatorsByPower) holds distinct validators with positive last power; the driver checks on "
    "every snapshot that it is exactly the bonded, non-jailed validators in (power desc, operator address asc) order",
    "ComputeMinPowerInTopN is an oracle input of this slice (the real function's value is fed to the model; C03 models it)",
    "messages are delivered with baseapp semantics; only accepted messages change the model state (their acceptance rules belong to C05/C10/C14)",
    "sort.Slice is stable for n <= 12 (insertion sort); for more than 12 validators only tie-insensitive projections are compared "
    "and no validator-set cap is generated (the survivor among equal powers, hence possibly the launch outcome, depends on the tie order)",
    "tokens and min_stake are unbounded integers in the model (math.Int / uint64 in Go; values up to 2^64-1 are exercised); "
    "powers stay far below 2^63 and int64 overflow of powers is not modelled",
]
TRUSTED_BASE = [
    "modelled: ComputeConsumerNextValSet, ComputeNextValidators, FilterValidators, CreateConsumerValidator, GetLastBondedValidators, "
    "GetLastProviderConsensusActiveValidators, GetLastBondedValidatorsUtil, CanValidateChain, HasMinPower, FulfillsMinStake, "
    "OptInTopNValidators, the validator-set conditions of LaunchConsumer/HasActiveConsumerValidator, the per-consumer loops of "
    "QueueVSCPackets and BeginBlockLaunchConsumers incl. the in-place sort of the shared slices; partition/set cap/power cap reuse "
    "Model/PowerCap.v (C04); oracle inputs: staking bonded list with tokens/last power/provider key, MaxValidators, M, block height, "
    "ComputeMinPowerInTopN",
]

MIL = 10 ** 6
BIG_STAKES = [2 ** 63 - 1, 2 ** 63, 2 ** 63 + 1, 10 ** 19, 2 ** 64 - 1]      # MinStake is a uint64
BIG_TOKENS = [2 ** 63 - 1, 2 ** 63, 2 ** 63 + 5 * 10 ** 5, 10 ** 19, 10 ** 19 + 1, 2 ** 64 - 1]   # tokens are math.Int


def gen_tokens(rng, n):
    mode = rng.choice(["ties", "ties", "spread", "mixed"])
    out = []
    for _ in range(n):
        if mode == "ties":
            k = rng.choice([1, 1, 2, 3])
        elif mode == "spread":
            k = rng.randint(1, 12)
        else:
            k = rng.choice([1, 2, 2, 5, 10])
        r = rng.choice([0, 0, 0, 1, 500000, 900000, 999999])
        out.append(k * MIL + r)
    return out


def sub(rng, n, p, extra=False):
    l = [i for i in range(n) if rng.random() < p]
    if extra and rng.random() < 0.2:
        l.append(n + rng.randint(1, 5))      # a well-formed address that is no validator
    rng.shuffle(l)
    return l


def gen_cfg(rng, n, topn_ok=True):
    top_n = rng.choice([50, 51, 60, 67, 80, 100]) if (topn_ok and rng.random() < 0.3) else 0
    set_cap = rng.choice([0, 0, 0, 1, 2, 3, n, n + 1])
    power_cap = rng.choice([0, 0, 0, 20, 34, 50, 100])
    k = rng.randint(1, 4)
    min_stake = rng.choice([0, 0, 0, k * MIL, k * MIL + 1, k * MIL + 500000, k * MIL - 1])
    if rng.random() < 0.06:
        min_stake = rng.choice(BIG_STAKES)
    ai = 1 if rng.random() < 0.45 else 0
    allow = sub(rng, n, rng.choice([0, 0, 0.6, 0.9]), True)
    deny = sub(rng, n, rng.choice([0, 0, 0.2, 0.4]), True)
    prio = sub(rng, n, rng.choice([0, 0, 0.3, 0.7]), True)
    return [top_n, set_cap, power_cap, min_stake, ai, allow, deny, prio]


def tie_witness():
    """DESIGN.md 9.1: v0 power 10, v1..v3 power 1, v3 (largest operator address) has the most tokens of the three; M = 2."""
    return {"tokens": [10 * MIL, MIL, MIL, MIL + 900000], "max_vals": 100, "M": 2,
            "consumers": [[0, 0, 0, 0, 0, [], [], []]],
            "ops": [[11, 0, 0, 0], [11, 0, 1, 0], [11, 0, 2, 0], [11, 0, 3, 0], [14, [0]], [15], [15]]}


def gen_history(rng, big=False):
    n = rng.randint(13, 20) if big else rng.choice([2, 3, 4, 4, 5, 5, 6, 7, 8, 10, 12])
    tokens = gen_tokens(rng, n)
    if rng.random() < 0.15:
        tokens[rng.randrange(n)] = 0                       # a validator that does not exist yet (no power)
    max_vals = rng.choice([100, 100, n, n - 1, n + 1, max(1, n // 2)])
    max_vals = max(1, max_vals)
    M = max(1, rng.choice([1, 2, n // 2, n - 1, n, n + 1, n + 2, rng.randint(1, n + 2)]))
    nc = rng.choice([1, 1, 2, 2, 3])
    consumers = [gen_cfg(rng, n, False) for _ in range(nc)]
    ops = []
    keyn = [2000]

    def newkey():
        keyn[0] += 1
        return keyn[0] if keyn[0] < 2039 else 2039

    # set-up phase: opt-ins, key assignments, Top-N updates
    for c in range(nc):
        p = rng.choice([0.5, 0.8, 1.0])
        for v in range(n):
            if rng.random() < p:
                ops.append([11, c, v, newkey() if rng.random() < 0.15 else 0])
        if rng.random() < 0.35:
            ops.append([10, c] + gen_cfg(rng, n, True))
    for _ in range(rng.randint(0, 3)):
        ops.append([13, rng.randrange(nc), rng.randrange(n), newkey()])
    rng.shuffle(ops)
    launch = [c for c in range(nc) if rng.random() < 0.85] or [0]
    rng.shuffle(launch)
    ops.append([14, launch])
    for _ in range(rng.randint(2, 6)):
        for _ in range(rng.randint(0, 4)):
            k = rng.random()
            if k < 0.25:      # token change (often to a boundary), usually followed by the staking EndBlock
                v = rng.randrange(n)
                kk = rng.choice([0, 1, 1, 2, 3, 5, 10])
                ops.append([20, v, kk * MIL + rng.choice([0, 0, 1, 500000, 900000, 999999]) if kk else rng.choice([0, 999999])])
                if rng.random() < 0.85:
                    ops.append([22])
            elif k < 0.35:    # jail / unjail, with or without the staking EndBlock (jailed in this block)
                ops.append([21, rng.randrange(n), rng.choice([1, 1, 0])])
                if rng.random() < 0.6:
                    ops.append([22])
            elif k < 0.45:
                ops.append([11, rng.randrange(nc + (1 if rng.random() < 0.1 else 0)), rng.randrange(n), newkey() if rng.random() < 0.2 else 0])
            elif k < 0.55:
                ops.append([12, rng.randrange(nc), rng.randrange(n)])
            elif k < 0.65:
                ops.append([13, rng.randrange(nc), rng.randrange(n), rng.choice([newkey(), 2001, 1000 + rng.randrange(n)])])
            elif k < 0.8:
                ops.append([10, rng.randrange(nc)] + gen_cfg(rng, n, True))
            elif k < 0.87:
                ops.append([24, max(1, rng.choice([1, 2, n - 1, n, n + 1, rng.randint(1, n + 2)]))])
            elif k < 0.93:
                ops.append([23, max(1, rng.choice([n, n - 1, n + 1, max(1, n // 2), 100]))])
                ops.append([22])
            else:
                ops.append([14, [rng.randrange(nc)]])
        ops.append([15])
    if big:
        # above 12 validators Go's sort.Slice is not stable: which of several validators of equal power survives a
        # validator-set cap (and with it whether a launch finds an active member) depends on the unmodelled tie order,
        # so no set cap is used there (C04 covers the cap for n > 12 at function level, tie-insensitively)
        for g in consumers:
            g[1] = 0
        for o in ops:
            if o[0] == 10:
                o[3] = 0
    return {"tokens": tokens, "max_vals": max_vals, "M": M, "consumers": consumers, "ops": ops}


def gen_topn_inactive(rng):
    """directed: a Top-N consumer that allows inactive validators, M below the number bonded, (almost) all powers equal, so
    that inactive bonded validators reach the Top-N threshold through HasMinPower without being opted in; the allow- and
    denylists name inactive validators"""
    n = rng.choice([4, 5, 6, 8])
    k = rng.choice([1, 1, 2, 3])
    tokens = [k * MIL + rng.choice([0, 0, 1, 500000, 900000]) for _ in range(n)]
    if rng.random() < 0.4:
        tokens[rng.randrange(n)] = (k + rng.choice([1, 2])) * MIL           # one stronger validator
    if rng.random() < 0.3:
        tokens[rng.randrange(n)] = max(MIL, (k - 1) * MIL)                  # one weaker validator
    M = rng.randint(1, n - 1)
    nc = rng.choice([1, 1, 2])
    ops, consumers = [], []
    for c in range(nc):
        consumers.append([0, 0, 0, 0, 1, [], [], []])
        for v in range(n):
            if rng.random() < rng.choice([0.0, 0.2, 0.5]):
                ops.append([11, c, v, 0])
        deny = [v for v in range(n) if rng.random() < 0.4]
        allow = [v for v in range(n) if rng.random() < 0.6] if rng.random() < 0.5 else []
        if rng.random() < 0.5:
            deny = []
        if not deny and not allow:
            deny = [rng.randrange(M, n)]
        ops.append([10, c, rng.choice([90, 95, 100, 100, 67, 50]), 0, rng.choice([0, 0, 50]), rng.choice([0, 0, k * MIL]), 1,
                    allow, deny, sub(rng, n, 0.3)])
    ops.append([14, list(range(nc))])
    for _ in range(rng.randint(1, 4)):
        r = rng.random()
        if r < 0.3:
            v = rng.randrange(n)
            ops += [[20, v, tokens[v] + rng.choice([0, 1, MIL])], [22]]
        elif r < 0.45:
            ops.append([24, rng.randint(1, n)])
        elif r < 0.6:
            ops.append([12, rng.randrange(nc), rng.randrange(n)])
        elif r < 0.7:
            ops += [[21, rng.randrange(n), 1], [22]]
        ops.append([15])
    return {"tokens": tokens, "max_vals": 100, "M": M, "consumers": consumers, "ops": ops}


def gen_big_stake(rng):
    """directed: min_stake around and above 2^63 (uint64) against validators with ordinary tokens and with tokens > 2^63"""
    n = rng.choice([3, 4, 5, 6])
    tokens = gen_tokens(rng, n)
    for _ in range(rng.choice([0, 1, 1, 2])):
        tokens[rng.randrange(n)] = rng.choice(BIG_TOKENS)
    M = rng.choice([n, n, n + 1, max(1, n - 1)])
    nc = rng.choice([1, 2])
    consumers, ops = [], []
    for c in range(nc):
        g = [0, 0, rng.choice([0, 0, 50]), 0, rng.choice([0, 1]), [], [], []]
        if rng.random() < 0.4 and any(t >= 2 ** 63 - 1 for t in tokens):
            g[3] = rng.choice(BIG_STAKES)                                    # launch already under a huge minimum stake
        consumers.append(g)
        for v in range(n):
            if rng.random() < 0.9:
                ops.append([11, c, v, 0])
    ops.append([14, list(range(nc))])
    ops.append([15])
    for _ in range(rng.randint(2, 4)):
        c = rng.randrange(nc)
        g = list(consumers[c])
        g[3] = rng.choice(BIG_STAKES + [0, MIL])
        if rng.random() < 0.2:
            g[0] = rng.choice([50, 100])
        ops.append([10, c] + g)
        if rng.random() < 0.4:
            ops += [[20, rng.randrange(n), rng.choice(BIG_TOKENS + [MIL, 2 * MIL])], [22]]
        ops.append([15])
    return {"tokens": tokens, "max_vals": 100, "M": M, "consumers": consumers, "ops": ops}


def gen(rng, tier):
    total = 500 if tier == "quick" else 12000
    for _ in range(50 if tier == "quick" else 600):
        yield gen_topn_inactive(rng)
        yield gen_big_stake(rng)
    yield tie_witness()
    # variations of the witness: the boundary tie with other M, several consumers sharing the slices
    for m in (1, 2, 3):
        for ai in (0, 1):
            c = tie_witness()
            c["M"] = m
            c["consumers"] = [[0, 0, 0, 0, ai, [], [], []], [0, 2, 0, 0, 1 - ai, [], [], [3]]]
            c["ops"] = [[11, cc, v, 0] for cc in (0, 1) for v in range(4)] + [[14, [1, 0]], [15], [20, 1, 1950000], [22], [15]]
            yield c
    for i in range(total):
        yield gen_history(rng, big=(i % 10 == 9))


def _insens(ob):
    if not isinstance(ob, list) or len(ob) != 3:
        return ob
    prov, per, hyp = ob
    return [prov, [[l, sorted(x[2] for x in vs), opted] for l, vs, opted in per], hyp]


def project(case, obs):
    if len(case["tokens"]) <= 12:
        return obs
    return [_insens(o) for o in obs]


def nontrivial(case, inp, obs):
    keys = []
    computes = [o for o in inp[1] if o[0] in (4, 5)]
    for o, ob in zip(computes, obs):
        if len(ob) != 3:
            continue
        bonded = sorted(v[0] for v in o[2][0])
        for l, vs, _ in ob[1]:
            ids = sorted(x[0] for x in vs)
            if l and ids and ids != bonded:
                keys.append(json.dumps([o[2], vs]))
    return keys[0] if keys else None


CLAUSES = {1: "a member of a consumer set is not in the bonded (non-jailed) validator list",
           2: "a member is neither opted in nor required by the Top-N threshold",
           3: "a member is not on the (non-empty) allowlist", 4: "a member is on the denylist",
           5: "a member has fewer bonded tokens than the minimum stake",
           6: "inactive validators are not allowed but a member is outside the provider's active set (first M by power index)",
           7: "no power cap but a member's consumer power differs from its provider power",
           8: "a member's consumer key is neither its assigned key nor (without assignment) its provider key",
           9: "join height not preserved for a previous member / not the current height for a new one",
           10: "no validator-set cap applies but a candidate meeting all conditions is missing",
           11: "a validator appears twice in a consumer set",
           12: "oracle hypothesis violated (duplicate validator or non-positive power in the bonded list)",
           13: "after EndBlock the provider's recorded consensus set is not the first M of the bonded list"}


def describe(codes):
    return "; ".join(CLAUSES.get(c, str(c)) for c in sorted(set(codes)))


def histogram(part, c):
    n = len(c["tokens"])
    out = ["n<=12" if n <= 12 else "n>12", "consumers=%d" % len(c["consumers"])]
    out.append("M<n" if c["M"] < n else ("M=n" if c["M"] == n else "M>n"))
    cfgs = list(c["consumers"]) + [o[2:] for o in c["ops"] if o[0] == 10]
    for name, i in (("topn", 0), ("set_cap", 1), ("power_cap", 2), ("min_stake", 3), ("allow_inactive", 4),
                    ("allowlist", 5), ("denylist", 6), ("prioritylist", 7)):
        if any(g[i] for g in cfgs):
            out.append(name)
    if any(o[0] == 21 for o in c["ops"]):
        out.append("jailing")
    if any(o[0] == 24 for o in c["ops"]):
        out.append("M changed")
    return out


PARTS = [Part("history", "c02", "eligibility", gen, project=project, nontrivial=nontrivial, describe=describe)]
