"""C09: jail throttling bounds consumer-initiated jailing; bounced reports are retried (DESIGN.md 6.9)."""
import json
from check import Part

ID = "C09"
DESIGN_REF = "6.9"
RULE = ("provider part: the C08 history generator in flooding mode (1-3 consumers sending mostly downtime reports, validator powers "
        "and total power changing between blocks, block steps of 1ns, period/2, period-1ns, period, period+1ns, 2*period, replenish "
        "fractions 0.0001..1.0 via InitGenesis params; directed/random same-block histories: several consumers report one validator "
        "within a block, reports for a validator jailed earlier in the block, assigned keys), slash meter / allowance / replenish candidate observed after every BeginBlock "
        "and packet. consumer part: random histories over the real consumer keeper steered by a small simulation so that sends, "
        "bounces, retries at sendTime+delay-1ns/+0/+1ns, send errors, expired client, error acks, unsolicited acks and VSC packets "
        "all occur. non-trivial = a packet was bounced or the meter was replenished after going negative (provider) / a bounced "
        "packet was retried (consumer); distinct = distinct class / send sequences")
ASSUMPTIONS = [
    "monitor clause 10 exempts validator states that do not occur on a real chain: tombstoned but not jailed, unbonded with "
    "last power, a launched consumer without infraction parameters (there the code charges the meter without jailing)",
    "block times are non-decreasing; replenish fraction in [0,1], total power and validator powers >= 0 (params validation, CometBFT); int64 overflow not modelled",
    "IBC delivers at most one acknowledgement per sent packet (needed for 'never drops': an unsolicited handled-ack deletes the queue head in the code too); "
    "the generator also produces unsolicited acks, for which only the correspondence and the per-step clauses are checked",
    "packet ids (vsc ids) of queued packets are distinct in generated histories so that re-sends can be recognised",
]
TRUSTED_BASE = [
    "modelled: GetSlashMeterAllowance, ReplenishSlashMeter, CheckForSlashMeterReplenishment, meter check and deduction of OnRecvSlashPacket; "
    "consumer PacketSendingPermitted, SendPackets, UpdateSlashRecordOnSend/OnBounce, ClearSlashRecord, DeleteHeadOfPendingPackets, "
    "OnAcknowledgementPacket, QueueSlashPacket, AppendPendingPacket, OnRecvVSCPacket (acks, channel), ApplyCCValidatorChanges",
    "oracle inputs: block time, staking last total power, the reported validator's staking state (found, jailed, last power; "
    "GetEffectiveValPower itself is modelled: eff_pow), whether the packet reaches the meter "
    "check (phase / membership: C08), IBC send failures, acknowledgement results",
]


def gen_provider(rng, tier):
    from props import c08
    total = 340 if tier == "quick" else 8000
    yield c08.gen_same_block_case(rng, directed=["multi", "extjail", "multi"])
    for _ in range(90 if tier == "quick" else 2000):
        yield c08.gen_same_block_case(rng)
    for _ in range(total):
        yield c08.gen_provider_case(rng, flood=True)


def project_meter(case, obs):
    # field 4 (did this packet jail somebody?) is an implementation-only observation used by monitor clause 10
    return [o[:4] for o in obs]


def nontrivial_provider(case, inp, obs):
    bounced = sum(1 for o in obs if o[0] == 3)
    neg = any(o[1] < 0 for o in obs)
    if bounced == 0 and not neg:
        return None
    return json.dumps([[o[0] for o in obs], [o[1] for o in obs][:12]])


# ---------------------------------------------------------------- consumer histories

class Sim:
    """small mirror of the consumer FSM, used only to steer generation towards interesting schedules"""

    def __init__(self, delay, chan):
        self.q, self.rec, self.chan, self.closed, self.now, self.delay = [], None, chan, False, 0, delay

    def permitted(self):
        if self.rec is None:
            return True
        if self.rec[0]:
            return False
        return self.now > self.rec[1] + self.delay

    def send(self, fail):
        if not self.chan:
            return
        k = 0
        while self.q:
            if not self.permitted() or self.closed or (fail is not None and fail == k):
                break
            k += 1
            if self.q[0] != 2:
                self.rec = (True, self.now)
                break
            self.q.pop(0)


def gen_consumer_case(rng):
    delay = rng.choice([3600 * 10 ** 9, 10 * 10 ** 9, 10 ** 9, 0])
    chan0 = 1 if rng.random() < 0.85 else 0
    sim = Sim(delay, bool(chan0))
    acts, nid = [], [1]
    n = rng.randint(10, 45)
    flagged = set()
    for _ in range(n):
        r = rng.random()
        if r < 0.27:
            addr = rng.randint(1, 4)
            dt = 1 if rng.random() < 0.85 else 0
            acts.append([1, addr, nid[0], dt, 1 if rng.random() < 0.3 else 0])
            if not (dt and addr in flagged):
                sim.q.append(1 if dt else 3)
                if dt:
                    flagged.add(addr)
            nid[0] += 1
        elif r < 0.40:
            acts.append([2, nid[0]])
            sim.q.append(2)
            nid[0] += 1
        elif r < 0.70:
            fail, expired = -1, 0
            x = rng.random()
            if x < 0.12:
                fail = rng.randint(0, 2)
            elif x < 0.15:
                expired = 1
            sim.send(0 if expired else (fail if fail >= 0 else None))
            if sim.rec is not None and not sim.rec[0] and rng.random() < 0.8:
                target = sim.rec[1] + delay + rng.choice([-1, 0, 1, 1, 2])
                dt = max(0, target - sim.now)
            else:
                dt = rng.choice([10 ** 9, 5 * 10 ** 9, delay, delay + 1, 1, 0])
            acts.append([3, dt, fail, expired])
            sim.now += dt
        elif r < 0.90:
            waiting = sim.rec is not None and sim.rec[0]
            if waiting or rng.random() < 0.12:
                kind = 1
                x = rng.random()
                res = 2 if x < 0.45 else 3 if x < 0.82 else 1 if x < 0.92 else 4 if x < 0.95 else rng.choice([5, 6])
            else:
                kind, res = 2, rng.choice([1, 1, 4, 5])
            if res == 4 and not sim.chan:
                res = 2 if kind == 1 else 1
            acts.append([4, kind, res])
            if res == 4:
                sim.closed = True
            elif kind == 1 and res in (1, 2):
                sim.rec = None
                if sim.q:
                    sim.q.pop(0)
            elif kind == 1 and res == 3 and sim.rec is not None:
                sim.rec = (False, sim.rec[1])
        else:
            acks = [a for a in range(1, 5) if rng.random() < 0.4]
            if rng.random() < 0.1:
                acks.append(-1)
            ch = [[a, rng.choice([0, 1, 5])] for a in range(1, 7) if rng.random() < 0.3]
            rng.shuffle(ch)
            acts.append([5, acks, ch])
            sim.chan = True
            flagged -= set(acks)
    return {"delay_ns": delay, "chan0": chan0, "acts": acts}


# the refutation witness of C08_outstanding_queue_full, replayed on the real consumer in every run:
# report for validator 1 sent and in flight; the VSC packet with the slash ack overtakes the IBC acknowledgement;
# a second downtime report for validator 1 is queued while the first is still at the head of the queue
WITNESS_TWO_REPORTS = {"delay_ns": 10 ** 9, "chan0": 1,
                       "acts": [[1, 1, 1, 1, 0], [3, 10 ** 9, -1, 0], [5, [1], []], [1, 1, 2, 1, 0], [4, 1, 2], [3, 10 ** 9, -1, 0]]}


def gen_consumer(rng, tier):
    total = 900 if tier == "quick" else 20000
    yield json.loads(json.dumps(WITNESS_TWO_REPORTS))
    for _ in range(total):
        yield gen_consumer_case(rng)


def nontrivial_consumer(case, inp, obs):
    """a bounced packet that was later re-sent"""
    bounced, retried = False, 0
    prev_rec = []
    for op, o in zip(inp[2], obs):
        if op[0] == 3 and prev_rec and prev_rec[0] == 0 and o[1]:
            retried += 1
        prev_rec = o[3]
    if retried == 0:
        return None
    return json.dumps([[len(o[1]) for o in obs], retried])


def nontrivial_outstanding(case, inp, obs):
    """an outstanding-downtime flag was set and later cleared"""
    cleared, prev = 0, []
    for o in obs:
        if any(a not in o[4] for a in prev):
            cleared += 1
        prev = o[4]
    if cleared == 0:
        return None
    return json.dumps([[o[4] for o in obs][:20], cleared])


PCLAUSES = {1: "slash meter exceeds the allowance after BeginBlock", 2: "allowance is not max(1, round(fraction * total power))",
            3: "meter replenished although not due, by more than one allowance, or twice within one replenish period",
            4: "a packet was handled with a negative meter / bounced with a non-negative meter / bounced without reaching the meter check",
            5: "meter not deducted by exactly the validator's effective power when handled (or changed otherwise)",
            6: "window bound violated: power deducted exceeds meter + replenished allowances + last validator's power",
            7: "meter changed in a BeginBlock in which no replenishment was due (other than the clamp to the allowance)",
            10: "the slash meter was lowered by a packet that jailed nobody (e.g. charged again for an already jailed validator)",
            99: "observation count differs from the history"}
CCLAUSES = {1: "a packet was sent while a slash packet is in flight (or outside EndBlock)", 2: "a bounced packet was re-sent before the retry delay elapsed, or something else was sent first",
            3: "packets not sent in queue order / something sent after a slash packet in the same block", 4: "pending queue after sending is not the old queue minus the sent vsc-matured packets",
            5: "queue head deleted (or queue changed) other than by a handled/v1 acknowledgement of a slash packet", 6: "packets dropped, duplicated or reordered (distinct sent sequence != consumed prefix + in-flight head)",
            8: "QueueSlashPacket did not append exactly one packet / outstanding-downtime guard not applied", 9: "outstanding-downtime flag not set for a queued downtime report",
            10: "an outstanding-downtime flag disappeared without a slash ack in a VSC packet (or re-creation of the validator)", 11: "outstanding-downtime flag not cleared by the slash ack in a VSC packet",
            99: "observation count differs from the history"}


def describe_provider(codes):
    return "; ".join(PCLAUSES.get(c, str(c)) for c in codes)


def describe_consumer(codes):
    return "; ".join(CCLAUSES.get(c, str(c)) for c in codes)


def histogram(part, c):
    if part == "meter":
        return ["frac=" + c["frac"], "cons=%d" % len(c["cons"])]
    return ["delay=%d" % c["delay_ns"], "chan0=%d" % c["chan0"]]


PARTS = [
    Part("meter", "c09", "throttle", gen_provider, project=project_meter, nontrivial=nontrivial_provider, describe=describe_provider),
    Part("consumer", "c09", "throttle", gen_consumer, go_test="TestConsumer", nontrivial=nontrivial_consumer, describe=describe_consumer),
]
