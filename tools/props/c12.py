"""C12: validator-set update ids and infraction heights line up across chains (DESIGN.md 6.12).
Reuses the Go package c01 and the model component vsc; the generator emphasises epoch lengths 1-5,
relay lag, slash requests at every consumer height and forged slash packets."""
import json
from check import Part
from props import c01 as base

ID = "C12"
DESIGN_REF = "6.12"
RULE = ("same histories as C01 with epoch lengths 1-5, slash requests (downtime / double-sign, real and unknown validators) "
        "for infraction heights spread over every consumer height in most consumer blocks, relayed to the provider with "
        "scripted lag, plus forged slash packets whose id is absolute or relative to the provider's current id "
        "(current-3 .. current+5, 0..12), and consumer restarts from exported genesis in the middle of the history.  Non-trivial = a slash packet with a non-zero id was accepted by the provider "
        "while the consumer's id lagged the provider's; distinct = distinct (epoch length, ids carried, provider results)")
ASSUMPTIONS = base.ASSUMPTIONS
TRUSTED_BASE = base.TRUSTED_BASE + [
    "slash packets reach the provider through the real IBC callback provider.AppModule.OnRecvPacket; the observation that "
    "clauses 16-18 speak about is the ACKNOWLEDGEMENT it returns (result acknowledgement with one result byte vs error "
    "acknowledgement), on a cached context written only for a successful acknowledgement as in IBC core",
    "the `infraction_height` event attribute is observed whenever HandleSlashPacket emits it (downtime, validator "
    "known, bonded, not tombstoned); otherwise only accept/error of OnRecvSlashPacket and the id -> height store are observed",
]
CLAUSES = base.CLAUSES
describe = base.describe
histogram = base.histogram


def gen(rng, tier):
    n = 200 if tier == "quick" else 4000
    for _ in range(n):
        yield base.gen_case(rng, 12, tier)


def nontrivial(case, inp, obs):
    if not inp or len(inp) < 2:
        return None
    key = []
    good = False
    for inst, st in base._streams(inp, obs):
        vid = inst[1]
        last_recv = 0
        for op, o in st:
            if op[0] == 1:
                vid = o[0]
            elif op[0] == 3 and o[0] >= 0:
                last_recv = o[0]
            elif op[0] == 8 and o[0] >= 0:
                key.append(o[0])
            elif op[0] == 9:
                key.append([op[1], o[0], o[1]])
                if op[1] > 0 and o[0] == 0 and last_recv < vid - 1:
                    good = True
    if not good:
        return None
    return json.dumps([case["bpe"], key])


KNOWN_CURRENT_ID = "C12-current-id-accepted"


def known(case, inp, implobs, modelobs, mon):
    """Matches the known finding exactly: the model still mirrors the code (no correspondence difference), the only
    failing monitor clause is 18, and every accepted never-issued slash-packet id is precisely the provider's CURRENT
    valset update id at that moment.  Any other never-issued id being accepted (current+1, ...) does not match."""
    if not mon or sorted(set(mon)) != [18]:
        return None
    if implobs != modelobs or not inp or len(inp) < 2:
        return None
    offending = 0
    for inst, st in base._streams(inp, implobs):
        vid = inst[1]
        for op, o in st:
            if op[0] == 1:
                vid = o[0]
            elif op[0] == 9 and o[0] == 0 and op[1] >= vid:
                if op[1] != vid:
                    return None
                offending += 1
    return KNOWN_CURRENT_ID if offending else None


PARTS = [Part("ids", "c01", "vsc", gen, nontrivial=nontrivial, describe=describe, known=known)]
