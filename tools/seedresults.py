#!/usr/bin/env python3
"""Regenerates seeded/RESULTS.md from seeded/*/meta.json."""
import json, os, glob
V = os.path.dirname(os.path.dirname(os.path.abspath(__file__)))
rows = []
for m in sorted(glob.glob(os.path.join(V, "seeded", "*", "meta.json"))):
    j = json.load(open(m))
    notes = os.path.join(os.path.dirname(m), "notes.md")
    title = ""
    if os.path.exists(notes):
        for line in open(notes):
            line = line.strip().lstrip("# ").strip()
            if line:
                title = line[:140]; break
    rows.append((j["seed"], j["property"], "caught" if j.get("detected") else "MISSED", j.get("check_result", "")[:160].replace("|", "/"), title.replace("|", "/")))
with open(os.path.join(V, "seeded", "RESULTS.md"), "w") as fh:
    fh.write("# Seeded changes vs checks\n\n| seed | property | result | check output | change |\n|---|---|---|---|---|\n")
    for r in rows:
        fh.write("| " + " | ".join(r) + " |\n")
print(len(rows), "seeds;", sum(1 for r in rows if r[2] == "MISSED"), "missed")
