#!/usr/bin/env python3
"""Orchestrator of one property check.

  tools/check.py Cxx [--tier quick|thorough] [--replay FILE]

Steps (DESIGN.md section 2.1): (1) full Coq build, theorem inventory of Props/Cxx.v and
`Print Assumptions` audit; (2) harness build against /repo's current tree; (3) case
generation from one PRNG; (4) implementation run; (5) extracted-model run; (6) projection
diff; (7) monitors on the implementation's observations; (8) verdict; (9) evidence.
Exit codes: 0 held, 1 violation (a VIOLATION line is printed), 2 infrastructure error.
"""
import argparse, hashlib, importlib, json, os, random, re, subprocess, sys, time

V = os.path.dirname(os.path.dirname(os.path.abspath(__file__)))
W = os.path.join(V, ".work")
REPO = os.environ.get("VERIF_REPO", "/repo")
sys.path.insert(0, os.path.join(V, "tools"))

ALLOWED_AXIOMS = {
    # standard-library axioms that may appear (each is named in the evidence when it does)
    "functional_extensionality_dep", "FunctionalExtensionality.functional_extensionality_dep",
    "proof_irrelevance", "ProofIrrelevance.proof_irrelevance", "classic", "Classical_Prop.classic",
    "JMeq_eq", "JMeq.JMeq_eq", "Eqdep.Eq_rect_eq.eq_rect_eq",
}
FORBIDDEN = re.compile(r"\b(Admitted|admit|Axiom|Axioms|Parameter|Parameters|Conjecture|Conjectures|"
                       r"Abort All|bypass_check|Admit Obligations)\b|Unset Guard|Unset Positivity|"
                       r"Unset Universe|type-in-type|impredicative-set|Hypothesis|Variable\b")


def log(*a):
    print(*a, file=sys.stderr, flush=True)


def run(cmd, **kw):
    return subprocess.run(cmd, stdout=subprocess.PIPE, stderr=subprocess.STDOUT, text=True, **kw)


def goenv():
    e = dict(os.environ)
    e["GOFLAGS"] = "-mod=mod"
    e["GOPROXY"] = "off"
    e.pop("GOTOOLCHAIN", None)   # the cached go1.23.6 toolchain must be auto-selected
    e.pop("GOSUMDB", None)
    e["VERIF_REPO"] = REPO
    return e


# ------------------------------------------------------------------ step 1: proofs
def strip_comments(src):
    out, depth, i = [], 0, 0
    while i < len(src):
        if src.startswith("(*", i):
            depth += 1; i += 2
        elif src.startswith("*)", i) and depth:
            depth -= 1; i += 2
        else:
            if not depth:
                out.append(src[i])
            i += 1
    return "".join(out)


def coq_sources():
    res = []
    for root, _, files in os.walk(os.path.join(V, "coq", "theories")):
        for f in files:
            if f.endswith(".v"):
                res.append(os.path.join(root, f))
    return sorted(res)


def audit_sources():
    """grep for forbidden commands in the whole development (comments stripped)."""
    bad = []
    for p in coq_sources():
        src = strip_comments(open(p).read())
        # Section-local Variable/Hypothesis/Context are allowed inside a Section only
        depth = 0
        for ln, line in enumerate(src.split("\n"), 1):
            if re.match(r"\s*Section\b", line):
                depth += 1
            if re.match(r"\s*End\b", line) and depth:
                depth -= 1
            for m in FORBIDDEN.finditer(line):
                w = m.group(0)
                if w in ("Hypothesis", "Variable") and depth > 0:
                    continue
                if w in ("Hypothesis", "Variable") and not re.match(r"\s*(Hypothesis|Variable)\b", line):
                    continue
                bad.append(f"{os.path.relpath(p, V)}:{ln}: {w}")
    return bad


def coqchk(pid, extra=()):
    """thorough tier: independent re-check of Props/Cxx.vo (and the property's extra Props files) and everything they
    depend on; returns (ok, axioms text)."""
    r = run(["timeout", "3000", "coqchk", "-silent", "-o", "-Q", os.path.join(V, "coq", "theories"), "ICS"] +
            [f"ICS.Props.{f}" for f in [pid] + list(extra)])
    tail = r.stdout[-3000:]
    return r.returncode == 0, tail


def proofs(pid, mod):
    """Returns dict(obligations, discharged, theorems, axioms, errors)."""
    res = {"obligations": 0, "discharged": 0, "theorems": [], "axioms": {}, "errors": []}
    comps = sorted({p.component for p in mod.PARTS})
    e = dict(os.environ); e["VERIF_PROPS"] = " ".join([pid] + list(getattr(mod, "EXTRA_PROPS", [])))
    r = run([os.path.join(V, "tools", "build_model.sh")] + comps, env=e)
    res["build_status"] = r.returncode
    res["build_log"] = r.stdout[-3000:]
    for c in comps:
        if not os.path.exists(os.path.join(W, "bin", "model_" + c)):
            res["errors"].append(f"model component {c} does not build: " + r.stdout[-1500:])
    props_file = os.path.join(V, "coq", "theories", "Props", pid + ".v")
    if not os.path.exists(props_file):
        res["errors"].append("missing " + props_file)
        return res
    # a property may have further theorem files (e.g. compositions with other components): EXTRA_PROPS = ["C01System"]
    files = [pid] + list(getattr(mod, "EXTRA_PROPS", []))
    thms, owner = [], {}
    for f in files:
        pf = os.path.join(V, "coq", "theories", "Props", f + ".v")
        if not os.path.exists(pf):
            res["errors"].append("missing " + pf)
            continue
        src = strip_comments(open(pf).read())
        for t in re.findall(r"^\s*(?:Theorem|Lemma|Corollary)\s+([A-Za-z0-9_']+)", src, re.M):
            thms.append(t); owner[t] = f
    res["theorems"] = thms
    res["obligations"] = len(thms)
    bad = audit_sources()
    if bad:
        res["errors"].append("forbidden commands: " + "; ".join(bad[:10]))
    for f in files:
        if not os.path.exists(os.path.join(V, "coq", "theories", "Props", f + ".vo")):
            res["errors"].append(f"Props/{f}.v (or a file it depends on) does not compile: " + r.stdout[-1500:])
    if res["errors"]:
        return res
    # Print Assumptions for every theorem, in a throw-away file that imports the compiled Props
    adir = os.path.join(W, "assump")
    os.makedirs(adir, exist_ok=True)
    af = os.path.join(adir, f"A_{pid}.v")
    with open(af, "w") as fh:
        for f in files:
            fh.write(f"From ICS Require Props.{f}.\n")
        for t in thms:
            fh.write(f'Goal True. idtac "@@THM {t}". exact I. Qed.\nPrint Assumptions ICS.Props.{owner[t]}.{t}.\n')
    r = run(["coqc", "-Q", os.path.join(V, "coq", "theories"), "ICS", af], cwd=adir)
    if r.returncode != 0:
        res["errors"].append("assumption audit failed: " + r.stdout[-1500:])
        return res
    cur = None
    for line in r.stdout.split("\n"):
        m = re.match(r"@@THM (\S+)", line)
        if m:
            cur = m.group(1); res["axioms"][cur] = []
            continue
        if cur is None or not line.strip() or line.startswith("Closed under") or line.startswith("Axioms:"):
            continue
        m = re.match(r"^([A-Za-z0-9_.']+)\s*:", line)
        if m:
            res["axioms"][cur].append(m.group(1))
    for t in thms:
        ax = res["axioms"].get(t)
        if ax is None:
            res["errors"].append(f"theorem {t} not found in compiled Props/{pid}.vo")
            continue
        extra = [a for a in ax if a not in ALLOWED_AXIOMS and a.split(".")[-1] not in ALLOWED_AXIOMS]
        if extra:
            res["errors"].append(f"theorem {t} depends on non-allow-listed axioms {extra}")
        else:
            res["discharged"] += 1
    return res


# ------------------------------------------------------------------ steps 2-7
def harness_dir():
    """/verif/harness for /repo itself; a private copy when VERIF_REPO points at a scratch tree
    (so that concurrent runs never build against each other's go.mod)."""
    if os.path.realpath(REPO) == "/repo":
        return os.path.join(V, "harness"), os.path.join(W, "bin")
    h = hashlib.sha1(os.path.realpath(REPO).encode()).hexdigest()[:8]
    d = os.path.join(W, "alt", h, "harness")
    os.makedirs(d, exist_ok=True)
    subprocess.run(["rsync", "-a", "--delete", "--exclude", "go.mod", "--exclude", "go.sum",
                    os.path.join(V, "harness") + "/", d + "/"], check=True)
    b = os.path.join(W, "alt", h, "bin")
    os.makedirs(b, exist_ok=True)
    return d, b


_BUILT = {}


def build_harness(pkg):
    if pkg in _BUILT:
        return _BUILT[pkg]
    _BUILT[pkg] = _build_harness(pkg)
    return _BUILT[pkg]


def _build_harness(pkg):
    hd, bd = harness_dir()
    e = goenv(); e["VERIF_HARNESS_DIR"] = hd
    r = run([os.path.join(V, "tools", "mkgomod.sh")], env=e)
    if r.returncode != 0:
        return "mkgomod failed: " + r.stdout
    out = os.path.join(bd, pkg + ".test")
    r = run(["go", "test", "-c", "-tags", "verif", "-o", out, "./" + pkg], cwd=hd, env=goenv())
    if r.returncode != 0:
        return "go build failed:\n" + r.stdout[-4000:]
    return None


def run_impl(part, cases, tag):
    d = os.path.join(W, "run", tag + ("" if os.path.realpath(REPO) == "/repo" else "-alt" + hashlib.sha1(os.path.realpath(REPO).encode()).hexdigest()[:8]))
    os.makedirs(d, exist_ok=True)
    fin, fout = os.path.join(d, "cases.jsonl"), os.path.join(d, "impl.jsonl")
    with open(fin, "w") as fh:
        for c in cases:
            fh.write(json.dumps(c, separators=(",", ":")) + "\n")
    if os.path.exists(fout):
        os.remove(fout)
    e = goenv(); e["VERIF_IN"] = fin; e["VERIF_OUT"] = fout
    hd, bd = harness_dir()
    r = run([os.path.join(bd, part.go_pkg + ".test"), "-test.run", "^" + part.go_test + "$", "-test.timeout", "100m"],
            env=e, cwd=os.path.join(hd, part.go_pkg))
    if r.returncode != 0 or not os.path.exists(fout):
        raise RuntimeError("implementation driver failed:\n" + r.stdout[-4000:])
    impl = {}
    for line in open(fout):
        i, inp, obs = json.loads(line)
        impl[i] = (inp, obs)
    return impl, fout, r.stdout


def run_model(part, impl_file, tag):
    d = os.path.dirname(impl_file)
    fout = os.path.join(d, "model.jsonl")
    with open(impl_file) as fin, open(fout, "w") as fo:
        r = subprocess.run([os.path.join(W, "bin", "model_" + part.component)], stdin=fin, stdout=fo, stderr=subprocess.PIPE, text=True)
    if r.returncode != 0:
        raise RuntimeError("model driver failed: " + r.stderr[-2000:])
    model = {}
    for line in open(fout):
        i, obs, mon = json.loads(line)
        model[i] = (obs, mon)
    return model


def first_diff(a, b, path=""):
    if type(a) != type(b):
        return f"{path}: {json.dumps(a)[:200]} != {json.dumps(b)[:200]}"
    if isinstance(a, list):
        if len(a) != len(b):
            return f"{path}: length {len(a)} != {len(b)}: {json.dumps(a)[:300]} != {json.dumps(b)[:300]}"
        for i, (x, y) in enumerate(zip(a, b)):
            d = first_diff(x, y, f"{path}[{i}]")
            if d:
                return d
        return None
    return None if a == b else f"{path}: {a} != {b}"


class Part:
    """One correspondence part of a property: a Go driver + an extracted component + a generator."""
    def __init__(self, name, go_pkg, component, gen, go_test="TestDriver", project=None, nontrivial=None,
                 describe=None, known=None, shrink=None):
        self.name, self.go_pkg, self.component, self.gen, self.go_test = name, go_pkg, component, gen, go_test
        self.project = project or (lambda case, obs: obs)       # projection compared between model and impl
        self.nontrivial = nontrivial or (lambda case, inp, obs: json.dumps(obs))
        self.describe = describe or (lambda codes: "monitor clauses " + json.dumps(codes))
        self.known = known or (lambda case, inp, implobs, modelobs, mon: None)
        self.shrink = shrink


def ddmin(list_key):
    """Returns a shrinker that minimises case[list_key] (a list of actions) by delta debugging: a candidate is kept
    when the real code + model still produce a failure of the same kind on it."""
    def shrink(part, fail, rerun):
        case = fail["case"]
        items = list(case.get(list_key) or [])
        kind = fail["kind"]
        best = fail
        n = 2
        budget = 40
        while len(items) >= 2 and budget > 0:
            chunk = max(1, len(items) // n)
            cands = []
            for i in range(0, len(items), chunk):
                c = dict(case); c[list_key] = items[:i] + items[i + chunk:]; c["id"] = len(cands)
                cands.append(c)
            budget -= 1
            fails = rerun(cands)
            hit = None
            for f in fails:
                if f["kind"] == kind:
                    hit = f
                    break
            if hit:
                items = list(hit["case"][list_key]); best = hit; n = max(n - 1, 2)
            elif chunk == 1:
                break
            else:
                n = min(len(items), n * 2)
        return best
    return shrink


def load_known():
    p = os.path.join(V, "known_findings.json")
    return json.load(open(p)) if os.path.exists(p) else {"findings": []}


def check_part(pid, part, cases, tag):
    """Returns (stats, failures); a failure is a dict describing one failing case."""
    impl, impl_file, _ = run_impl(part, cases, tag)
    model = run_model(part, impl_file, tag)
    by_id = {c["id"]: c for c in cases}
    fails, nontriv = [], set()
    for i, c in by_id.items():
        if i not in impl or i not in model:
            fails.append({"case": c, "kind": "missing", "detail": "no observation produced"})
            continue
        inp, iobs = impl[i]
        mobs, mon = model[i]
        d = first_diff(part.project(c, mobs), part.project(c, iobs), "obs")
        monbad = mon not in ([], None)
        if d or monbad:
            fails.append({"case": c, "kind": "monitor" if monbad else "correspondence", "detail": d,
                          "monitor": mon, "monitor_text": part.describe(mon) if monbad else "",
                          "input": inp, "impl_obs": iobs, "model_obs": mobs})
        k = part.nontrivial(c, inp, iobs)
        if k is not None:
            nontriv.add(k if isinstance(k, str) else json.dumps(k))
    return {"evaluations": len(cases), "distinct_nontrivial": len(nontriv)}, fails


def main():
    ap = argparse.ArgumentParser()
    ap.add_argument("pid")
    ap.add_argument("--tier", default=os.environ.get("VERIF_TIER") or "quick")
    ap.add_argument("--replay")
    args = ap.parse_args()
    pid = args.pid.upper()
    tier = args.tier if args.tier in ("quick", "thorough") else "quick"
    seed = int(os.environ.get("VERIF_SEED") or 1)
    t0 = time.time()
    mod = importlib.import_module("props." + pid.lower())
    os.makedirs(os.path.join(W, "replay"), exist_ok=True)
    os.makedirs(os.path.join(V, "evidence"), exist_ok=True)

    pr = proofs(pid, mod)
    if any("does not build" in e for e in pr["errors"]):
        log("\n".join(pr["errors"]))
        return 2

    chk = None
    if tier == "thorough" and not args.replay and not pr["errors"]:
        ok, out = coqchk(pid, getattr(mod, "EXTRA_PROPS", []))
        chk = {"ok": ok, "output_tail": out}
        if not ok:
            pr["errors"].append("coqchk failed: " + out[-800:])

    known = load_known()
    known_ids = {f["id"]: f for f in known.get("findings", []) if f.get("property") == pid and f.get("status") == "known"}
    violations, known_hits = [], {}
    stats = {"evaluations": 0, "distinct_nontrivial": 0}
    samples, part_stats, hist = [], {}, {}

    for part in mod.PARTS:
        err = build_harness(part.go_pkg)
        if err:
            log(err)
            return 2
        if args.replay:
            rp = json.load(open(args.replay))
            if rp.get("part") not in (None, part.name):
                continue
            cases = [rp["case"]] if "case" in rp else []
            if not cases:
                continue
        else:
            rng = random.Random(f"{seed}/{pid}/{part.name}")
            cases = []
            cdir = os.path.join(V, "corpus", pid)
            if os.path.isdir(cdir):
                for f in sorted(os.listdir(cdir)):
                    if f.endswith(".json"):
                        cj = json.load(open(os.path.join(cdir, f)))
                        if cj.get("part") == part.name:
                            cases.append(cj["case"])
            cases += list(part.gen(rng, tier))
            for n, c in enumerate(cases):
                c["id"] = n
        st, fails = check_part(pid, part, cases, f"{pid}-{part.name}")
        part_stats[part.name] = st
        stats["evaluations"] += st["evaluations"]
        stats["distinct_nontrivial"] += st["distinct_nontrivial"]
        samples += cases[:2]
        if hasattr(mod, "histogram"):
            for c in cases:
                for k in mod.histogram(part.name, c):
                    hist[k] = hist.get(k, 0) + 1
        # triage failures: known findings first, then prefer monitor failures with the smallest case
        fresh = []
        for f in fails:
            kid = part.known(f["case"], f.get("input"), f.get("impl_obs"), f.get("model_obs"), f.get("monitor"))
            if kid and kid in known_ids:
                known_hits.setdefault(kid, f)
            else:
                fresh.append(f)
        if fresh:
            fresh.sort(key=lambda f: (f["kind"] != "monitor", len(json.dumps(f["case"]))))
            f = fresh[0]
            if part.shrink and not args.replay:
                f = part.shrink(part, f, lambda cs: check_part(pid, part, cs, f"{pid}-{part.name}-shrink")[1]) or f
            f["part"] = part.name
            f["others"] = len(fresh) - 1
            violations.append(f)

    if hasattr(mod, "extra") and not args.replay:
        st, fails = mod.extra(tier, seed)
        part_stats["extra"] = st
        stats["evaluations"] += st.get("evaluations", 0)
        violations += fails

    proof_broken = bool(pr["errors"]) or pr["discharged"] != pr["obligations"] or pr["obligations"] == 0
    out_lines = []
    for kid, f in known_hits.items():
        out_lines.append(f"KNOWN-FINDING: property={pid} {known_ids[kid]['what']}")
    exit_code = 0
    for f in violations:
        h = hashlib.sha1(json.dumps(f["case"], sort_keys=True).encode()).hexdigest()[:10]
        rp = os.path.join(W, "replay", f"{pid}-{f['part']}-{h}.json")
        f["property"] = pid; f["seed"] = seed
        if f["kind"] == "monitor":
            f["what"] = f"property clause fails on the implementation: {f['monitor_text']}"
            suffix = ""
        else:
            comp = ([p.component for p in mod.PARTS if p.name == f['part']] or ["-"])[0]
            f["what"] = (f"correspondence {pid}/{f['part']} (model component '{comp}') "
                         f"no longer checks: {f['detail']}; theorems of Props/{pid}.v therefore no longer speak about this code")
            suffix = " no-failing-input-found"
        json.dump(f, open(rp, "w"), indent=1)
        out_lines.append(f"VIOLATION property={pid} replay={rp}{suffix}")
        exit_code = 1
    if proof_broken:
        rp = os.path.join(W, "replay", f"{pid}-proof.json")
        json.dump({"property": pid, "what": "proof obligations not discharged", "errors": pr["errors"],
                   "theorems": pr["theorems"], "discharged": pr["discharged"]}, open(rp, "w"), indent=1)
        if not any(f["kind"] == "monitor" for f in violations):
            out_lines.append(f"VIOLATION property={pid} replay={rp} no-failing-input-found")
        exit_code = 1
    if not args.replay and stats["distinct_nontrivial"] < 2 and not violations:
        log(f"vacuous run: only {stats['distinct_nontrivial']} non-trivial cases")
        exit_code = exit_code or 2

    axioms_used = sorted({a for l in pr["axioms"].values() for a in l})
    ev = {
        "property_id": pid, "tier": tier, "seed": seed, "level": "proof",
        "coverage": {
            "obligations": pr["obligations"], "discharged": pr["discharged"],
            "checker_cmd": "tools/build_model.sh (coq_makefile + make, full .vo build, coqc 8.16.1) ; coqc Print Assumptions audit of every theorem in coq/theories/Props/%s.v" % pid,
            "trusted_base": getattr(mod, "TRUSTED_BASE", []) + [
                "Coq 8.16.1 kernel (coqc); vm_compute used in Examples only; no native_compute",
                "axioms reported by Print Assumptions: " + (", ".join(axioms_used) if axioms_used else "none (closed under the global context)"),
                "extraction: ExtrOcamlBasic only (bool, option, unit, list, prod, sumbool), no Extract Constant; Z/N/positive/nat stay Coq datatypes; ocaml/main.ml JSON glue + zarith conversion",
                "correspondence check: Go harness (verifharness/" + ",".join(p.go_pkg for p in mod.PARTS) + ") over the fake World of harness/common, generators and projection in tools/props/%s.py" % pid.lower(),
            ],
            "theorems": pr["theorems"], "axioms_per_theorem": pr["axioms"],
            "evaluations": stats["evaluations"], "distinct_nontrivial": stats["distinct_nontrivial"],
            "rule": getattr(mod, "RULE", ""), "samples": samples[:4],
            "traces_validated_against_impl": stats["evaluations"],
            "parts": part_stats, "histogram": hist, "proof_errors": pr["errors"],
            "known_findings_reproduced": sorted(known_hits),
            "coqchk": chk,
        },
        "assumptions": getattr(mod, "ASSUMPTIONS", []),
        "wall_s": round(time.time() - t0, 2),
        "violations": len([l for l in out_lines if l.startswith("VIOLATION")]),
    }
    if not args.replay:
        evdir = os.path.join(V, "evidence") if os.path.realpath(REPO) == "/repo" else harness_dir()[1]
        json.dump(ev, open(os.path.join(evdir, pid + ".json"), "w"), indent=1)
    for l in out_lines:
        print(l)
    if args.replay and violations:
        for f in violations:
            print(json.dumps({k: f.get(k) for k in ("what", "detail", "monitor", "impl_obs", "model_obs")})[:4000])
    log(f"{pid} {tier}: {stats['evaluations']} cases, {stats['distinct_nontrivial']} non-trivial, "
        f"{pr['discharged']}/{pr['obligations']} theorems, {len(violations)} failing parts, {time.time()-t0:.1f}s")
    return exit_code


if __name__ == "__main__":
    sys.exit(main())
