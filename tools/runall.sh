#!/bin/sh
# usage: runall.sh [tier] [seed...]  -- runs every claimed check sequentially; prints one line per run
TIER=${1:-quick}; shift
SEEDS=${*:-1}
cd "$(dirname "$0")/.."
for S in $SEEDS; do
  for P in $(cat claimed.txt); do
    T0=$(date +%s)
    OUT=$(VERIF_SEED=$S python3 tools/check.py $P --tier $TIER 2>&1); RC=$?
    T1=$(date +%s)
    echo "seed=$S $P exit=$RC $((T1-T0))s $(echo "$OUT" | grep -c '^VIOLATION') violation(s) $(echo "$OUT" | grep -c '^KNOWN-FINDING') known | $(echo "$OUT" | tail -1)"
  done
done
