#!/bin/sh
# usage: seedtest.sh <PROPERTY> <patch.diff> [tier]  -- runs the property's check against a scratch worktree of /repo HEAD with the patch applied
set -e
P=$1; PATCH=$2; TIER=${3:-quick}
WT=/tmp/seedwt.$$
git -C /repo worktree add -q "$WT" HEAD
( cd "$WT" && git apply "$PATCH" )
cd /verif
set +e
VERIF_REPO="$WT" python3 tools/check.py "$P" --tier "$TIER"
RC=$?
set -e
git -C /repo worktree remove --force "$WT"
rm -rf /verif/.work/alt
echo "seedtest $P $(basename $(dirname $PATCH)) exit=$RC"
exit 0
