#!/bin/sh
# usage: seedtest.sh <PROPERTY> <patch.diff> [tier]  -- runs the property's check against a scratch worktree of /repo HEAD with the patch applied
set -e
P=$1; PATCH=$2; TIER=${3:-quick}
WT=/tmp/seedwt.$$
git -C /repo worktree add -q "$WT" HEAD
( cd "$WT" && git apply "$PATCH" )
cd /verif
set +e
VERIF_REPO="$WT" python3 tools/check.py "$P" --tier "$TIER"
RC=$?
set -e
H=$(python3 -c "import hashlib,os,sys;print(hashlib.sha1(os.path.realpath(sys.argv[1]).encode()).hexdigest()[:8])" "$WT")
rm -rf "/verif/.work/alt/$H"
git -C /repo worktree remove --force "$WT"
echo "seedtest $P $(basename $(dirname $PATCH)) exit=$RC"
exit 0
