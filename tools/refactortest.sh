#!/bin/sh
# usage: refactortest.sh <dir with out/<k>/patch.diff>  -- applies ALL patches together in a scratch worktree, runs every claimed quick check
SRC=$1
WT=/tmp/refwt.$$
git -C /repo worktree add -q "$WT" HEAD
for p in "$SRC"/out/*/patch.diff; do ( cd "$WT" && git apply "$p" ) || echo "patch failed: $p"; done
cd /verif
for P in $(cat claimed.txt); do
  OUT=$(VERIF_REPO="$WT" python3 tools/check.py $P 2>&1); RC=$?
  echo "refactor-all $P exit=$RC | $(echo "$OUT" | grep '^VIOLATION' | head -3 | tr '\n' ' ') $(echo "$OUT" | tail -1)"
done
H=$(python3 -c "import hashlib,os,sys;print(hashlib.sha1(os.path.realpath(sys.argv[1]).encode()).hexdigest()[:8])" "$WT")
rm -rf "/verif/.work/alt/$H"
git -C /repo worktree remove --force "$WT"
