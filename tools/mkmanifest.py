#!/usr/bin/env python3
"""Regenerates MANIFEST.json from tools/props/*.py (claimed properties) and properties.jsonl."""
import importlib, json, os, sys
V = os.path.dirname(os.path.dirname(os.path.abspath(__file__)))
sys.path.insert(0, os.path.join(V, "tools"))
props = [json.loads(l) for l in open(os.path.join(V, "properties.jsonl"))]
hooks_commits = []
hp = os.path.join(V, "MANIFEST.hooks")
if os.path.exists(hp):
    hooks_commits = [l.split()[0] for l in open(hp) if l.strip() and not l.startswith("#")]
baseline = json.load(open("/root/.vp/BASELINE.json"))["cmd"] if os.path.exists("/root/.vp/BASELINE.json") else ""
DEFAULT_TEXT = ("Rocq (Coq 8.16.1) theorems, for all inputs/histories, over an executable Gallina model of the anchored code; the model is "
                "tied to /repo on every run by a differential correspondence check (extracted OCaml model vs the real Go keepers on "
                "generated histories) and monitors extracted from the same development search for a concrete failing input")


def level_text(mod, pid):
    t = getattr(mod, "LEVEL_TEXT", "")
    extra = getattr(mod, "EXTRA_PROPS", [])
    out = DEFAULT_TEXT if len(t) < 40 else t
    if len(t) >= 40 and "Rocq" not in t and "Coq" not in t:
        out = DEFAULT_TEXT + ". " + t
    if extra:
        out += "; composition theorems in Props/" + ", Props/".join(extra) + ".v"
    return out


checks, na = [], []
claimed = set(open(os.path.join(V, "claimed.txt")).read().split())
for p in props:
    pid = p["id"]
    if pid not in claimed:
        na.append({"property_id": pid, "reason": "check not finished in this round (see DESIGN.md section 6 for the plan); not claimed"})
        continue
    modp = os.path.join(V, "tools", "props", pid.lower() + ".py")
    if not (os.path.exists(modp) and os.path.exists(os.path.join(V, "coq", "theories", "Props", pid + ".v"))):
        na.append({"property_id": pid, "reason": "check not built yet in this round (see DESIGN.md section 6 for the plan); not claimed"})
        continue
    mod = importlib.import_module("props." + pid.lower())
    checks.append({
        "property_id": pid,
        "quick_cmd": f"python3 tools/check.py {pid} --tier quick",
        "thorough_cmd": f"python3 tools/check.py {pid} --tier thorough",
        "evidence_file": f"evidence/{pid}.json",
        "replay_cmd_template": f"python3 tools/check.py {pid} --replay {{path}}",
        "engine": "rocq-model+correspondence",
        "level_claimed": {"category": "proof", "text": level_text(mod, pid),
                          "design_ref": getattr(mod, "DESIGN_REF", "DESIGN.md section 6")},
        "level_note": getattr(mod, "LEVEL_NOTE", "; ".join(getattr(mod, "ASSUMPTIONS", []))),
        "technique": getattr(mod, "TECHNIQUE", "Rocq (Coq 8.16.1) theorems on hand-written Gallina model + differential correspondence check (extracted OCaml model vs real Go code)"),
    })
m = {
    "version": 1,
    "setup_cmd": "make -C /verif setup",
    "hooks": {"guard": "verif", "enable": "go test -c -tags verif (harness module verifharness, replace => /repo); no hook file is currently needed: all drivers use exported API",
              "baseline_off_cmd": baseline, "source_commits": hooks_commits, "add_only": True},
    "engines": [{"name": "rocq-model+correspondence", "path": "tools/check.py",
                 "serves_properties": [c["property_id"] for c in checks],
                 "kind_free_text": "Coq 8.16.1 proofs (coq/theories), extracted OCaml models (.work/bin/model_*), Go correspondence harness (harness/), orchestrated by tools/check.py"}],
    "checks": checks,
    "not_applicable": na,
    "notes": "All checks: exit 0 held / 1 VIOLATION line / 2 infrastructure error. VERIF_SEED seeds the single PRNG; VERIF_TIER overrides --tier.",
}
json.dump(m, open(os.path.join(V, "MANIFEST.json"), "w"), indent=1)
print(f"{len(checks)} claimed, {len(na)} not yet")
